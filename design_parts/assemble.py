#!/venv/bin/python
"""Assembles /verif/DESIGN.md from design_parts/ (head, one section per property, tail)."""
import os

here = os.path.dirname(os.path.abspath(__file__))
out = [open(os.path.join(here, '00_head.md')).read()]
for i in range(1, 21):
    pid = f'C{i:02d}'
    p = os.path.join(here, pid + '.md')
    if os.path.exists(p):
        out.append(open(p).read().rstrip() + '\n\n')
    else:
        txt = open(os.path.join(here, 'plan', pid + '.md')).read().rstrip()
        first, _, rest = txt.partition('\n')
        out.append(first + ' — *plan (check not claimed yet)*\n' + rest + '\n\n')
out.append(open(os.path.join(here, '90_tail.md')).read())
for extra in ('95_detection.md',):
    p = os.path.join(here, extra)
    if os.path.exists(p):
        out.append(open(p).read())
open(os.path.join(os.path.dirname(here), 'DESIGN.md'), 'w').write(''.join(out))
