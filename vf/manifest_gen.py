"""Regenerates MANIFEST.json from the table below (keeps the manifest valid and consistent)."""

import json
import os

ROOT = os.path.dirname(os.path.dirname(os.path.abspath(__file__)))

E1 = 'vf/engine/explore.py'
CHECKS = {}
NOT_YET = {}


def check(pid, category, text, note, technique, engine, design_ref):
    CHECKS[pid] = dict(
        property_id=pid,
        quick_cmd=f'./check {pid} --tier quick',
        thorough_cmd=f'./check {pid} --tier thorough',
        evidence_file=f'/verif/evidence/{pid}.json',
        replay_cmd_template=f'./check {pid} --replay {{path}}',
        engine=engine,
        level_claimed={'category': category, 'text': text, 'design_ref': design_ref},
        level_note=note,
        technique=technique,
    )


check(
    'C07',
    'model_checking',
    'Every sequence of convergence answers (and up to 1-2 forced flags) that the real controller_nonMPI can consume is enumerated '
    'for P<=4, K<=4, L<=3, nsweeps<=2, every predictor and both coupling modes; the protocol invariants (DONE prefix, frozen after DONE, '
    'stage lock-step, tag/sender/value of every receive, termination, callback grammar, niter model) are evaluated on every execution.',
    'Trusted: the scripted sweeper subclass only overwrites the residual value on the finest level in IT_CHECK; everything else is the code in /repo. Bounds are those listed in evidence.bounds_completed.',
    'stateless exhaustive choice-tree exploration of the real controller (replay-based DFS), reference-model comparison per execution',
    'E1',
    'DESIGN.md section 2 C07',
)


def main():
    props = [json.loads(l)['id'] for l in open(os.path.join(ROOT, 'properties.jsonl'))]
    man = {
        'version': 1,
        'setup_cmd': '/venv/bin/python -m compileall -q vf >/dev/null; ./check SELFTEST --tier quick',
        'hooks': {
            'guard': 'PYSDC_VERIF',
            'enable': 'no source hooks are needed: checks drive /repo through public plug-in points (pySDC is installed editable from /repo in /venv); PYSDC_VERIF=1 is exported by ./check but read by nothing in /repo',
            'baseline_off_cmd': 'cd /repo && /venv/bin/python -m pytest -ra -q -p no:cacheprovider --timeout=900 --continue-on-collection-errors',
            'source_commits': [],
            'add_only': True,
        },
        'engines': [
            {'name': 'E1', 'path': 'vf/engine/explore.py', 'serves_properties': ['C03', 'C06', 'C07', 'C09', 'C14', 'C19'], 'kind_free_text': 'stateless choice-tree explorer over environment answers of the real controller (deviation bounded, replayable)'},
            {'name': 'E2', 'path': 'vf/engine/enumerate.py', 'serves_properties': ['C01', 'C02', 'C04', 'C05', 'C10', 'C11', 'C12', 'C13', 'C15', 'C17', 'C18', 'C20'], 'kind_free_text': 'exhaustive configuration-lattice x basis-input enumeration against independent reference models'},
            {'name': 'E3', 'path': 'vf/engine/simmpi.py', 'serves_properties': ['C08'], 'kind_free_text': 'simulated mpi4py with baton scheduler; enumerates rank interleavings up to a preemption bound'},
            {'name': 'E4', 'path': 'vf/engine/crash.py', 'serves_properties': ['C16'], 'kind_free_text': 'crash-prefix enumerator over recorded write histories'},
        ],
        'checks': [CHECKS[p] for p in props if p in CHECKS],
        'not_applicable': [
            {'property_id': p, 'reason': NOT_YET.get(p, 'check not built yet in this session (planned, see DESIGN.md section 6); not claimed until it exists')}
            for p in props
            if p not in CHECKS
        ],
        'notes': 'All checks run the code in /repo directly (no build step). ./check <ID> --tier quick|thorough; ./check <ID> --replay <file>.',
    }
    with open(os.path.join(ROOT, 'MANIFEST.json'), 'w') as f:
        json.dump(man, f, indent=1)
        f.write('\n')


if __name__ == '__main__':
    main()
