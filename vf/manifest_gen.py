"""Regenerates MANIFEST.json from the table below (keeps the manifest valid and consistent)."""

import json
import os

ROOT = os.path.dirname(os.path.dirname(os.path.abspath(__file__)))

E1 = 'vf/engine/explore.py'
CHECKS = {}
NOT_YET = {}
HOLD = set()  # built but not yet passing on the unchanged tree / not yet validated: not claimed


def check(pid, category, text, note, technique, engine, design_ref):
    CHECKS[pid] = dict(
        property_id=pid,
        quick_cmd=f'./check {pid} --tier quick',
        thorough_cmd=f'./check {pid} --tier thorough',
        evidence_file=f'/verif/evidence/{pid}.json',
        replay_cmd_template=f'./check {pid} --replay {{path}}',
        engine=engine,
        level_claimed={'category': category, 'text': text, 'design_ref': design_ref},
        level_note=note,
        technique=technique,
    )


check(
    'C07',
    'model_checking',
    'Every sequence of convergence answers (and up to 1-2 forced flags) that the real controller_nonMPI can consume is enumerated '
    'for P<=4, K<=4, L<=3, nsweeps<=2, every predictor and both coupling modes; the protocol invariants (DONE prefix, frozen after DONE, '
    'stage lock-step, tag/sender/value of every receive, every transfer consumed exactly once (own record of which successor still listens), termination, callback grammar, niter model) are evaluated on every execution; also over two blocks, partially filled blocks and a second run() on the same controller.',
    'Trusted: the scripted sweeper subclass only overwrites the residual value on the finest level in IT_CHECK; everything else is the code in /repo. Bounds are those listed in evidence.bounds_completed.',
    'stateless exhaustive choice-tree exploration of the real controller (replay-based DFS), reference-model comparison per execution',
    'E1',
    'DESIGN.md section 2 C07',
)


check(
    'C03',
    'model_checking',
    'Truth: on every configuration of a deviation ball (radius 1 quick / 2 thorough, 15 dimensions, five bases incl. three levels with two sweeps per visit and a single-level multi-step LOBATTO block) every residual the real run reports at '
    'post_sweep / post_iteration / post_step is recomputed from the node values held at that moment with an independent Q and operator. Soundness: every '
    'sequence of residual answers (K in 0..4, P<=3, L<=2) plus <=1-2 forced flags is enumerated on the real controller and the stopping rule, budget and '
    'logged iteration count are compared with a reference model on each execution (also over two and three blocks, a second run() on the same controller, not-a-number answers, several sweeps per iteration). Part M: the mass-matrix sweeper with base_transfer_mass on 1..3 levels of a numpy stand-in problem.',
    'Trusted: numpy polynomial integration for Q; the scripted sweeper only overwrites the residual value in IT_CHECK on the finest level. imex_1st_order_mass is covered on a numpy stand-in problem only (the shipped users need FEniCS).',
    'exhaustive configuration-ball enumeration with independent defect oracle + stateless exhaustive choice-tree exploration against a reference model',
    'E1',
    'DESIGN.md section 2 C03',
)
check(
    'C06',
    'model_checking',
    'Every member of a (t0, dt, Tend formation, remainder, P, L) lattice is run on the real controller and the accepted steps are checked for exact tiling, '
    'bitwise value chaining, start < Tend, reaching Tend, return value and an exact-rational step count; the same clauses are evaluated on every restart / '
    'step-size history the C09 harness explores within its deviation bound.',
    'Trusted: the recorder hook; step-count reference in exact rational arithmetic with the admissible range ceil(x-delta)..ceil(x).',
    'exhaustive lattice enumeration + deviation-bounded exhaustive exploration of environment scripts on the real controller',
    'E1',
    'DESIGN.md section 2 C06',
)
check(
    'C08',
    'model_checking',
    'The real controller_MPI, generic_implicit_MPI / imex_1st_order_MPI, base_transfer_MPI and the MPI flavours of the convergence controllers run on a '
    'simulated mpi4py whose scheduler is driven by the explorer: the canonical schedule on configuration balls (time-parallel, node-parallel, space-time grids; residual type x quadrature type cross) under 2-4 completion modes, every rejection '
    'script with <=1-3 rejections, and every schedule with <=1 (thorough: <=2 on the smallest) deviations on the base configurations; each execution is '
    'compared with the serial counterpart and checked for deadlock, unmatched receives, collective mismatch and send buffers modified before completion.',
    'Trusted: the simulator (vf/engine/simmpi.py) models the MPI semantics stated in its docstring; ranks are threads of one interpreter. Real network timing, NCCL, MPI-IO and the interrupt-based iteration estimator are not covered.',
    'preemption/deviation-bounded exhaustive schedule exploration of the real MPI classes on a simulated MPI, differential oracle against the serial implementation',
    'E3',
    'DESIGN.md section 2 C08',
)
check(
    'C09',
    'model_checking',
    'Every script of error estimates (6-letter alphabet around the tolerance; quick: 4 letters) and direct restart requests with at most 2-4 non-default answers is run through the real '
    'Adaptivity / BasicRestarting / SpreadStepSizes / limiter controllers for every configuration of a ball (P, max_restarts, restart_from_first_step, crash, Tend distance, '
    'limiter settings, K); restart position, one step size per block, retry budget, acceptance below tolerance, proposal formula with clipping and smaller retry are checked on each.',
    'Trusted: scripted estimator = real Adaptivity with only get_local_error_estimate replaced; lenient (block-level) reading of the retry budget. Real adaptive runs (embedded, RK, polynomial, extrapolation estimators; avoid_restarts) are observed without a scripted environment on the same clauses; nonconvergence rejections of the converged-collocation family and detectors behind BasicRestarting in the control order have their own plans.',
    'deviation-bounded exhaustive exploration of environment scripts on the real controller, clause checks on the recorded history',
    'E1',
    'DESIGN.md section 2 C09',
)
check(
    'C14',
    'model_checking',
    'All histories of the restart / step-size harness, of the convergence-pattern harness and with partially filled last blocks are run with every shipped logging hook; '
    'after filter_stats(recomputed=False) the records of each type must be exactly those of the accepted steps (time keys and values from the independent recorder, work counted by the problem itself). '
    'The filter / sort helpers are compared with a brute-force reference on every statistics dictionary with <=2-3 entries over a two-valued key alphabet.',
    'Trusted: recorder hook and the problem-side call counter.',
    'deviation-bounded exhaustive exploration of histories + exhaustive small-scope enumeration of helper inputs',
    'E1',
    'DESIGN.md section 2 C14',
)
check(
    'C19',
    'model_checking',
    'Every operation sequence up to depth 3 (thorough 4) over {new controller of 13-16 configurations (also from one shared description / controller_params dictionary), add_hook, run, short run, split run on the same / a fresh controller at each block boundary} with at most two live '
    'controllers is executed; the digest (solution bits and every non-timing statistics entry) of each logical run must equal that of the same run alone in a fresh subprocess.',
    'Trusted: sha1 digests; continuation time taken from the last logged step. Re-run / split clauses only for fixed-step configurations as the property says.',
    'breadth-first exhaustive enumeration of operation sequences, differential oracle against a fresh process',
    'E1',
    'DESIGN.md section 2 C19',
)
check(
    'C17',
    'exploration',
    'Every operator of the Chebyshev-T / ultraspherical / Fourier helpers is applied to every basis vector for N in 1..64 (quick: a subset), derivative orders 1..3, four intervals where the operator carries the map, '
    'and compared with exact polynomial / Fourier calculus; all 9 pairs and 27 triples of bases for the N-D operators, twin axes, per-axis transforms, very long and very short intervals.',
    'Trusted: numpy.polynomial.chebyshev and exact Fraction power-basis arithmetic. GPU, FFTW and mpi4py-fft back ends are out of reach.',
    'basis-exhaustive enumeration over a complete lattice against an exact-arithmetic reference',
    'E2',
    'DESIGN.md section 2 C17',
)
check(
    'C18',
    'exploration',
    'Every stencil of the lattice derivative 1..4 x order 1..8 x layout plus every user offset subset of {-4..4} is checked on all moments in exact rational arithmetic; every matrix of the size / boundary / treatment lattice is '
    'judged row by row on integer monomials up to its exactness degree, periodic matrices entry by entry against circulant references, dim 2,3 against Kronecker sums.',
    'Trusted: fractions.Fraction arithmetic. cupy back end not covered.',
    'exhaustive lattice enumeration against an exact rational-arithmetic reference',
    'E2',
    'DESIGN.md section 2 C18',
)


check(
    'C01',
    'exploration',
    'The real controller_nonMPI.run is executed on every configuration within Hamming distance 1 (quick) / 2 (thorough) of four base configurations over 19 dimensions (sweeper x problem, all 53 QI names, node family, '
    'quadrature type, M, levels and coarsening kind, P, predictor, coupling, all_to_done, nsweeps, residual type, initial guess, finter, end-point mode, dt scale); every step whose full defect (recomputed by the oracle) '
    'is below restol is compared with the dense collocation solution of an independent oracle (own Q by exact Lagrange integration, own operators).',
    'Trusted: vf/oracle/colloc.py (exact rational Lagrange integration, dense numpy solves). Decided on the deviation balls only, not on the full product; steps that did not reach restol are counted as premise not met.',
    'exhaustive enumeration of a bounded configuration ball against an independent dense collocation oracle',
    'E2',
    'DESIGN.md section 2 C01',
)
check(
    'C02',
    'exploration',
    'For every shipped sweeper class x preconditioner name x node set x dt x linear operator x tau x end-point mode x sweep index, the complete iteration matrix of one real update_nodes / integrate / compute_end_point call is extracted by basis '
    'inputs (unit vectors in every node/dof slot of U, u0, tau, the zero input and additivity probes) and compared with the algebraic iteration assembled by an independent dense oracle; stored preconditioner matrices are compared with zero-padded qmat coefficients.',
    'Trusted: vf/oracle/sdc.py. The sweep is affine in its inputs (checked by the additivity probes), so the basis decides it for all node values.',
    'basis-exhaustive enumeration over a configuration lattice against an independent dense-matrix reference model',
    'E2',
    'DESIGN.md section 2 C02',
)
check(
    'C04',
    'exploration',
    'For every node family x quadrature type x M x preconditioner name x iteration count k x end-point mode the real one-step map is evaluated on a circle of complex z (lambda vector) and all Taylor coefficients are extracted by DFT and compared with 1/j! up to the order the '
    'oracle iteration delivers (>= min(k,p) for first-order-consistent preconditioners); converged runs against the collocation stability function; every Runge-Kutta class against its documented order and embedded order, the latter also against the order the AdaptivityRK instance of a real controller holds; a preconditioner switched on an existing sweeper against the directly built sweeper.',
    'Trusted: vf/oracle/sdc.py; Cauchy-estimate tolerances. A polynomial identity in z up to the claimed degree is decided by its coefficients.',
    'exhaustive lattice enumeration; all Taylor coefficients of the real step function against an exact reference',
    'E2',
    'DESIGN.md section 2 C04',
)
check(
    'C05',
    'exploration',
    'All 6 node types x 4 quadrature types x M 1..8 (thorough 1..16) x 8 intervals: every weight, Qmat and Smat entry against exact Lagrange integrals (mpmath, 60 digits) through the reported nodes, moments up to the reported order, end-point flags, '
    'padding, cumulative-sum identities, node spacings and affine covariance; the same for rules held by sweepers that were given the interval (alone, and as middle level of a three-level step), construction-history and in-place re-initialisation clauses.',
    'Trusted: mpmath. Tolerances are rounding of representable data (node ulp sensitivities and the Lebesgue function of the reported nodes).',
    'exhaustive lattice enumeration against an extended-precision reference',
    'E2',
    'DESIGN.md section 2 C05',
)
check(
    'C10',
    'exploration',
    'Real multi-level steps are loaded with the oracle collocation solution and driven through the real IT_DOWN / IT_COARSE / IT_UP / IT_FINE stages (fixed point), restricted on basis inputs (coarse defect = restricted fine defect) and probed for their one-iteration map '
    '(= oracle multigrid-in-time matrix) over node-set pairs/triples, all Lagrange transfer orders, FFT and identity transfers, 14 linear and nonlinear problems, 2 and 3 levels, both prolongation modes; in real multi-step runs the defect identity is evaluated after every restriction.',
    'Trusted: vf/oracle/colloc.py (own Newton for nonlinear problems with transcribed right-hand sides). BaseTransfer_mass not covered (needs FEniCS).',
    'basis-exhaustive enumeration over a configuration lattice against an independent reference model',
    'E2',
    'DESIGN.md section 2 C10',
)
check(
    'C11',
    'exploration',
    'Every ordered node-count pair 1..9 in all 24 families plus cross-family pairs (Pcoll/Rcoll entrywise vs exact Lagrange matrices), every 1D interpolation/restriction matrix for periodic 2^k and Dirichlet 2^k-1 grids, orders 2..8, nested on/off, in exact Fraction arithmetic, '
    'mesh / imex_mesh / comp2_mesh transfers on every unit vector vs Kronecker products (square and rectangular boxes, any-size stand-ins), FFT transfers on every mode and unit vector, NoCoarse identities.',
    'Trusted: fractions.Fraction / mpmath oracles in vf/oracle/interp.py. Refinement ratio 2 only; ncomp problems through stand-ins (mpi4py-fft absent).',
    'exhaustive lattice and basis enumeration against an exact-arithmetic reference',
    'E2',
    'DESIGN.md section 2 C11',
)


check(
    'C12',
    'exploration',
    'Every importable Problem subclass (59; 58 with a constructor recipe covering every solver / boundary / stencil variant it offers) is put through the complete lattice states x right-hand sides x times x factors {0, 1e-6, 1e-3, 0.1, 1, 1e2}: solver residual against the '
    'class\'s own eval_f within a tolerance derived from the configured solver tolerance, factor = 0, arguments bitwise unchanged, split siblings summing to the unsplit right-hand side, closed-form solutions against initial condition and a Richardson time derivative.',
    'Trusted: the recipe table (vf/env/c12_recipes.py). For Newton-based classes the state lattice is an alphabet, not a proof over all states; 19 modules need optional libraries and are not importable here.',
    'exhaustive lattice enumeration per problem class against the solver contract',
    'E2',
    'DESIGN.md section 2 C12',
)
check(
    'C13',
    'exploration',
    'Every operation sequence up to depth 3 (thorough 4) over the operation alphabet x initial aliasing patterns for every data type x shape x dtype is compared with a value-semantics interpreter with explicit buffers; abs() against the max-norm axioms on a value alphabet; '
    'run level: for a lattice of sweeper x controller combinations the caller\'s u0 and every logged / returned solution stay bitwise unchanged (two runs, two blocks); component views of sliced meshes; copies (same class and across classes) own their storage.',
    'Trusted: the reference interpreter in vf/oracle/valuesem.py.',
    'breadth-first exhaustive enumeration of operation sequences against a reference model',
    'E2',
    'DESIGN.md section 2 C13',
)
check(
    'C15',
    'exploration',
    'Complete lattice n_steps 1..16 x alpha over ten decades and 1: weighted transforms inverse to each other and diagonalising the alpha-circulant matrix with the closed-form factors, factors recovered from get_G_inv_matrix for M 1..5; QDiagonalization sweepers and one it_ParaDiag iteration probed on a basis against '
    'dense solves (default and three further collocation rules, built after a twin); converged ParaDiag runs against sequential collocation stepping, continued by a second run, a run after a step-size change, restarts from every slot, negative time windows.',
    'Trusted: vf/oracle/paradiag.py (mpmath closed forms, exact rational Q, dense numpy solves). Linear problems only, as the property says.',
    'exhaustive lattice and basis enumeration against an independent closed-form / dense reference',
    'E2',
    'DESIGN.md section 2 C15',
)
check(
    'C16',
    'fault_enumeration',
    'Every operation history up to length 2 on the full dtype x nVar x grid lattice (up to 5-6 on selected configurations) is replayed with bit-exact comparison through all readers and in a fresh process; for every append and for header creation every byte prefix is recovered, checked, appended to and read again; '
    'the block decomposition is checked for exact cover on the complete nProcs x grid lattice (fresh objects per rank and one object asked for every rank); LogToFile resume into files torn at every byte; files beyond 2**31 / 2**32 bytes (sparse) through every handle kind.',
    'Trusted: vf/oracle/fieldfile.py (list-of-records model). One crash per history; the MPI-IO branch is not simulated.',
    'exhaustive crash-point enumeration over recorded write histories with recovery and continuation',
    'E4',
    'DESIGN.md section 2 C16',
)
check(
    'C20',
    'exploration',
    'Every description of the grammar with list/scalar shapes within the stated ball is built and its hierarchy compared with the distribution rule; every member of the single-fault table applied to each valid base must be rejected at construction or first run; every subset of a pool of user-addable convergence controllers '
    'is instantiated once (as is every class asked for as a dependency, recorded at the add_convergence_controller call), ordered by control_order (order array and observed call order of every callback loop), with user parameters overriding defaults; per-level transfer entries (part D); read-only declarations of every importable problem class recorded at the registration call (part E).',
    'Trusted: the fault table only demands rejection of what the property statement lists and where the faulty entry is consulted.',
    'exhaustive enumeration over a description grammar and a single-fault table',
    'E2',
    'DESIGN.md section 2 C20',
)


def main():
    props = [json.loads(l)['id'] for l in open(os.path.join(ROOT, 'properties.jsonl'))]
    man = {
        'version': 1,
        'setup_cmd': '/venv/bin/python -m compileall -q vf >/dev/null; ./check SELFTEST --tier quick',
        'hooks': {
            'guard': 'PYSDC_VERIF',
            'enable': 'no source hooks are needed: checks drive /repo through public plug-in points (pySDC is installed editable from /repo in /venv); PYSDC_VERIF=1 is exported by ./check but read by nothing in /repo',
            'baseline_off_cmd': 'cd /repo && /venv/bin/python -m pytest -ra -q -p no:cacheprovider --timeout=900 --continue-on-collection-errors',
            'source_commits': [],
            'add_only': True,
        },
        'engines': [
            {'name': 'E1', 'path': 'vf/engine/explore.py', 'serves_properties': ['C03', 'C06', 'C07', 'C09', 'C14', 'C19'], 'kind_free_text': 'stateless choice-tree explorer over environment answers of the real controller (deviation bounded, replayable)'},
            {'name': 'E2', 'path': 'vf/oracle/', 'serves_properties': ['C01', 'C02', 'C04', 'C05', 'C10', 'C11', 'C12', 'C13', 'C15', 'C17', 'C18', 'C20'], 'kind_free_text': 'exhaustive configuration-lattice x basis-input enumeration (driven by the property modules vf/props/cNN.py with common.pmap) against the independent reference models in vf/oracle/'},
            {'name': 'E3', 'path': 'vf/engine/simmpi.py', 'serves_properties': ['C08'], 'kind_free_text': 'simulated mpi4py with baton scheduler; enumerates rank interleavings up to a preemption bound'},
            {'name': 'E4', 'path': 'vf/engine/crash.py', 'serves_properties': ['C16'], 'kind_free_text': 'crash-prefix enumerator over recorded write histories'},
        ],
        'checks': [CHECKS[p] for p in props if p in CHECKS and p not in HOLD],
        'not_applicable': [
            {'property_id': p, 'reason': NOT_YET.get(p, 'check not built yet in this session (planned, see DESIGN.md section 6); not claimed until it exists')}
            for p in props
            if p not in CHECKS or p in HOLD
        ],
        'notes': 'All checks run the code in /repo directly (no build step). ./check <ID> --tier quick|thorough; ./check <ID> --replay <file>.',
    }
    with open(os.path.join(ROOT, 'MANIFEST.json'), 'w') as f:
        json.dump(man, f, indent=1)
        f.write('\n')


if __name__ == '__main__':
    main()
