"""C13 — data types have value semantics; runs never corrupt caller or logged data.

Part 1 (operation sequences): every sequence up to a depth bound over an operation alphabet, for every data type x
shape x dtype x initial aliasing pattern, executed on the real data types and on the value-semantics interpreter
`vf.oracle.valuesem`; after every sequence (every prefix is a sequence of its own) all names are compared (type,
shape, dtype, values), abs() is compared with the max norm, and a fixed probe suffix (write a sentinel through every
name) is applied and compared again.  A separate exhaustive pass checks the norm axioms of abs() on a value alphabet.

Part 2 (run level) lives in `vf.env.c13runs` (imported lazily by run()).
"""

import copy
import itertools
import math
import operator
import time

import numpy as np

from pySDC.implementations.datatype_classes.mesh import mesh, imex_mesh, comp2_mesh
from pySDC.implementations.datatype_classes.particles import particles, fields, acceleration
from pySDC.projects.DAE.misc.meshDAE import MeshDAE

from vf import common
from vf.env import c13runs as _c13_runs
from vf.oracle import valuesem as vs

LEVEL = 'exploration'

TYPES = {
    'mesh': mesh,
    'imex_mesh': imex_mesh,
    'comp2_mesh': comp2_mesh,
    'MeshDAE': MeshDAE,
    'acceleration': acceleration,
    'particles': particles,
    'fields': fields,
}
ARR_KINDS = ('mesh', 'imex_mesh', 'comp2_mesh', 'MeshDAE', 'acceleration')
REC_KINDS = ('particles', 'fields')
SHAPES = ((1,), (3,), (2, 2))
DTYPES = ('float64', 'complex128')
NAMES = ('a', 'b', 'c')
READ = ('a', 'b')

TOL_C = 64  # values: |impl - ref| <= TOL_C * eps * max(|ref|, tiny); same numpy kernels on both sides -> expected 0
HOM_C = 64  # homogeneity: product, hypot and the reference product are each rounded (<= ~5 eps together)
ABS_C = 32  # abs(): relative, in units of eps
EPS = float(np.finfo(float).eps)

PYOP = {'+': operator.add, '-': operator.sub, '*': operator.mul, '/': operator.truediv, '**': operator.pow, '%': operator.mod, '//': operator.floordiv}
PYIOP = {'+': operator.iadd, '-': operator.isub, '*': operator.imul, '/': operator.itruediv, '**': operator.ipow, '%': operator.imod, '//': operator.ifloordiv}

# fixed pools; VERIF_SEED only rotates which members are used (never which sequences are explored)
POOL = [1.5, -2.25, 3.0, 0.5, -1.0, 4.0, 2.5, -3.5, 0.75, 6.0, -0.25, 1.25, -5.0, 2.0, 3.5, -1.75, 0.375, 8.0]
SC_POOL = {
    'f': [2.0, -1.5, 0.75, 4.0, -0.5],
    'i': [3, -2, 5, 2, -3],
    'n': [np.float64(0.5), np.float64(-4.0), np.float64(1.25), np.float64(2.5), np.float64(-0.125)],
    'z': [1 + 2j, -0.5 + 1j, 2 - 1j, 0.25 + 0.5j, -1 - 1j],
    # neutral elements (the same for every seed): a product with one / a sum with zero is still a new object
    'u': [1.0],
    'o': [0.0],
}
PROBES = {'a': 101.0, 'b': 102.0, 'c': 103.0}
_VALS = {}


_DATA = {}


def data_for(dtype):
    if dtype not in _DATA:
        _DATA[dtype] = _data_for(dtype)
    return _DATA[dtype]


def _data_for(dtype):
    s = common.seed()
    rot = lambda k: POOL[(k * 5 + s) % len(POOL) :] + POOL[: (k * 5 + s) % len(POOL)]
    d = {}
    for i, key in enumerate(('a', 'b', 'c', 'R')):
        re = rot(i)
        if dtype == 'complex128' and key != 'R':
            im = rot(i + 7)
            d[key] = [complex(x, y) for x, y in zip(re, im)]
        else:
            d[key] = list(re)
    d['extra'] = {'a': (1.0, 2.0), 'b': (3.0, 0.5), 'c': (0.25, 4.0)}
    sc = {k: v[s % len(v)] for k, v in SC_POOL.items()}
    return d, sc


# ------------------------------------------------------------------------------------------------
# implementation side
# ------------------------------------------------------------------------------------------------
def impl_initial(kind, shape, dtype, pattern, data):
    dt = np.dtype(dtype)
    T = TYPES[kind]

    def vals(key, shp, off=0):
        ck = (dtype, key, shp, off)
        if ck not in _VALS:
            n = math.prod(shp)
            _VALS[ck] = np.array(data[key][off : off + n], dtype=dt).reshape(shp)
        return _VALS[ck]

    def mk(key):
        if kind in vs.RECS:
            o = T((tuple(shape), None, dt), val=0.0)
            n = math.prod(shape)
            for i, (name, _) in enumerate(vs.RECS[kind]):
                getattr(o, name)[:] = vals(key, shape, off=i * n)
            for j, nme in enumerate(vs.REC_EXTRA[kind]):
                getattr(o, nme)[:] = data['extra'][key][j]
            return o
        o = T((tuple(shape), None, dt), val=0.0)
        full = (2,) + tuple(shape) if kind in vs.MULTI else tuple(shape)
        assert o.shape == full, (o.shape, full)
        o[:] = vals(key, full)
        return o

    env = {'a': mk('a')}
    A = env['a']
    if pattern == 'indep':
        env['b'] = mk('b')
    elif pattern == 'b_is_a':
        env['b'] = A
    elif pattern == 'b_view_a':
        env['b'] = A[:]
    elif pattern == 'b_row_a':
        env['b'] = A[0]
    elif pattern == 'b_comp_a':
        env['b'] = getattr(A, comp_name(A, 0))
    env['c'] = mk('c')
    R = np.array(data['R'][: math.prod(shape)], dtype=float).reshape(shape)
    return env, R


def comp_name(obj, k):
    tn = type(obj).__name__
    if tn in vs.RECS:
        return vs.RECS[tn][k][0]
    return vs.MULTI[tn][k]


def impl_apply(env, op, sc, R):
    k = op[0]
    if k == 'bin':
        _, t, x, o, y = op
        env[t] = PYOP[o](env[x], env[y])
    elif k == 'binS':
        _, t, x, o, s = op
        env[t] = PYOP[o](env[x], sc[s])
    elif k == 'rbinS':
        _, t, s, o, x = op
        env[t] = PYOP[o](sc[s], env[x])
    elif k == 'binR':
        _, t, x, o = op
        env[t] = PYOP[o](env[x], R)
    elif k == 'rbinR':
        _, t, o, x = op
        env[t] = PYOP[o](R, env[x])
    elif k == 'iop':  # operator.iadd(a, b) is `a += b` and returns what the name is bound to afterwards
        _, x, o, y = op
        env[x] = PYIOP[o](env[x], env[y])
    elif k == 'iopS':
        _, x, o, s = op
        env[x] = PYIOP[o](env[x], sc[s])
    elif k == 'iopR':
        _, x, o = op
        env[x] = PYIOP[o](env[x], R)
    elif k == 'ufout':
        _, t, x, y = op
        env[t] = np.add(env[x], env[y], out=env[x])
    elif k == 'un':
        _, t, fn, x = op
        X = env[x]
        if fn == 'neg':
            env[t] = -X
        elif fn == 'pos':
            env[t] = +X
        elif fn == 'sin':
            env[t] = np.sin(X)
        elif fn == 'exp':
            env[t] = np.exp(X)
        elif fn == 'copycon':
            env[t] = type(X)(X)
        elif fn == 'copy':
            env[t] = X.copy()
        elif fn == 'deepcopy':
            env[t] = copy.deepcopy(X)
        elif fn == 'view':
            env[t] = X[:]
        elif fn == 'row':
            env[t] = X[0]
        else:
            raise KeyError(fn)
    elif k == 'comp':
        _, t, x, kk = op
        env[t] = getattr(env[x], comp_name(env[x], kk))
    elif k == 'set':
        _, x, idx, s = op
        env[x][vs.IDX[idx](env[x].ndim)] = sc[s]
    elif k == 'setfrom':
        _, x, y = op
        env[x][:] = env[y]
    elif k == 'compset':
        _, x, kk, idx, s = op
        c = getattr(env[x], comp_name(env[x], kk))
        c[vs.IDX[idx](c.ndim)] = sc[s]
    elif k == 'compfrom':
        _, x, kk, y, ll = op
        getattr(env[x], comp_name(env[x], kk))[:] = getattr(env[y], comp_name(env[y], ll))
    else:
        raise KeyError(k)


# ------------------------------------------------------------------------------------------------
# comparison
# ------------------------------------------------------------------------------------------------
def _cmp_array(got, ref, where, out):
    """got: ndarray (any subclass), ref: plain ndarray. Appends mismatch descriptions; returns worst err/tol."""
    g = np.asarray(got).view(np.ndarray)
    if g.shape != ref.shape:
        out.append({'what': 'shape', 'where': where, 'expected': list(ref.shape), 'observed': list(g.shape)})
        return 0.0
    if g.dtype != ref.dtype:
        out.append({'what': 'dtype', 'where': where, 'expected': str(ref.dtype), 'observed': str(g.dtype)})
        return 0.0
    if g.tobytes() == ref.tobytes():
        return 0.0
    fin = np.isfinite(ref)
    if not np.array_equal(fin, np.isfinite(g)) or not np.array_equal(np.isnan(ref), np.isnan(g)):
        out.append({'what': 'values', 'where': where, 'expected': ref.tolist(), 'observed': g.tolist()})
        return 0.0
    with np.errstate(all='ignore'):
        inf_ok = np.all((g == ref) | fin)
        err = np.abs(np.where(fin, g - ref, 0))
        tol = TOL_C * EPS * np.maximum(np.abs(np.where(fin, ref, 0)), 1e-300)
    ratio = float(np.max(err / tol)) if err.size else 0.0
    if ratio > 1.0 or not inf_ok:
        out.append({'what': 'values', 'where': where, 'expected': ref.tolist(), 'observed': g.tolist()})
    return ratio


def compare(env, st, R, Rref, abs_names):
    """Compare every name of the implementation environment with the model state (abs() for `abs_names`)."""
    out = []
    worst = 0.0
    for name in NAMES:
        obj = env[name]
        mo = st.env[name]
        if isinstance(mo, vs.Arr):
            tn = type(obj).__name__
            if tn not in mo.kinds:
                out.append({'what': 'type', 'where': name, 'expected': list(mo.kinds), 'observed': tn})
                continue
            if name in abs_names:
                worst = max(worst, _cmp_abs(obj, st, name, out))
            worst = max(worst, _cmp_array(obj, st.view(mo), name, out))
        else:
            tn = type(obj).__name__
            if tn != mo.kind:
                out.append({'what': 'type', 'where': name, 'expected': [mo.kind], 'observed': tn})
                continue
            if name in abs_names:
                worst = max(worst, _cmp_abs(obj, st, name, out))
            for cn, ck in vs.RECS[mo.kind]:
                c = getattr(obj, cn)
                if type(c).__name__ != ck:
                    out.append({'what': 'type', 'where': f'{name}.{cn}', 'expected': [ck], 'observed': type(c).__name__})
                    continue
                worst = max(worst, _cmp_array(c, st.view(mo.comps[cn]), f'{name}.{cn}', out))
            for en in mo.extra:
                worst = max(worst, _cmp_array(getattr(obj, en), st.view(mo.extra[en]), f'{name}.{en}', out))
    if R.tobytes() != Rref.tobytes() or type(R) is not np.ndarray:
        out.append({'what': 'plain_operand_modified', 'where': 'R', 'expected': Rref.tolist(), 'observed': np.asarray(R).tolist()})
    return out, worst


def _cmp_abs(obj, st, name, out):
    ref = st.maxnorm(name)
    if ref is None:
        return 0.0
    with np.errstate(all='ignore'):
        got = abs(obj)
    if not isinstance(got, float):
        out.append({'what': 'abs_type', 'where': name, 'expected': 'float', 'observed': type(got).__name__})
        return 0.0
    got = float(got)
    if ref != ref or got != got:
        if not (ref != ref and got != got):
            out.append({'what': 'abs', 'where': name, 'expected': ref, 'observed': got})
        return 0.0
    if ref == got:
        return 0.0
    tol = ABS_C * EPS * max(abs(ref), 1e-300)
    ratio = abs(got - ref) / tol if np.isfinite(ref) and np.isfinite(got) else np.inf
    if ratio > 1.0:
        out.append({'what': 'abs', 'where': name, 'expected': ref, 'observed': got})
    return float(ratio) if np.isfinite(ratio) else 0.0


def _target(op):
    return op[1] if op[1] in NAMES else op[2]


def probe(env, st, name):
    """fixed suffix: write a sentinel through `name` (item assignment) in both worlds"""
    s = PROBES[name]
    obj = env[name]
    mo = st.env[name]
    if isinstance(mo, vs.Arr):
        obj[(0,) * obj.ndim] = s
        st._write(mo, (0,) * st.view(mo).ndim, s)
    else:
        cn = vs.RECS[mo.kind][0][0]
        c = getattr(obj, cn)
        c[(0,) * c.ndim] = s
        mc = mo.comps[cn]
        st._write(mc, (0,) * st.view(mc).ndim, s)


# ------------------------------------------------------------------------------------------------
# one case = (config, op sequence)
# ------------------------------------------------------------------------------------------------
def run_case(cfg, ops):
    """Returns (status, mismatches, worst_ratio, model_state).  status in ok | both_reject | mismatch"""
    kind, shape, dtype, pattern = cfg
    data, sc = data_for(dtype)
    st = vs.build_initial(kind, tuple(shape), dtype, pattern, data, sc)
    env, R = impl_initial(kind, tuple(shape), dtype, pattern, data)
    Rref = R.copy()
    with np.errstate(all='ignore'):
        for i, op in enumerate(ops):
            m_rej = i_exc = None
            try:
                st.apply(tuple(op))
            except vs.Reject as e:
                m_rej = str(e)
            try:
                impl_apply(env, op, sc, R)
            except Exception as e:  # noqa: BLE001 - any exception of the data type counts as "rejected"
                i_exc = f'{type(e).__name__}: {e}'
            if m_rej is not None and i_exc is not None:
                return 'both_reject', [], 0.0, st
            if m_rej is not None or i_exc is not None:
                return (
                    'mismatch',
                    [{'what': 'exception', 'where': f'op {i}', 'expected': m_rej or 'no exception', 'observed': i_exc or 'no exception'}],
                    0.0,
                    st,
                )
        # abs() of the name the last operation bound or wrote (of every name for the empty sequence)
        mism, worst = compare(env, st, R, Rref, NAMES if not ops else (_target(ops[-1]),))
        if not mism:
            for name in NAMES:
                try:
                    probe(env, st, name)
                except Exception as e:  # noqa: BLE001
                    mism.append({'what': 'probe_exception', 'where': name, 'observed': f'{type(e).__name__}: {e}'})
                    break
            if not mism:
                mism, w2 = compare(env, st, R, Rref, ())
                for m in mism:
                    m['after'] = 'probe suffix a[0]=101; b[0]=102; c[0]=103'
                worst = max(worst, w2)
    return ('mismatch' if mism else 'ok'), mism, worst, st


# ------------------------------------------------------------------------------------------------
# alphabet (generated from the model's view of the names: kinds, dimensionality)
# ------------------------------------------------------------------------------------------------
def gen_ops(st, cfg, level):
    env = st.env
    full = level == 'full'
    dtype = cfg[2]
    is_arr = {n: isinstance(env[n], vs.Arr) for n in NAMES}
    multi = {n: (st.is_full_multi(env[n]) or not is_arr[n]) for n in NAMES}
    ops = []
    A4 = '+-*/' if full else '+'
    for x in READ:
        for y in READ:
            if is_arr[x] != is_arr[y]:
                continue
            for o in A4 if is_arr[x] else ('+-' if full else '+'):
                ops.append(('bin', 'c', x, o, y))
    for x in READ:
        if is_arr[x]:
            for o in '+-*/' if full else '*':
                ops.append(('binS', 'c', x, o, 'f'))
                ops.append(('rbinS', 'c', 'f', o, x))
            ops.append(('binS', 'c', x, '*', 'u'))
            ops.append(('rbinS', 'c', 'u', '*', x))
            ops.append(('binS', 'c', x, '+', 'o'))
            if full:
                for s in ('i', 'n', 'z'):
                    for o in '+*':
                        ops.append(('binS', 'c', x, o, s))
                        ops.append(('rbinS', 'c', s, o, x))
                for o in '+-*/':
                    ops.append(('binR', 'c', x, o))
                    ops.append(('rbinR', 'c', o, x))
                # the remaining python arithmetic operators with a single result
                ops.append(('binS', 'c', x, '**', 'i'))
                ops.append(('rbinS', 'c', 'f', '**', x))
                ops.append(('binS', 'c', x, '//', 'f'))
                ops.append(('bin', 'c', x, '%', 'b' if x == 'a' else 'a'))
            else:
                ops.append(('binR', 'c', x, '+'))
        else:
            ops.append(('rbinS', 'c', 'f', '*', x))
            ops.append(('rbinS', 'c', 'u', '*', x))
            if full:
                ops.append(('rbinS', 'c', 'n', '*', x))
    for x in NAMES:
        for y in READ:
            if is_arr[x] != is_arr[y]:
                continue
            for o in A4 if is_arr[x] else ('+-' if full else '+'):
                ops.append(('iop', x, o, y))
        if is_arr[x]:
            for o in '+-*/' if full else '*':
                ops.append(('iopS', x, o, 'f'))
            if full:
                for s in ('i', 'n', 'z'):
                    for o in '+*':
                        ops.append(('iopS', x, o, s))
                for o in '+*':
                    ops.append(('iopR', x, o))
                ops.append(('iopS', x, '**', 'i'))
    for x in READ:
        if is_arr[x]:
            fns = ['neg', 'pos', 'sin', 'exp', 'copycon', 'copy', 'deepcopy', 'view'] if full else ['neg', 'copycon', 'copy', 'view']
            k = env[x].kinds
            if len(k) == 1 and k[0] not in vs.MULTI and st.view(env[x]).ndim >= 2:
                fns.append('row')
        else:
            fns = ['copycon', 'deepcopy'] if full else ['copycon']
        for fn in fns:
            ops.append(('un', 'c', fn, x))
    if full:
        for x in READ:
            for y in READ:
                if is_arr[x] and is_arr[y]:
                    ops.append(('ufout', 'c', x, y))
    for x in NAMES:
        if is_arr[x]:
            for idx in ('first', 'last', 'all') if full else ('first', 'all'):
                ops.append(('set', x, idx, 'f'))
                if full and dtype == 'complex128' and idx == 'first':
                    ops.append(('set', x, idx, 'z'))
            for y in READ:
                if x != y and is_arr[y]:
                    ops.append(('setfrom', x, y))
    for x in READ:
        if multi[x]:
            for k in (0, 1):
                ops.append(('comp', 'c', x, k))
    for x in NAMES:
        if multi[x]:
            for k in (0, 1):
                for idx in ('first', 'all') if full else ('first',):
                    ops.append(('compset', x, k, idx, 'f'))
            for y in READ:
                if multi[y]:
                    for k, l in ((0, 0), (0, 1), (1, 0), (1, 1)) if full else ((0, 1),):
                        if not (x == y and k == l):
                            ops.append(('compfrom', x, k, y, l))
    return ops


def configs():
    out = []
    for kind in ARR_KINDS:
        for shape in SHAPES:
            for dtype in DTYPES:
                pats = ['indep', 'b_is_a', 'b_view_a']
                if kind in vs.MULTI:
                    pats.append('b_comp_a')
                elif len(shape) >= 2:
                    pats.append('b_row_a')
                for p in pats:
                    out.append((kind, shape, dtype, p))
    for kind in REC_KINDS:
        for shape in SHAPES:
            for dtype in DTYPES:
                for p in ('indep', 'b_is_a', 'b_comp_a'):
                    out.append((kind, shape, dtype, p))
    return out


# ------------------------------------------------------------------------------------------------
# exploration of one subtree (work unit): all sequences that start with `first` up to `depth`
# ------------------------------------------------------------------------------------------------
FAMILY = {'mesh': 'mesh', 'acceleration': 'mesh', 'imex_mesh': 'multi_component', 'comp2_mesh': 'multi_component', 'MeshDAE': 'multi_component', 'particles': 'particles', 'fields': 'fields'}


def _group_of(cfg, mism):
    """violations are grouped by (family of the data type, kind of mismatch); the simplest failing case represents it"""
    return common.canon([FAMILY[cfg[0]], mism[0]['what']])


def _simplicity(cfg, ops):
    """canonical order among failing cases of equal length: mesh before the derived types, float before complex, ..."""
    return (list(TYPES).index(cfg[0]), DTYPES.index(cfg[2]), len(cfg[1]), [3, 1, 2].index(cfg[1][0]), cfg[3], common.canon(ops))


def _sig_of(cfg, ops, mism):
    return {
        'part': 'opseq',
        'family': FAMILY[cfg[0]],
        'what': mism[0]['what'],
        'type': cfg[0],
        'shape': list(cfg[1]),
        'dtype': cfg[2],
        'pattern': cfg[3],
        'ops': [list(o) for o in ops],
    }


_CPU0 = {}


def explore_unit(unit):
    cfg, first, depth, level, t_cap, plan_id = unit
    cpu0 = _CPU0.setdefault(plan_id, time.process_time())  # CPU clock of this process when it first worked on this plan
    res = {'nodes': 0, 'ok': 0, 'both_reject': 0, 'mismatch': 0, 'alias': 0, 'worst': 0.0, 'viol': {}, 'nviol': {}, 'by_depth': {}, 'capped': False, 'sample': None}
    t_end = t_cap  # CPU seconds this worker process may spend in this plan (None: no cap)

    def rec(prefix):
        if t_end and time.process_time() - cpu0 > t_end:
            res['capped'] = True
            return
        status, mism, worst, st = run_case(cfg, prefix)
        res['nodes'] += 1
        res[status] += 1
        d = len(prefix)
        res['by_depth'][d] = res['by_depth'].get(d, 0) + 1
        res['worst'] = max(res['worst'], worst)
        if st.alias_ops:
            res['alias'] += 1
        if status == 'mismatch':
            key = _group_of(cfg, mism)
            cand = (len(prefix), _simplicity(cfg, prefix), cfg, [list(o) for o in prefix], mism)
            res['nviol'][key] = res['nviol'].get(key, 0) + 1
            if key not in res['viol'] or cand[:2] < res['viol'][key][:2]:
                res['viol'][key] = cand
            return
        nk = len({o[0] for o in prefix})
        if status == 'ok' and d == depth and st.alias_ops and (res['sample'] is None or nk > res['sample']['_kinds']):
            res['sample'] = {'_kinds': nk, 'config': [cfg[0], list(cfg[1]), cfg[2], cfg[3]], 'ops': [list(o) for o in prefix], 'final_values_a': common.jsonable(st.values('a'))}
        if status == 'ok' and d < depth:
            for op in gen_ops(st, cfg, level):
                rec(prefix + [op])

    rec([first] if first is not None else [])
    return res


def plan_units(cfgs, depth, level, t_cap=None, plan_id=0):
    """root node per config is evaluated here (serially); one unit per (config, first op)"""
    units = []
    for cfg in cfgs:
        data, sc = data_for(cfg[2])
        st = vs.build_initial(cfg[0], tuple(cfg[1]), cfg[2], cfg[3], data, sc)
        for op in gen_ops(st, cfg, level):
            units.append((cfg, op, depth, level, t_cap, plan_id))
    return units


def run_opseq(rep, tier):
    cfgs = configs()
    r = common.rng('c13')
    plans = []
    s3 = lambda c: c[1] == (3,)
    f3 = lambda c: c[1] == (3,) and c[2] == 'float64'
    trio = lambda c: f3(c) and (c[0], c[3]) in (('mesh', 'b_view_a'), ('imex_mesh', 'b_comp_a'), ('particles', 'b_is_a'))
    if tier == 'quick':
        cpu_cap = 45.0  # CPU seconds per worker and plan (load independent); a plan that hits it reports capped
        # the classes that carry code of their own; acceleration / comp2_mesh / MeshDAE only rename components (thorough: all)
        own = lambda c: f3(c) and c[0] in ('mesh', 'imex_mesh', 'particles', 'fields')
        plans.append(('depth<=2, full alphabet, mesh / imex_mesh / particles / fields, shape (3,) float64', [c for c in cfgs if own(c)], 2, 'full'))
        plans.append(('depth<=1, full alphabet, all other configurations', [c for c in cfgs if not own(c)], 1, 'full'))
        plans.append(('depth<=2, core alphabet, all other configurations', [c for c in cfgs if not own(c)], 2, 'core'))
        plans.append(('depth<=3, core alphabet, mesh b=a[:] / imex_mesh b=a.impl / particles b is a, (3,) float64', [c for c in cfgs if trio(c)], 3, 'core'))
    else:
        cpu_cap = 420.0
        plans.append(('depth<=2, full alphabet, all configurations', cfgs, 2, 'full'))
        plans.append(('depth<=3, core alphabet, all configurations', cfgs, 3, 'core'))
        plans.append(('depth<=3, full alphabet, mesh (3,) float64 with b aliasing a', [c for c in cfgs if f3(c) and c[0] == 'mesh' and c[3] != 'indep'], 3, 'full'))
        plans.append(
            (
                'depth<=4, core alphabet, mesh / imex_mesh b=a.impl / particles b is a, (3,) float64',
                [c for c in cfgs if f3(c) and (c[0] == 'mesh' or trio(c))],
                4,
                'core',
            )
        )
    tot = {'nodes': 0, 'ok': 0, 'both_reject': 0, 'mismatch': 0, 'alias': 0}
    worst = 0.0
    best = {}
    counts = {}
    bounds = []
    samples = []
    for label, cs, depth, level in plans:
        t0 = time.time()
        # the empty sequence (initial state) of every configuration
        for cfg in cs:
            status, mism, w, st = run_case(cfg, [])
            tot['nodes'] += 1
            tot[status] += 1
            if status == 'mismatch':
                best.setdefault(_group_of(cfg, mism), (0, _simplicity(cfg, []), cfg, [], mism))
                counts[_group_of(cfg, mism)] = counts.get(_group_of(cfg, mism), 0) + 1
        units = plan_units(cs, depth, level, cpu_cap, label)
        r.shuffle(units)
        n = {'nodes': 0, 'alias': 0, 'capped': False}
        bd = {}
        smp = None
        for res in common.pimap_unordered(explore_unit, units, chunksize=max(1, len(units) // 400)):
            for k in ('nodes', 'ok', 'both_reject', 'mismatch', 'alias'):
                tot[k] += res[k]
            n['nodes'] += res['nodes']
            n['alias'] += res['alias']
            n['capped'] |= res['capped']
            for d, v in res['by_depth'].items():
                bd[d] = bd.get(d, 0) + v
            worst = max(worst, res['worst'])
            for key, cand in res['viol'].items():
                if key not in best or cand[:2] < best[key][:2]:
                    best[key] = cand
            for key, n_ in res['nviol'].items():
                counts[key] = counts.get(key, 0) + n_
            if res['sample'] and (smp is None or (-res['sample']['_kinds'], common.canon(res['sample'])) < (-smp['_kinds'], common.canon(smp))):
                smp = res['sample']
        bounds.append(
            {
                'space': label,
                'configurations': len(cs),
                'depth': depth,
                'alphabet': level,
                'sequences': n['nodes'],
                'by_depth': {str(k): v for k, v in sorted(bd.items())},
                'with_aliasing': n['alias'],
                'capped': n['capped'],
                'wall_s': round(time.time() - t0, 1),
            }
        )
        if smp:
            samples.append({**{k: v for k, v in smp.items() if k != '_kinds'}, 'space': label})
    for key, (ln, _, cfg, ops, mism) in sorted(best.items(), key=lambda kv: kv[1][:2]):
        sig = _sig_of(cfg, ops, mism)
        rep.violation(sig, {'mismatches': mism[:4], 'failing_sequences_in_this_group': counts.get(key)}, {'part': 'opseq', 'cfg': list(cfg), 'ops': ops})
    return tot, worst, bounds, samples


# ------------------------------------------------------------------------------------------------
# norm axioms of abs()
# ------------------------------------------------------------------------------------------------
NORM_VALUES = {
    'float64': [0.0, 1.0, -2.5, 1e-160, -3e150, 0.1],
    'complex128': [0.0, 1.0, -2.5, 3 + 4j, -1j, 1e-160 + 1e-160j, 3e150 - 4e150j, 0.1 + 0.2j],
}
NORM_SCAL = [2.0, -0.5, 3.0, -1.0, 0.1]


def _mk_norm_obj(kind, dtype, vals):
    """object of data type `kind` with len(vals) entries (smallest layout that holds them)"""
    dt = np.dtype(dtype)
    T = TYPES[kind]
    n = len(vals)
    if kind in vs.RECS:
        o = T(((n // 2,), None, dt), val=0.0)
        names = [c for c, _ in vs.RECS[kind]]
        getattr(o, names[0])[:] = np.array(vals[: n // 2], dtype=dt)
        getattr(o, names[1])[:] = np.array(vals[n // 2 :], dtype=dt)
        return o
    if kind in vs.MULTI:
        o = T(((n // 2,), None, dt), val=0.0)
        o[:] = np.array(vals, dtype=dt).reshape(2, n // 2)
        return o
    o = T(((n,), None, dt), val=0.0)
    o[:] = np.array(vals, dtype=dt)
    return o


def _pyabs(v):
    return abs(complex(v))


def norm_unit(unit):
    kind, dtype, n = unit
    V = NORM_VALUES[dtype]
    res = {'evals': 0, 'worst': 0.0, 'viol': []}
    vecs = list(itertools.product(V, repeat=n))

    def bad(what, **kw):
        if what not in {v[0]['axiom'] for v in res['viol']}:
            res['viol'].append(({'part': 'norm', 'type': kind, 'axiom': what}, kw, {'part': 'norm', 'kind': kind, 'dtype': dtype, 'n': n, 'axiom': what, **{k: common.jsonable(v) for k, v in kw.items() if k in ('x', 'y', 's')}}))

    norms = {}
    with np.errstate(all='ignore'):
        for x in vecs:
            o = _mk_norm_obj(kind, dtype, x)
            got = abs(o)
            ref = max(_pyabs(v) for v in x)
            res['evals'] += 1
            if not isinstance(got, float):
                bad('type', x=x, observed=type(got).__name__)
                continue
            got = float(got)
            norms[x] = got
            tol = ABS_C * EPS * ref
            if abs(got - ref) > tol:
                bad('max_norm', x=x, expected=ref, observed=got)
            elif tol > 0:
                res['worst'] = max(res['worst'], abs(got - ref) / tol)
            if (got == 0.0) != all(v == 0 for v in x):
                bad('definiteness', x=x, observed=got)
            if got < 0:
                bad('nonnegative', x=x, observed=got)
        # homogeneity (scalars are python floats: the only scalar type every data type accepts from the left)
        for x in vecs:
            o = _mk_norm_obj(kind, dtype, x)
            for s in NORM_SCAL:
                res['evals'] += 1
                got = float(abs(s * o))
                ref = abs(s) * norms.get(x, float('nan'))
                # |s*x_i| is rounded once per entry (complex: product and hypot, a few ulp), underflow floor 5e-324
                tol = HOM_C * EPS * ref + 1e-320
                if not (abs(got - ref) <= tol):
                    bad('homogeneity', x=x, s=s, expected=ref, observed=got)
                else:
                    res['worst'] = max(res['worst'], abs(got - ref) / tol)
        # triangle inequality over all pairs
        objs = {x: _mk_norm_obj(kind, dtype, x) for x in vecs}
        for x in vecs:
            for y in vecs:
                res['evals'] += 1
                got = float(abs(objs[x] + objs[y]))
                bound = norms.get(x, 0.0) + norms.get(y, 0.0)
                if not (got <= bound * (1 + 4 * EPS) + 1e-320):
                    bad('triangle', x=x, y=y, expected=f'<= {bound}', observed=got)
    return res


def run_norm(rep, tier):
    units = []
    for kind in TYPES:
        if kind in vs.RECS and not vs.REC_HAS_ABS[kind]:
            continue
        for dtype in DTYPES:
            paired = kind in vs.RECS or kind in vs.MULTI  # two components: even number of entries
            sizes = [2] if tier == 'quick' else ([2, 4] if dtype == 'float64' else [2]) if paired else [2, 3]
            for n in sizes:
                units.append((kind, dtype, n))
    evals = 0
    worst = 0.0
    best = {}
    for res in common.pimap_unordered(norm_unit, units):
        evals += res['evals']
        worst = max(worst, res['worst'])
        for sig, det, rp in res['viol']:
            key = common.canon([FAMILY[sig['type']], sig['axiom']])
            cand = (common.canon(rp), sig, det, rp)
            if key not in best or cand[0] < best[key][0]:
                best[key] = cand
    for key, (_, sig, det, rp) in sorted(best.items()):
        rep.violation({**sig, 'family': FAMILY[sig['type']], 'dtype': rp['dtype'], 'n': rp['n']}, det, rp)
    return evals, worst, len(units)


# ------------------------------------------------------------------------------------------------
# =========================================================================================================
# part 3: component views of sliced multi-component meshes
# =========================================================================================================
VIEW_SLICES = {
    'whole': lambda nd: (slice(None),) * (nd + 1),
    'every_second': lambda nd: (slice(None),) * nd + (slice(None, None, 2),),
    'reversed': lambda nd: (slice(None),) * nd + (slice(None, None, -1),),
    'window': lambda nd: (slice(None),) * nd + (slice(1, 3),),
    'window_first_axis': lambda nd: (slice(None), slice(0, 2)) + (slice(None),) * (nd - 1),
}


def view_case(arg):
    """A mesh with components, a slice of it, a component of that slice: the component must be a writable view of the
    ORIGINAL buffer (writes through it change exactly the addressed entries of the original, later changes of the
    original show through it).  Oracle: plain numpy on `A.view(np.ndarray)[k][slice]`."""
    cls_name, shape, dtype, sname, order = arg
    T = {'imex_mesh': imex_mesh, 'comp2_mesh': comp2_mesh}[cls_name]
    out = []
    nd = len(shape)
    sl = VIEW_SLICES[sname](nd)
    A = T((tuple(shape), None, np.dtype(dtype)), val=0.0)
    raw = A.view(np.ndarray)
    raw[...] = (np.arange(raw.size, dtype=float).reshape(raw.shape) + 1) * (1 + (0.5j if np.dtype(dtype).kind == 'c' else 0))
    if order == 'F':
        # the same logical content in Fortran order (what a transposed solver array looks like)
        A = np.asfortranarray(raw).view(T)
        raw = A.view(np.ndarray)
    sig0 = {'part': 'views', 'type': cls_name, 'shape': list(shape), 'dtype': dtype, 'slice': sname, 'order': order}
    try:
        V = A[sl]
    except Exception as e:  # noqa: BLE001
        out.append(({**sig0, 'kind': 'slicing_raised'}, {'error': f'{type(e).__name__}: {e}'[:160]}))
        return out
    if not isinstance(V, T):
        return out  # the slice is no multi-component mesh any more: nothing to judge
    for k, cname in enumerate(T.components):
        ref = raw[(k,) + sl[1:]]
        if ref.size == 0:
            continue
        try:
            comp = getattr(V, cname)
        except Exception as e:  # noqa: BLE001
            out.append(({**sig0, 'kind': 'component_access_raised', 'component': cname}, {'error': f'{type(e).__name__}: {e}'[:160]}))
            continue
        c = np.asarray(comp)
        if c.shape != ref.shape or np.any(c != ref):
            out.append(({**sig0, 'kind': 'component_values', 'component': cname}, {'expected_shape': list(ref.shape), 'observed_shape': list(c.shape)}))
            continue
        before = raw.copy()
        comp[...] = -7.0
        want = before.copy()
        want[(k,) + sl[1:]] = -7.0
        if np.any(raw != want):
            out.append(({**sig0, 'kind': 'write_through_component_lost', 'component': cname}, {'entries_changed_in_original': int(np.sum(raw != before)), 'entries_expected_to_change': int(ref.size), 'shares_memory': bool(np.shares_memory(c, raw))}))
            raw[...] = before
            continue
        raw[...] = before + 100.0
        if np.any(np.asarray(comp) != raw[(k,) + sl[1:]]):
            out.append(({**sig0, 'kind': 'component_does_not_follow_original', 'component': cname}, {}))
        raw[...] = before
    return out


def view_cases(tier):
    shapes = [(4,), (3, 4)] if tier == 'quick' else [(4,), (5,), (3, 4), (2, 3, 4)]
    out = []
    for cls_name in ('imex_mesh', 'comp2_mesh'):
        for shape in shapes:
            for dtype in ('float64', 'complex128'):
                for sname in VIEW_SLICES:
                    if sname == 'window_first_axis' and len(shape) < 2:
                        continue
                    for order in ('C', 'F'):
                        out.append((cls_name, shape, dtype, sname, order))
    return out


# =========================================================================================================
# part 4: copy construction gives independent storage for EVERY array the object holds
# =========================================================================================================
def _arrays_of(obj, prefix=''):
    """(path, ndarray) for the object itself (if it is an array) and every array attribute, recursively"""
    out = []
    if isinstance(obj, np.ndarray):
        out.append((prefix or 'self', obj))
    d = getattr(obj, '__dict__', {})
    for name, val in sorted(d.items()):
        if isinstance(val, np.ndarray) or hasattr(val, '__dict__') and type(val).__module__.startswith('pySDC'):
            out += _arrays_of(val, f'{prefix}.{name}' if prefix else name)
    return out


def copy_case(arg):
    import copy as _copy

    kind, n, how = arg
    out = []
    if kind in ('particles', 'fields', 'acceleration'):
        T = {'particles': particles, 'fields': fields, 'acceleration': acceleration}[kind]
        a = T(((3, n), None, np.dtype('float64')))
        for _, arr in _arrays_of(a):
            arr[...] = np.arange(arr.size, dtype=float).reshape(arr.shape) + 1.5
    else:
        T = {'mesh': mesh, 'imex_mesh': imex_mesh, 'comp2_mesh': comp2_mesh}[kind]
        a = T(((n,), None, np.dtype('float64')), val=0.0)
        a.view(np.ndarray)[...] = np.arange(a.size, dtype=float).reshape(a.shape) + 1.5
    sig = {'part': 'copies', 'type': kind, 'how': how}
    try:
        b = {'constructor': lambda: T(a), 'copy.copy': lambda: _copy.copy(a), 'copy.deepcopy': lambda: _copy.deepcopy(a)}[how]()
    except Exception as e:  # noqa: BLE001
        out.append(({**sig, 'kind': 'copy_raised'}, {'error': f'{type(e).__name__}: {e}'[:160]}))
        return out
    A, B = dict(_arrays_of(a)), dict(_arrays_of(b))
    if sorted(A) != sorted(B):
        out.append(({**sig, 'kind': 'copy_has_other_attributes'}, {'original': sorted(A), 'copy': sorted(B)}))
        return out
    for path in sorted(A):
        if A[path].shape != B[path].shape or np.any(A[path] != B[path]):
            out.append(({**sig, 'kind': 'copy_values_differ', 'attribute': path}, {}))
            continue
        if how == 'copy.copy':
            continue  # a shallow copy may share
        before = A[path].copy()
        shares = bool(np.shares_memory(A[path], B[path]))
        B[path][...] = -3.25
        if shares or np.any(A[path] != before):
            out.append(({**sig, 'kind': 'copy_shares_storage', 'attribute': path}, {'shares_memory': shares, 'original_changed_by_writing_into_the_copy': bool(np.any(A[path] != before))}))
    return out


def cross_copy_case(arg):
    """copy construction across the mesh classes: Target(source) with a source of ANOTHER class is a copy too"""
    src, dst, n = arg
    classes = {'mesh': mesh, 'imex_mesh': imex_mesh, 'comp2_mesh': comp2_mesh, 'position': particles.position, 'velocity': particles.velocity, 'acceleration': acceleration}
    S_, T = classes[src], classes[dst]
    if src in ('position', 'velocity', 'acceleration'):
        a = S_(((3, n), None, np.dtype('float64')))
    elif src == 'mesh':
        a = S_(((2, n), None, np.dtype('float64')), val=0.0)  # the shape the two-component classes have underneath
    else:
        a = S_(((n,), None, np.dtype('float64')), val=0.0)
    raw = a.view(np.ndarray)
    raw[...] = np.arange(raw.size, dtype=float).reshape(raw.shape) + 1.5
    before = raw.copy()
    sig = {'part': 'copies', 'type': dst, 'how': f'constructor({src})'}
    try:
        b = T(a)
    except Exception as e:  # noqa: BLE001
        return [({**sig, 'kind': 'copy_raised'}, {'error': f'{type(e).__name__}: {e}'[:160]})]
    out = []
    if type(b) is not T:
        out.append(({**sig, 'kind': 'copy_has_other_type'}, {'observed': type(b).__name__}))
    braw = b.view(np.ndarray)
    if braw.shape != before.shape or np.any(braw != before):
        out.append(({**sig, 'kind': 'copy_values_differ'}, {}))
        return out
    shares = bool(np.shares_memory(raw, braw))
    braw[...] = -3.25
    if shares or np.any(raw != before):
        out.append(({**sig, 'kind': 'copy_shares_storage'}, {'shares_memory': shares, 'original_changed_by_writing_into_the_copy': bool(np.any(raw != before))}))
    return out


def run_copies(rep):
    fam = ('mesh', 'imex_mesh', 'comp2_mesh')
    pfam = ('position', 'velocity', 'acceleration')
    cross = [(a, b, n) for fam_ in (fam, pfam) for a in fam_ for b in fam_ if a != b for n in (1, 3)]
    for arg in cross:
        for sig, det in cross_copy_case(arg):
            rep.violation(sig, det, {'part': 'cross_copies', 'arg': list(arg)})
    cases = [(k, n, how) for k in ('mesh', 'imex_mesh', 'comp2_mesh', 'particles', 'fields', 'acceleration') for n in (1, 3) for how in ('constructor', 'copy.deepcopy', 'copy.copy')]
    for arg in cases:
        for sig, det in copy_case(arg):
            rep.violation(sig, det, {'part': 'copies', 'arg': list(arg)})
    return len(cases) + len(cross)


def run_views(rep, tier):
    cases = view_cases(tier)
    n = 0
    for arg, res in zip(cases, common.pmap(view_case, cases, chunksize=8)):
        n += 1
        for sig, det in res:
            rep.violation(sig, det, {'part': 'views', 'arg': [arg[0], list(arg[1]), arg[2], arg[3], arg[4]]})
    return n


def run(rep, tier):
    rep.assumptions += [
        'element values, dtype promotion and broadcasting of the reference interpreter are plain numpy on plain ndarrays (numpy is trusted; the subclass plumbing of the data types is under test)',
        'abs() of `fields` is not judged: the class defines none; mixed-type arithmetic accepts either operand type as result type; the m/q arrays of particles are compared by value only (their sharing is never written)',
        'scalars multiplying particles/fields are python floats / numpy.float64 only (the classes document exactly that)',
    ]
    tot, worst, bounds, samples = run_opseq(rep, tier)
    nev, nworst, nunits = run_norm(rep, tier)
    runs = _c13_runs.run_level(rep, tier)
    nviews = run_views(rep, tier)
    rep.coverage['component_view_cases'] = nviews
    rep.coverage['copy_cases'] = run_copies(rep)
    rep.coverage.update(
        {
            'evaluations': tot['nodes'] + nev + runs['runs'],
            'distinct_nontrivial': tot['alias'] + runs['nontrivial'],
            'rule': 'part 1: every operation sequence up to the depth bound over the generated alphabet per (type, shape, dtype, aliasing pattern); '
            'a sequence is non-trivial iff at least one of its operations touched a buffer that more than one name referred to at that moment (model refcount > 1); '
            'sequences are distinct by construction (enumeration without repetition). part 2: every run configuration of the lattice; non-trivial iff the run '
            'logged at least two solutions or ran at least two steps after the first logged value',
            'samples': samples + runs['samples'],
            'exhaustive': not any(b['capped'] for b in bounds) and not runs['capped'],
            'opseq_outcomes': tot,
            'opseq_bounds': bounds,
            'norm_axiom_evaluations': nev,
            'norm_units': nunits,
            'run_level': runs['summary'],
            'worst_headroom_ratio': max(worst, nworst),
            'tolerances': {'values': f'{TOL_C}*eps*|ref|', 'abs': f'{ABS_C}*eps*|ref|', 'run_level': 'bitwise'},
            'dimensions': {'types': list(TYPES), 'shapes': [list(s) for s in SHAPES], 'dtypes': list(DTYPES)},
        }
    )


def replay(rep, case):
    part = case.get('part')
    if part == 'opseq':
        cfg = (case['cfg'][0], tuple(case['cfg'][1]), case['cfg'][2], case['cfg'][3])
        ops = [tuple(o) for o in case['ops']]
        status, mism, worst, st = run_case(cfg, ops)
        if status == 'mismatch':
            rep.violation(_sig_of(cfg, ops, mism), {'mismatches': mism[:4]}, case)
    elif part == 'norm':
        res = norm_unit((case['kind'], case['dtype'], case['n']))
        for sig, det, rp in res['viol']:
            if sig['axiom'] == case['axiom']:
                rep.violation({**sig, 'family': FAMILY[sig['type']], 'dtype': rp['dtype'], 'n': rp['n']}, det, rp)
                break
    elif part == 'copies':
        a = case['arg']
        for sig, det in copy_case((a[0], int(a[1]), a[2])):
            rep.violation(sig, det, case)
    elif part == 'cross_copies':
        a = case['arg']
        for sig, det in cross_copy_case((a[0], a[1], int(a[2]))):
            rep.violation(sig, det, case)
    elif part == 'views':
        a = case['arg']
        for sig, det in view_case((a[0], tuple(a[1]), a[2], a[3], a[4])):
            rep.violation(sig, det, case)
    else:
        _c13_runs.replay(rep, case)
