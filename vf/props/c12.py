"""C12 — every shipped problem class honours the solver contract the sweepers rely on (engine E2).

Bounded exhaustive enumeration: every problem class importable here x every constructor variant of the recipe table
(vf/env/c12_recipes.py) x states x right-hand sides x times x factors; on every member the oracle

  (a) residual   u - factor * f_impl(u, t) - rhs   (f_impl = what the class's own eval_f returns as implicit part)
                 within the class's configured solver tolerance (rounding level for direct solves); boundary / constraint
                 rows of the spectral tau classes satisfy their constraint instead,
  (b) factor = 0 returns rhs,
  (c) the arguments of eval_f / solve_system(_1/_2) / apply_mass_matrix / u_exact are bitwise unchanged,
  (d) split siblings: sum of the pieces == the unsplit sibling's eval_f on the same state,
  (e) closed-form u_exact: u_exact(0) == configured initial condition, d/dt u_exact == eval_f along it
      (4th-order central difference, two step sizes, truncation estimated from their difference),
  (f) a default-constructed class has a solver tolerance that is a tolerance (residual small against the solution),
  (g) a Newton solver that reports failure is counted, not judged -- except on a case where plain Newton on the class's
      own eval_f (difference Jacobian, same guess) converges with strictly decreasing residuals within 12 iterations.

Outcome classes that are counted and not judged: reported failure (ProblemError / ConvergenceError / logged warning /
scipy MatrixRankWarning), other exceptions (singular factorisations), documented stubs ("Just return the exact solution"),
singular systems (factor = 0 in the first-order spectral formulations, 1 - factor*lambda = 0), cases that straddle a
discontinuity of the right-hand side, Newton misses where the reference Newton fails as well (hard cases).

Nothing is sampled.  VERIF_SEED only chooses which members of two fixed pattern pools serve as "generic data" (one smooth
member for the state perturbation, one member with grid-scale content for the right-hand side) and permutes the order of
equally expensive work items.  For Newton-based classes the lattice is an alphabet, not a proof over all states (said in
the evidence).
"""

import inspect
import logging
import time
import traceback
import warnings

import numpy as np

from vf import common
from vf.env import c12_recipes as R

import pySDC  # noqa: F401  (imported at module top so that pool workers inherit it)
from pySDC.core.errors import ProblemError, ConvergenceError, ParameterError

LEVEL = 'exploration'

EPS = float(np.finfo(float).eps)
FACTORS = (0.0, 1e-6, 1e-3, 0.1, 1.0, 1e2)
TIMES = (0.0, 0.1)
# call histories on ONE instance: a solve with factor f followed by a solve with a factor close to, but not equal to, f
# (a step-size controller that has settled produces exactly such sequences); the second solve is judged like any other
TWINS = (('x(1+2.5e-6)', lambda f: f * (1 + 2.5e-6)), ('x(1-3e-7)', lambda f: f * (1 - 3e-7)), ('+5e-9', lambda f: f + 5e-9), ('x(1+4eps)', lambda f: f * (1 + 2.0**-50)))
C_ROUND = 1e3  # rounding floor: C_ROUND * eps * (magnitude of the terms of the residual)
C_CONF = 10.0  # a solver may stop anywhere below its configured tolerance: err <= C_CONF * configured is accepted
C_KRY = 20.0  # scipy cg/gmres test the recurrence residual, not the true one
COND_SINGULAR = 1e13
NPAT = 8
REPORTED = (ProblemError, ConvergenceError)
NOT_AVAILABLE = (AssertionError, NotImplementedError, ProblemError, ParameterError)


# ======================================================================================================
# small helpers: flatten / snapshot / patterns
# ======================================================================================================
def is_particles(x):
    return hasattr(x, 'pos') and hasattr(x, 'vel')


def flat(x):
    if is_particles(x):
        return np.concatenate([np.asarray(x.pos).ravel(), np.asarray(x.vel).ravel()])
    if hasattr(x, 'elec') and hasattr(x, 'magn'):
        return np.concatenate([np.asarray(x.elec).ravel(), np.asarray(x.magn).ravel()])
    return np.asarray(x).ravel()


def snap(x):
    """bytes of everything an argument owns (for bitwise before/after comparison)"""
    if x is None:
        return b''
    if is_particles(x):
        return b'|'.join(np.ascontiguousarray(np.asarray(a)).tobytes() for a in (x.pos, x.vel, x.q, x.m))
    if hasattr(x, 'elec'):
        return np.asarray(x.elec).tobytes() + np.asarray(x.magn).tobytes()
    a = np.asarray(x)
    return np.ascontiguousarray(a).tobytes() + str(a.shape).encode() + str(a.dtype).encode()


def clone(x):
    if is_particles(x):
        return type(x)(x)
    return x.copy()


def pattern(pid, shape, cplx, nyquist_free=False):
    """Fixed pools of deterministic arrays with values in (0.05, 0.95), built from per-axis coordinates of the array:
    ids 0..3 smooth (low Fourier modes per axis; used as state perturbations), ids 4..7 = smooth + a grid-scale
    (alternating, Nyquist) component (used as right-hand sides).  `nyquist_free` drops the alternating component (for the
    classes built on SpectralHelper with an FFT axis, whose helper documents that the Nyquist mode of real data must be
    zero)."""
    shape = tuple(int(n) for n in shape)
    idx = np.indices(shape).astype(float)
    xs = [(idx[a] + 0.5) / shape[a] for a in range(len(shape))]
    alt = (-1.0) ** sum(idx[a] for a in range(len(shape)))
    na = len(shape)

    def S(m, ph):
        return sum(np.sin(2 * np.pi * min(m, max(1, (shape[a] - 1) // 2 - 1)) * xs[a] + ph + 0.4 * a) for a in range(na)) / na

    lin = sum(xs) / na
    smooth = [
        0.3 + 0.2 * S(1, 0.0),
        0.5 + 0.3 * S(2, 1.1),
        0.1 + 0.8 * lin,
        0.5 + 0.25 * S(3, 0.7),
    ]
    osc = [
        0.4 + 0.05 * S(1, 0.3) + 0.1 * alt,
        0.45 + 0.2 * S(1, 1.5) + 0.1 * alt * (0.5 + lin),
        0.5 + 0.2 * S(2, 0.3) - 0.08 * alt,
        0.35 + 0.3 * lin + 0.12 * alt * S(1, 0.9),
    ]
    if nyquist_free:
        smooth[2] = 0.45 + 0.3 * S(2, 2.0)  # a ramp on a periodic axis has grid-scale content
    pid = pid % NPAT
    if pid < 4:
        p = smooth[pid]
    elif nyquist_free:
        p = 0.5 * (smooth[pid - 4] + smooth[(pid - 3) % 4])
    else:
        p = osc[pid - 4]
    if cplx:
        p = p * (1.0 + 0.5j) - 0.2j * smooth[(pid + 1) % 4]
    return p


def pick_patterns():
    """VERIF_SEED picks one smooth member (state perturbation) and one oscillating member (right-hand side)."""
    r = common.rng('c12-patterns')
    return r.randrange(0, 4), r.randrange(4, 8)


def with_values(template, arr):
    w = clone(template)
    if is_particles(w):
        n = np.asarray(w.pos).size
        a = np.asarray(arr).ravel()
        w.pos[...] = a[:n].reshape(np.asarray(w.pos).shape)
        w.vel[...] = a[n:].reshape(np.asarray(w.vel).shape)
    else:
        w[...] = np.asarray(arr).reshape(np.asarray(w).shape)
    return w


class LogCapture(logging.Handler):
    def __init__(self):
        super().__init__(level=logging.WARNING)
        self.msgs = []

    def emit(self, record):
        try:
            self.msgs.append(record.getMessage())
        except Exception:  # noqa: BLE001
            self.msgs.append(str(record.msg))


class capture_logs:
    """Re-enable logging (the framework disables it globally) for the 'problem' logger only, collect warnings."""

    def __enter__(self):
        self.h = LogCapture()
        self.lg = logging.getLogger('problem')
        self.old = (self.lg.level, self.lg.propagate, logging.root.manager.disable)
        logging.disable(logging.NOTSET)
        self.lg.setLevel(logging.WARNING)
        self.lg.propagate = False
        self.lg.addHandler(self.h)
        return self.h

    def __exit__(self, *a):
        self.lg.removeHandler(self.h)
        self.lg.setLevel(self.old[0])
        self.lg.propagate = self.old[1]
        logging.disable(self.old[2])
        return False


# ======================================================================================================
# class handling
# ======================================================================================================
_CLASSES = None


def classes():
    global _CLASSES
    if _CLASSES is None:
        with warnings.catch_warnings():
            warnings.simplefilter('ignore')
            _CLASSES = R.discover()
    return _CLASSES


def copy_params(p):
    return {k: (v.copy() if isinstance(v, np.ndarray) else v) for k, v in p.items()}


def make(cname, params):
    cls = classes()[0][cname]
    with warnings.catch_warnings():
        warnings.simplefilter('ignore')
        return cls(**copy_params(params))


def solve_methods(prob):
    """[(method name, part of eval_f that it inverts)] derived from the class's dtype_f."""
    comps = getattr(prob.dtype_f, 'components', None)
    own = {n for kl in type(prob).__mro__ if kl.__name__ not in ('Problem', 'object') for n in vars(kl)}
    if comps == ['impl', 'expl']:
        return [('solve_system', 'impl')] if 'solve_system' in own else []
    if comps == ['comp1', 'comp2']:
        return [(m, c) for m, c in (('solve_system_1', 'comp1'), ('solve_system_2', 'comp2')) if m in own]
    if 'solve_system' in own:
        return [('solve_system', None)]
    return []


def is_stub(prob, method):
    doc = getattr(type(prob), method).__doc__ or ''
    return 'just return the exact solution' in doc.lower()


def fpart(f, part):
    return flat(f) if part is None else flat(getattr(f, part))


def total_rhs(prob, u, t):
    """du/dt as a flat vector matching flat(u), from the class's eval_f."""
    f = prob.eval_f(u, t)
    if is_particles(u):
        if hasattr(f, 'elec'):
            acc = prob.build_f(f, u, t)
        else:
            acc = f
        return np.concatenate([np.asarray(u.vel).ravel(), np.asarray(acc).ravel()])
    comps = getattr(prob.dtype_f, 'components', None)
    if comps:
        return sum(flat(getattr(f, c)) for c in comps)
    return flat(f)


def initial_state(prob):
    if callable(getattr(type(prob), 'u_init', None)) and not isinstance(getattr(type(prob), 'u_init'), property):
        return prob.u_init()  # harmonic_oscillator / penningtrap: u_init() is the documented initial condition
    if hasattr(prob, 'u_exact'):
        try:
            return prob.u_exact(0.0)
        except TypeError:
            return prob.u_exact(t=0.0)
    return prob.u_init


def arr_shape(u):
    return flat(u).shape if is_particles(u) else np.asarray(u).shape


def needs_nyquist_free(prob):
    sp = getattr(prob, 'spectral', None)
    return sp is not None and any(type(ax).__name__ == 'FFTHelper' for ax in sp.axes)


def reference_integration(prob):
    try:
        src = inspect.getsource(type(prob).u_exact)
    except (OSError, TypeError):
        return False
    return 'generate_scipy_reference_solution' in src or 'solve_ivp' in src


def build_states(prob, pid_state, t1=0.1, skip_reference=False):
    """[(name, state)]: u_exact(0), u_exact(t1) when the class offers it, u_exact(0)+0.1*pattern, pattern."""
    has_exact = hasattr(prob, 'u_exact')
    u0 = initial_state(prob)
    cplx = np.iscomplexobj(flat(u0))
    pat = pattern(pid_state, arr_shape(u0), cplx, needs_nyquist_free(prob)).ravel()
    out = []
    info = {}
    if has_exact:
        out.append(('u_exact(0)', clone(u0)))
        try:
            if skip_reference and reference_integration(prob):
                info['u_exact(t1)'] = 'quick tier: u_exact(t>0) is a scipy reference integration, state used in the thorough tier only'
            else:
                out.append((f'u_exact({t1})', clone(prob.u_exact(t1))))
        except NOT_AVAILABLE as e:
            info['u_exact(t1)'] = f'not available: {type(e).__name__}'
        except Exception as e:  # noqa: BLE001  (outside this property: recorded, not judged)
            info['u_exact(t1)'] = f'OBSERVATION: u_exact({t1}) raises {type(e).__name__}: {str(e)[:120]}'
        out.append(('u_exact(0)+0.1*pattern', with_values(u0, flat(u0) + 0.1 * pat)))
    else:
        info['u_exact'] = 'class has no u_exact'
    out.append(('pattern', with_values(u0, pat)))
    return out, info


def rhs_pattern(prob, template, pid):
    return pattern(pid, arr_shape(template), np.iscomplexobj(flat(template)), needs_nyquist_free(prob)).ravel()


# ======================================================================================================
# oracle pieces
# ======================================================================================================
def fd_jacobian(prob, part, u, t, linear):
    """Jacobian of v -> part(eval_f(v, t)) by differences of the class's own eval_f (basis enumeration; exact for
    affine parts where the step is 1)."""
    v0 = flat(u)
    n = v0.size
    base = v0 * 0 if linear else v0
    f0 = fpart(prob.eval_f(with_values(u, base), t), part).copy()
    J = np.zeros((f0.size, n), dtype=np.result_type(f0.dtype, v0.dtype))
    for j in range(n):
        h = 1.0 if linear else 1e-6 * max(1.0, abs(base[j]))
        w = base.copy()
        w[j] += h
        J[:, j] = (fpart(prob.eval_f(with_values(u, w), t), part) - f0) / h
    return J, f0


def fd_total_scale(prob, u, t):
    """max_i sum_j |d(total rhs)_i/du_j| |u_j| by differences of eval_f: magnitude of the terms summed inside f"""
    v0 = flat(u)
    f0 = total_rhs(prob, with_values(u, v0), t)
    acc = np.zeros(f0.size)
    for j in range(v0.size):
        h = 1e-6 * max(1.0, abs(v0[j]))
        w = v0.copy()
        w[j] += h
        acc += np.abs((total_rhs(prob, with_values(u, w), t) - f0) / h) * abs(v0[j])
    return float(np.max(acc))


class SpectralMask:
    """Rows of the tau / boundary-bordered systems of GenericSpectralLinear subclasses (read from the object):
    the residual lives in the space of  M @ (.)  (coefficient space, after the class's basis change), the rows listed in
    BC_zero_index are replaced by boundary conditions, rows of algebraic components carry the constraint L @ u = 0."""

    def __init__(self, prob):
        self.p = prob
        self.M = prob.M.toarray() if hasattr(prob.M, 'toarray') else np.asarray(prob.M)
        self.L = prob.L.toarray()
        self.bc_rows = np.asarray(prob.spectral.BC_zero_index).astype(int)
        n = self.M.shape[0]
        self.eq = np.ones(n, bool)
        self.eq[self.bc_rows] = False
        ncomp = len(prob.components)
        self.diff = np.repeat(np.asarray(prob.diff_mask, bool), n // ncomp)
        self._cond = {}

    def system_singular(self, factor):
        if factor not in self._cond:
            A = self.p.spectral.put_BCs_in_matrix(self.p.M + factor * self.p.L).toarray()
            self._cond[factor] = float(np.linalg.cond(A))
        return self._cond[factor] > COND_SINGULAR

    def hat(self, x):
        p = self.p
        if p.spectral_space:
            return np.asarray(x).ravel()
        return np.asarray(p.transform(x)).ravel()


def independent_bc_defect(prob, u):
    """Evaluate every boundary condition the object lists (spectral.full_BCs) on the *grid values* of u with an own
    Chebyshev interpolant (numpy.polynomial), independent of the class's BC rows.  Returns max |got - want| and scale."""
    from numpy.polynomial import chebyshev as C

    sp = prob.spectral
    phys = np.asarray(prob.itransform(u).real) if prob.spectral_space else np.asarray(u)
    grids = [np.asarray(ax.get_1dgrid()) for ax in sp.axes]
    worst, scale, n = 0.0, 1.0, 0
    for bc in sp.full_BCs:
        ax = bc['axis']
        if type(sp.axes[ax]).__name__ not in ('ChebychevHelper', 'UltrasphericalHelper'):
            continue
        comp = phys[prob.index(bc['component'])]
        x = grids[ax]
        V = C.chebvander(x, len(x) - 1)
        vals = np.moveaxis(comp, ax, 0) if comp.ndim > 1 else comp
        coef = np.linalg.solve(V, vals)
        if bc['kind'] == 'Dirichlet':
            got = C.chebval(bc['x'], coef)
        elif bc['kind'] == 'integral':
            k = np.arange(len(x))
            w = np.where(k % 2 == 0, 2.0 / (1.0 - k.astype(float) ** 2 + (k % 2)), 0.0)
            got = np.tensordot(w, coef, axes=(0, 0))
        else:
            continue
        want = np.asarray(bc['v'], dtype=float)
        worst = max(worst, float(np.max(np.abs(np.asarray(got) - want))))
        scale = max(scale, float(np.max(np.abs(coef))) * len(x))
        n += 1
    return worst, scale, n


def ref_newton(prob, part, u_guess, rhs, factor, t, tol, maxit=12):
    """Plain Newton on G(v) = v - factor*f_part(v,t) - rhs with a difference Jacobian of the class's own eval_f, from the
    class's own initial guess.  Only used to decide whether a silent miss of a Newton class is *judged*: it is judged iff
    this reference converges with strictly decreasing residuals within `maxit` iterations."""
    v = flat(u_guess).astype(complex if np.iscomplexobj(flat(u_guess)) else float).copy()
    r = flat(rhs)
    hist = []
    try:
        for _ in range(maxit + 1):
            g = v - factor * fpart(prob.eval_f(with_values(u_guess, v), t), part) - r
            res = float(np.max(np.abs(g)))
            hist.append(res)
            if not np.isfinite(res):
                return False, hist
            if res <= tol:
                return True, hist
            if len(hist) >= 2 and not hist[-1] < hist[-2]:
                return False, hist
            J, _ = fd_jacobian(prob, part, with_values(u_guess, v), t, linear=False)
            dg = np.eye(v.size) - factor * J
            v = v - np.linalg.solve(dg, g)
    except Exception:  # noqa: BLE001
        return False, hist
    return False, hist


def solver_spec(cname, prob, method):
    s = R.SOLVER.get(cname)
    if s is None:
        return {'kind': 'direct'}
    if isinstance(s, dict):
        s = s[method]
    return s(prob)


# ======================================================================================================
# one (class, variant): all cases
# ======================================================================================================
class Acc:
    """accumulates outcomes / violations of one worker item"""

    def __init__(self, cname, label):
        self.cname, self.label = cname, label
        self.counts = {}
        self.worst = 0.0
        self.worst_case = None
        self.worst_by_kind = {}
        self.viol = []
        self.evals = 0
        self.nontrivial = 0
        self.samples = []
        self.info = {}
        self.raised_other = {}

    def count(self, k, n=1):
        self.counts[k] = self.counts.get(k, 0) + n

    def ratio(self, r, case, kind='other'):
        if not np.isfinite(r):
            return
        k = 'krylov' if kind == 'krylov' else 'direct_newton_closed_form'
        if r > self.worst_by_kind.get(k, 0.0):
            self.worst_by_kind[k] = float(r)
        if r > self.worst:
            self.worst, self.worst_case = float(r), case

    def violation(self, check, what, detail, case):
        self.viol.append(({'class': self.cname, 'check': check, 'what': what}, detail, case))
        self.count('VIOLATION:' + check)

    def out(self):
        return self.__dict__


def call_guarded(acc, fn, *args):
    """call a problem method; classify how it ended. returns (status, value, messages)"""
    with capture_logs() as h, warnings.catch_warnings(record=True) as wlist:
        warnings.simplefilter('always')
        try:
            with np.errstate(all='ignore'):
                val = fn(*args)
            return 'returned', val, h.msgs + [f'{w.category.__name__}: {w.message}' for w in wlist]
        except REPORTED as e:
            return 'raised', e, h.msgs
        except Exception as e:  # noqa: BLE001
            k = type(e).__name__
            acc.raised_other[k] = acc.raised_other.get(k, 0) + 1
            return 'raised_other', e, h.msgs


def reports_failure(msgs):
    txt = ' '.join(msgs).lower()
    return any(s in txt for s in ('did not converge', 'not converged', 'got nan', 'nan after', 'exactly singular', 'matrixrankwarning', 'ill-conditioned'))


def check_purity(acc, method, names, args, before, case):
    for nm, a, b in zip(names, args, before):
        if a is None:
            continue
        if snap(a) != b:
            acc.violation(
                'purity',
                f'{method} modifies its argument {nm}',
                {'expected': f'{nm} bitwise unchanged by {method}', 'observed': 'bytes differ after the call', 'case': case},
                dict(case, kind='purity', method=method, arg=nm),
            )
            return False
    acc.count('purity_ok:' + method)
    return True


def residual_check(acc, cname, prob, method, part, spec, mask, u, rhs, factor, t, guess, case, msgs, Jcache):
    """(a)/(b): judge one returned solution. Returns nothing; records in acc."""
    linear = cname in R.LINEAR_IMPL or (cname, method) in R.LINEAR_PART
    uf, rf = flat(u), flat(rhs)
    if not np.all(np.isfinite(uf)):
        if reports_failure(msgs):
            acc.count('reported_failure(warning)')
            return
        if factor == 0.0 or linear:
            acc.violation(
                'factor0' if factor == 0.0 else 'residual',
                f'{method} returns non-finite values without reporting',
                {'expected': 'finite u with u - factor*f(u) = rhs', 'observed': repr(uf[:4]), 'factor': factor, 'case': case},
                case,
            )
        else:
            ok, hist = ref_newton(prob, part, guess, rhs, factor, t, 10 * spec.get('atol', 1e-10))
            if ok:
                acc.violation(
                    'residual',
                    f'{method} returns non-finite values without reporting',
                    {'expected': 'finite solution (a plain Newton iteration on eval_f from the same guess converges)', 'observed': repr(uf[:4]), 'reference_newton_residuals': hist, 'case': case},
                    case,
                )
            else:
                acc.count('hard_case_unjudged(nonfinite, reference Newton fails too)')
        return

    # stateful classes: eval_f right after the solve on the same instance (that is the sweeper's order of calls)
    st, f, _ = call_guarded(acc, prob.eval_f, u, t)
    if st != 'returned':
        acc.count('eval_f_raised_on_result')
        return
    fi = fpart(f, part)
    if factor == 0.0:
        r = uf - rf
    else:
        r = uf - factor * fi - rf
    extra = {}
    if mask is not None:
        r_all = mask.M @ (mask.hat(u) - factor * mask.hat(_embed(prob, f, part)) - mask.hat(rhs)) if factor != 0.0 else mask.M @ (mask.hat(u) - mask.hat(rhs))
        r = r_all[mask.eq & mask.diff]
        uh = mask.hat(u)
        cons = (mask.L @ uh)[mask.eq & ~mask.diff]
        extra['constraint'] = float(np.max(np.abs(cons))) if cons.size else 0.0
        extra['constraint_scale'] = float(np.max(np.abs(mask.L) @ np.abs(uh))) if cons.size else 1.0
        bcd, bcs, nbc = independent_bc_defect(prob, u)
        extra['bc'] = bcd
        extra['bc_scale'] = bcs
        extra['nbc'] = nbc
    if not np.all(np.isfinite(r)):
        acc.count('residual_not_finite(f(u) overflows)')
        return
    if mask is not None and mask.system_singular(factor):
        acc.count('singular_system_unjudged(first-order formulation: algebraic rows vanish)')
        return

    # ---- tolerance ---------------------------------------------------------------------------------
    kind = spec['kind']
    if kind == 'krylov' and guess is not None:
        g_ = float(np.max(np.abs(flat(guess))))
        if g_ > 1e8 * max(float(np.max(np.abs(uf))), float(np.max(np.abs(rf))), 1e-300):
            # an initial guess eight orders of magnitude above solution and right-hand side (a reference solution that blew
            # up): the attainable residual of an iterative solver is eps * |A| * |guess|, nothing to judge
            acc.count('initial_guess_out_of_scale_unjudged(krylov)')
            return
    scale_lo = float(np.max(np.abs(uf)) + abs(factor) * np.max(np.abs(fi)) + np.max(np.abs(rf)))
    err_inf = float(np.max(np.abs(r))) if r.size else 0.0
    err_2 = float(np.linalg.norm(r))
    n = uf.size

    def tol_for(scale):
        if kind == 'direct':
            return C_ROUND * EPS * scale, err_inf
        if kind == 'krylov':
            b = float(np.linalg.norm(mask.M @ mask.hat(rhs))) if mask is not None else float(np.linalg.norm(rf))
            # an iterative solver carries the rounding of its initial guess along (the recursively updated residual does not
            # see it): eps * |guess| is part of the attainable accuracy
            g = float(np.max(np.abs(flat(guess)))) if guess is not None else 0.0
            return C_KRY * spec['rtol'] * b + C_ROUND * EPS * max(scale, g) * np.sqrt(n), err_2
        if kind == 'newton':
            return C_CONF * spec['atol'] + C_ROUND * EPS * scale, err_inf
        if kind == 'newton_rel':
            return C_CONF * spec['atol'] * float(np.max(np.abs(uf))) + C_ROUND * EPS * scale, err_inf
        raise ValueError(kind)

    tol, err = tol_for(scale_lo)
    if err > 0.1 * tol and factor != 0.0:
        # proper magnitude of the terms inside f: |J| |u| from a difference Jacobian of eval_f (basis enumeration)
        scale = scale_lo + abs(factor) * _term_scale(cname, prob, part, u, t, linear, Jcache)
        if mask is not None:
            scale *= float(np.max(np.sum(np.abs(mask.M), axis=1)))
        tol, err = tol_for(scale)
    ratio = err / tol if tol > 0 else (0.0 if err == 0 else np.inf)
    c2 = dict(case, err=err, tol=tol)

    ok = ratio <= 1.0
    if ok and reports_failure(msgs):
        acc.count('reported_failure(warning)')
        return
    if ok and mask is not None:
        # constraint rows and boundary rows instead satisfy their constraint
        sys_scale = float(np.max(np.abs(mask.M) @ np.abs(mask.hat(u)))) + abs(factor) * extra['constraint_scale'] + float(np.max(np.abs(mask.M @ mask.hat(rhs))))
        rowscale = max(abs(factor), 1e-300)  # the algebraic rows enter the solved system as factor * (L u) = 0
        ctol = ((C_KRY * spec['rtol'] * float(np.linalg.norm(mask.M @ mask.hat(rhs))) if kind == 'krylov' else 0.0) + C_ROUND * EPS * sys_scale * np.sqrt(n)) / rowscale
        btol = (C_KRY * spec['rtol'] if kind == 'krylov' else 0.0) * max(1.0, extra['bc_scale']) + C_ROUND * EPS * extra['bc_scale'] * n
        if (extra['constraint'] > ctol or extra['bc'] > btol) and reports_failure(msgs):
            acc.count('reported_failure(warning)')
            return
        if extra['constraint'] > ctol:
            d = {'expected': f'|L u| <= {ctol:.3g} on the algebraic rows', 'observed': extra['constraint'], 'solver': dict(spec), 'case': case}
            if kind == 'krylov':  # same cause as a missed residual: the iteration stopped early, nothing said
                acc.violation('residual', f'{method}: iterative linear solver result misses the configured rtol and nothing is reported', d, case)
            else:
                acc.violation('constraint_rows', f'{method}: algebraic rows violate their constraint', d, case)
            return
        if extra['bc'] > btol:
            d = {'expected': f'|BC(u) - v| <= {btol:.3g}', 'observed': extra['bc'], 'solver': dict(spec), 'case': case}
            if kind == 'krylov':
                acc.violation('residual', f'{method}: iterative linear solver result misses the configured rtol and nothing is reported', d, case)
            else:
                acc.violation('boundary_rows', f'{method}: boundary condition not satisfied by the solution', d, case)
            return
    if ok:
        acc.ratio(ratio, c2, kind)
        if mask is not None:
            acc.ratio(extra['constraint'] / ctol, dict(c2, row='constraint'), kind)
            acc.ratio(extra['bc'] / btol, dict(c2, row='boundary'), kind)
            acc.count('constraint_rows_checked')
            acc.count('boundary_conditions_checked(independent interpolant)', extra['nbc'])
        acc.count('ok' if factor != 0.0 else 'ok(factor=0 returns rhs)')
        if factor != 0.0 and snap(u) != snap(guess) and snap(u) != snap(rhs):
            acc.nontrivial += 1
        return

    # ---- a miss: is it judged? ----------------------------------------------------------------------
    if reports_failure(msgs):
        if not easy_case_given_up(acc, cname, prob, method, part, spec, guess, rhs, factor, t, case, 'warns that it did not converge'):
            acc.count('reported_failure(warning)')
        return
    if cname in R.BRANCH and R.BRANCH[cname](prob, uf, t) != R.BRANCH[cname](prob, rf, t):
        acc.count('straddles_discontinuity_unjudged')
        return
    detail = {'expected': f'||u - factor*f_impl(u,t) - rhs|| <= {tol:.3g} ({kind})', 'observed': err, 'ratio': ratio, 'solver': {k: v for k, v in spec.items()}, 'case': case}
    if factor == 0.0:
        acc.violation('factor0', f'{method} with factor=0 does not return rhs', detail, case)
        return
    if linear:
        J, f0 = _jac(cname, prob, part, u, t, True, Jcache)
        if J.shape[0] == J.shape[1]:
            cond = float(np.linalg.cond(np.eye(J.shape[0]) - factor * J))
            if cond > COND_SINGULAR:
                acc.count('singular_system_unjudged')
                return
            detail['cond(I-factor*J)'] = cond
        if kind == 'krylov':
            what = f'{method}: iterative linear solver result misses the configured rtol and nothing is reported'
        else:
            what = f'{method} does not solve u - factor*f_impl(u) = rhs (affine implicit part)'
        acc.violation('residual', what, detail, case)
        return
    good, hist = ref_newton(prob, part, guess, rhs, factor, t, max(spec.get('atol', 1e-10), C_ROUND * EPS * scale_lo))
    if good:
        detail['reference_newton_residuals'] = hist
        what = f'{method} misses its tolerance silently where plain Newton on eval_f converges' if kind.startswith('newton') else f'{method}: direct formula loses accuracy (residual far above rounding level)'
        acc.violation('residual', what, detail, case)
    else:
        acc.count('hard_case_unjudged(reference Newton from the same guess fails too)')


def easy_case_given_up(acc, cname, prob, method, part, spec, guess, rhs, factor, t, case, how):
    """A Newton solver that *reports* failure is not judged -- unless the case is demonstrably easy: plain Newton on the
    class's own eval_f (difference Jacobian, same initial guess) converges with strictly decreasing residuals within 12
    iterations.  Then the class's iteration (same method, analytic Jacobian) has no reason to fail: flagged."""
    if not spec['kind'].startswith('newton') or factor == 0.0:
        return False
    if cname in R.BRANCH:
        return False
    good, hist = ref_newton(prob, part, guess, rhs, factor, t, max(spec.get('atol', 1e-10), C_ROUND * EPS * float(np.max(np.abs(flat(rhs))) + 1.0)))
    if not good:
        return False
    acc.violation(
        'newton_gives_up',
        f'{method} {how} on a case where plain Newton on eval_f converges monotonically',
        {'expected': 'convergence (reference Newton residuals strictly decreasing)', 'reference_newton_residuals': hist, 'observed': how, 'case': case},
        case,
    )
    return True


def _embed(prob, f, part):
    """f (or its implicit part) as an object of the shape of u for the spectral classes"""
    return f if part is None else getattr(f, part)


def _jac(cname, prob, part, u, t, linear, Jcache):
    key = (part, t) if (linear and cname not in R.STATEFUL) else None
    if key is not None and key in Jcache:
        return Jcache[key]
    if cname in R.STATEFUL:
        A = np.asarray(prob.A.toarray() if hasattr(prob.A, 'toarray') else prob.A)
        val = (A, np.zeros(A.shape[0]))
    else:
        val = fd_jacobian(prob, part, u, t, linear)
    if key is not None:
        Jcache[key] = val
    return val


def _term_scale(cname, prob, part, u, t, linear, Jcache):
    J, f0 = _jac(cname, prob, part, u, t, linear, Jcache)
    return float(np.max(np.abs(J) @ np.abs(flat(u))) + np.max(np.abs(f0), initial=0.0))


def run_solve_case(acc, cname, prob, method, part, spec, mask, states, rhss, si, ri, ti, fi_, Jcache, pids, twin=None):
    sname, state = states[si]
    rname, rhs0 = rhss[ri]
    t, factor = TIMES[ti], FACTORS[fi_]
    case = {'kind': 'solve', 'class': cname, 'variant': acc.label, 'method': method, 'state': sname, 'rhs': rname, 't': t, 'factor': factor, 'patterns': list(pids)}
    if twin is not None:
        # history: solve with FACTORS[fi_] (judged elsewhere), then with the nearby factor on the same instance
        call_guarded(acc, getattr(prob, method), clone(rhs0), factor, clone(state), t)
        factor = dict(TWINS)[twin](factor)
        case.update(factor=factor, after_solve_with=FACTORS[fi_], twin=twin)
        acc.count('solve_after_nearby_factor')
    rhs, guess = clone(rhs0), clone(state)
    before = [snap(rhs), snap(guess)]
    acc.evals += 1
    st, val, msgs = call_guarded(acc, getattr(prob, method), rhs, factor, guess, t)
    check_purity(acc, method, ('rhs', 'u0'), (rhs, guess), before, case)
    if st == 'raised':
        if not easy_case_given_up(acc, cname, prob, method, part, spec, state, rhs0, factor, t, case, f'raises {type(val).__name__}'):
            acc.count(f'reported_failure({type(val).__name__})')
        return
    if st == 'raised_other':
        acc.count(f'raised_other({type(val).__name__})')
        acc.info.setdefault('raised_other_example', {'case': case, 'error': repr(val)[:200]})
        return
    if is_stub(prob, method):
        acc.count('documented_stub(returns u_exact(t))_unjudged')
        return
    residual_check(acc, cname, prob, method, part, spec, mask, val, rhs0, factor, t, state, case, msgs, Jcache)
    if len(acc.samples) < 1 and factor == 0.1:
        acc.samples.append(case)


def run_variant(item):
    cname, label, params, pids, tier = item
    acc = Acc(cname, label)
    t00 = time.time()
    try:
        _run_variant(acc, cname, label, params, pids, tier)
    except Exception:  # noqa: BLE001
        acc.info['checker_error'] = traceback.format_exc()[-1500:]
    acc.info['wall'] = round(time.time() - t00, 2)
    return acc.out()


def _run_variant(acc, cname, label, params, pids, tier='thorough'):
    st, prob, msgs = call_guarded(acc, make, cname, params)
    if st != 'returned':
        acc.info['construct'] = f'constructor raised {prob!r}'[:300]
        acc.count('variant_not_constructible')
        return
    states, sinfo = build_states(prob, pids[0], skip_reference=(tier == 'quick'))
    acc.info.update(sinfo)
    shape = flat(states[0][1]).shape
    rpat = rhs_pattern(prob, states[0][1], pids[1])
    meths = solve_methods(prob)
    mask = SpectralMask(prob) if hasattr(prob, 'spectral') else None
    acc.info['dofs'] = int(shape[0])
    acc.info['solve_methods'] = [m for m, _ in meths]

    # ---- (c) purity of eval_f / u_exact / apply_mass_matrix on every state and time -------------------
    for sname, s in states:
        for t in TIMES:
            u = clone(s)
            b = snap(u)
            case = {'kind': 'eval_f', 'class': cname, 'variant': label, 'state': sname, 't': t, 'patterns': list(pids)}
            stt, f, _ = call_guarded(acc, prob.eval_f, u, t)
            acc.evals += 1
            if stt == 'returned':
                check_purity(acc, 'eval_f', ('u',), (u,), [b], case)
                # a second call must not change what the first call returned (fresh dtype_f)
                keep = snap(f)
                call_guarded(acc, prob.eval_f, clone(states[-1][1]), t)
                acc.count('eval_f_result_fresh' if snap(f) == keep else 'OBSERVATION:eval_f_result_aliased_by_next_call')
            else:
                acc.count(f'eval_f_{stt}')
            if 'apply_mass_matrix' in {n for kl in type(prob).__mro__ if kl.__name__ not in ('Problem', 'object') for n in vars(kl)}:
                u = clone(s)
                b = snap(u)
                stt, _, _ = call_guarded(acc, prob.apply_mass_matrix, u)
                if stt == 'returned':
                    check_purity(acc, 'apply_mass_matrix', ('u',), (u,), [b], dict(case, kind='apply_mass_matrix'))
    if not any(k.startswith('purity_ok:apply_mass_matrix') for k in acc.counts):
        acc.count('apply_mass_matrix_not_offered(identity default)')
    if hasattr(prob, 'u_exact'):
        sig = inspect.signature(prob.u_exact).parameters
        if 'u_init' in sig and 't_init' in sig:
            for sname, s in states[:2]:
                u = clone(s)
                b = snap(u)
                case = {'kind': 'u_exact', 'class': cname, 'variant': label, 'state': sname, 't': 0.001, 't_init': 0.0, 'patterns': list(pids)}
                stt, _, _ = call_guarded(acc, lambda: prob.u_exact(0.001, u_init=u, t_init=0.0))
                acc.evals += 1
                if stt == 'returned':
                    check_purity(acc, 'u_exact', ('u_init',), (u,), [b], case)
                else:
                    acc.count(f'u_exact(u_init)_{stt}')

    # ---- (a)(b)(c) solves ---------------------------------------------------------------------------
    if not meths:
        acc.count('solve_system_not_implemented(explicit-only class)')
    # a fresh instance for the solves, so that what eval_f did above cannot matter
    prob = make(cname, params)
    mask = SpectralMask(prob) if mask is not None else None
    rhss = None
    for method, part in meths:
        spec = solver_spec(cname, prob, method)
        acc.info.setdefault('solver', {})[method] = {k: (float(v) if isinstance(v, (int, float, np.floating)) else v) for k, v in spec.items()}
        Jcache = {}
        for si in range(len(states)):
            rhss = [('state', states[si][1]), ('pattern', with_values(states[si][1], rpat))]
            for ri in range(2):
                for ti in range(len(TIMES)):
                    for fi_ in range(len(FACTORS)):
                        run_solve_case(acc, cname, prob, method, part, spec, mask, states, rhss, si, ri, ti, fi_, Jcache, pids)
            if si == 0:
                for fi_ in range(len(FACTORS)):
                    for twin, _ in TWINS:
                        run_solve_case(acc, cname, prob, method, part, spec, mask, states, rhss, 0, 1, 0, fi_, Jcache, pids, twin=twin)

    # ---- (e) closed-form u_exact ----------------------------------------------------------------------
    cf = R.CLOSED_FORM.get(cname)
    if cf is not None and cf.get('when', lambda p: True)(params):
        closed_form_checks(acc, cname, make(cname, params), params, cf, pids)
    elif hasattr(prob, 'u_exact'):
        acc.count('u_exact_not_closed_form(reference integration / t=0 only / PDE solution)_uncounted')


def u0_as_flat(cname, prob, params):
    u0 = getattr(prob, 'u0', params.get('u0'))
    if cname == 'penningtrap':
        return np.concatenate([np.asarray(u0[0], float), np.asarray(u0[1], float)])
    return np.asarray(u0)


def closed_form_checks(acc, cname, prob, params, cf, pids):
    case0 = {'kind': 'closed_form', 'class': cname, 'variant': acc.label, 'patterns': list(pids)}
    # ---- initial condition ----
    ic = cf.get('ic')
    if ic is not None:
        with np.errstate(all='ignore'):
            got = flat(prob.u_exact(0.0))
        want = u0_as_flat(cname, prob, params) if ic == 'u0' else np.asarray(ic)
        want_b = np.broadcast_to(want, got.shape) if want.size in (1, got.size) else want
        acc.evals += 1
        err = float(np.max(np.abs(got - np.asarray(want_b).ravel())))
        tol = 50 * EPS * max(1.0, float(np.max(np.abs(want))))
        if err > tol:
            acc.violation('closed_form_ic', 'u_exact(0) differs from the configured initial condition', {'expected': np.asarray(want).tolist(), 'observed': got.tolist()}, dict(case0, sub='ic'))
        else:
            acc.ratio(err / tol, dict(case0, sub='ic'))
            acc.count('closed_form_ic_ok')
    else:
        acc.count('closed_form_ic_not_configurable(uncounted)')
    # ---- time derivative ----
    for t in cf.get('times', (0.1, 0.7)):
        for h in (2.0**-6, 2.0**-7):
            acc.evals += 1
            verdict, info = derivative_case(prob, t, h)
            c = dict(case0, sub='derivative', t=t, h=h)
            if verdict == 'ok':
                acc.ratio(info['ratio'], c)
                acc.count('closed_form_derivative_ok')
                acc.nontrivial += 1
            elif verdict == 'inconclusive':
                acc.count('closed_form_derivative_inconclusive(truncation dominated or not converging)')
            else:
                acc.violation('closed_form_derivative', 'd/dt u_exact differs from eval_f(u_exact(t), t)', info, c)


def derivative_case(prob, t, h):
    def D(hh):
        with np.errstate(all='ignore'):
            return (-flat(prob.u_exact(t + 2 * hh)) + 8 * flat(prob.u_exact(t + hh)) - 8 * flat(prob.u_exact(t - hh)) + flat(prob.u_exact(t - 2 * hh))) / (12 * hh)

    d1, d2, d4 = D(h), D(h / 2), D(2 * h)
    u = prob.u_exact(t)
    f = total_rhs(prob, u, t)
    umag = float(np.max(np.abs(flat(u)))) + float(np.max(np.abs(flat(prob.u_exact(t + 2 * h)))))
    trunc = float(np.max(np.abs(d1 - d2)))  # ~ 15/16 of the truncation error of D(h)
    trunc_coarse = float(np.max(np.abs(d4 - d1)))
    rounding = 50 * EPS * umag / h
    fmag = max(float(np.max(np.abs(f))), float(np.max(np.abs(d2))), 1e-300)
    dstar = (16 * d2 - d1) / 15  # Richardson: 6th order; trunc/15 estimates the error of the 4th-order D(h/2) and bounds it
    err = float(np.max(np.abs(dstar - f)))
    tol = 2 * trunc / 15 + 20 * rounding + 1e3 * EPS * fmag
    info = {'expected': f'|D4 u_exact - f| <= {tol:.3g}', 'observed': err, 'trunc_estimate': trunc, 'rounding': rounding, 't': t, 'h': h, 'D': d2[:6].tolist(), 'f': np.asarray(f)[:6].tolist()}
    converging = trunc <= 20 * rounding or (trunc_coarse > 0 and 6.0 <= trunc_coarse / max(trunc, 1e-300) <= 40.0)
    if err <= tol:
        if tol > 1e-3 * fmag or not converging:
            return 'inconclusive', info
        info['ratio'] = err / tol
        return 'ok', info
    if not converging or trunc > 1e-3 * fmag:
        return 'inconclusive', info
    return 'violation', info


# ======================================================================================================
# (d) siblings
# ======================================================================================================
def run_sibling(item):
    a_name, b_name, label, pa, pb, pids, tier = item
    acc = Acc(b_name, f'{a_name}~{b_name}:{label}')
    t00 = time.time()
    try:
        _run_sibling(acc, a_name, b_name, label, pa, pb, pids, tier)
    except Exception:  # noqa: BLE001
        acc.info['checker_error'] = traceback.format_exc()[-1500:]
    acc.info['wall'] = round(time.time() - t00, 2)
    return acc.out()


def _run_sibling(acc, a_name, b_name, label, pa, pb, pids, tier='thorough'):
    A, B = make(a_name, pa), make(b_name, pb)
    states, _ = build_states(A, pids[0], skip_reference=(tier == 'quick'))
    stateful = a_name in R.STATEFUL or b_name in R.STATEFUL
    for sname, s in states:
        for t in TIMES:
            case = {'kind': 'sibling', 'a': a_name, 'b': b_name, 'variant': label, 'state': sname, 't': t, 'patterns': list(pids)}
            acc.evals += 1
            if stateful:
                # the switching-circuit classes select their matrix in solve_system: same call on both, then compare
                A, B = make(a_name, pa), make(b_name, pb)
                for P in (A, B):
                    m = solve_methods(P)[0][0]
                    call_guarded(acc, getattr(P, m), clone(s), 0.1, clone(s), t)
            with np.errstate(all='ignore'):
                fa = total_rhs(A, clone(s), t)
                fB = B.eval_f(clone(s), t)
            comps = getattr(B.dtype_f, 'components', None)
            pieces = [flat(getattr(fB, c)) for c in comps] if comps else [flat(fB)]
            fb = sum(pieces)
            if not (np.all(np.isfinite(fa)) and np.all(np.isfinite(fb))):
                acc.count('sibling_nonfinite_unjudged')
                continue
            if a_name in R.STATEFUL:
                Ja = np.abs(np.asarray(A.A))
                ts = float(np.max(Ja @ np.abs(flat(s))))
            else:
                ts = fd_total_scale(A, s, t)
            scale = ts + sum(float(np.max(np.abs(p))) for p in pieces) + float(np.max(np.abs(fa)))
            err = float(np.max(np.abs(fa - fb)))
            tol = C_ROUND * EPS * max(scale, 1e-300)
            if err > tol:
                acc.violation(
                    'sibling',
                    f'pieces of {b_name} do not sum to the right-hand side of {a_name}',
                    {'expected': f'|sum(pieces) - f_{a_name}| <= {tol:.3g}', 'observed': err, 'f_a': fa[:6].tolist(), 'sum_b': np.asarray(fb)[:6].tolist(), 'case': case},
                    case,
                )
            else:
                acc.ratio(err / tol, case)
                acc.count('sibling_ok')
                acc.nontrivial += 1


# ======================================================================================================
# (f) default construction
# ======================================================================================================
def run_default(cname):
    acc = Acc(cname, 'default-constructed')
    try:
        st, prob, _ = call_guarded(acc, make, cname, {})
        if st != 'returned':
            acc.count('default_not_constructible(needs arguments)')
            return acc.out()
        meths = solve_methods(prob)
        if not meths or not hasattr(prob, 'u_exact'):
            acc.count('default_no_solver')
            return acc.out()
        n = flat(initial_state(prob)).size
        if n > 5000:
            acc.count('default_too_large_uncounted')
            return acc.out()
        u0 = initial_state(prob)
        for method, part in meths:
            if is_stub(prob, method):
                acc.count('documented_stub(returns u_exact(t))_unjudged')
                continue
            for factor in (1e-3, 0.1):
                case = {'kind': 'default', 'class': cname, 'method': method, 'factor': factor}
                acc.evals += 1
                st, u, msgs = call_guarded(acc, getattr(prob, method), clone(u0), factor, clone(u0), 0.0)
                if st != 'returned':
                    acc.count('default_' + st)
                    continue
                f = prob.eval_f(u, 0.0)
                fi = fpart(f, part)
                if hasattr(prob, 'spectral'):
                    acc.count('default_spectral_uncounted(covered by the variants)')
                    continue
                r = flat(u) - factor * fi - flat(u0)
                scale = float(np.max(np.abs(flat(u))) + factor * np.max(np.abs(fi)) + np.max(np.abs(flat(u0))))
                err = float(np.max(np.abs(r)))
                tol = 1e-3 * max(scale, 1e-300)
                if err <= tol:
                    acc.ratio(err / tol, case)
                if err > tol and not reports_failure(msgs):
                    acc.violation(
                        'default_tolerance',
                        f'default-constructed {cname}: {method} leaves a residual of the size of the solution without reporting',
                        {'expected': f'residual <= 1e-3 * (|u| + factor |f| + |rhs|) = {tol:.3g}', 'observed': err, 'defaults': {k: repr(getattr(prob, k)) for k in ('newton_tol', 'newton_maxiter', 'lintol', 'lin_tol') if hasattr(prob, k)}, 'case': case},
                        case,
                    )
                else:
                    acc.count('default_ok')
    except Exception:  # noqa: BLE001
        acc.info['checker_error'] = traceback.format_exc()[-1500:]
    return acc.out()


# ======================================================================================================
# driver
# ======================================================================================================
def variants_of(cname, tier):
    fn = R.VARIANTS.get(cname)
    if fn is None:
        return None
    return fn(tier)


def _dispatch(it):
    import contextlib
    import io

    with contextlib.redirect_stdout(io.StringIO()):  # harmonic_oscillator.u_exact prints
        return _dispatch2(it)


def _dispatch2(it):
    kind, payload = it
    if kind == 'variant':
        return kind, run_variant(payload)
    if kind == 'sibling':
        return kind, run_sibling(payload)
    return kind, run_default(payload)


# rough relative cost per work item (only used to start the long items first)
COST = {'penningtrap': 50, 'allencahn2d_imex_stab': 20, 'allencahn2d_imex': 20, 'Heat1DChebychev': 8, 'Burgers1D': 8, 'Burgers2D': 8,
        'allencahn_fullyimplicit': 10, 'allencahn_semiimplicit_v2': 10, 'allencahn_multiimplicit': 10, 'allencahn_multiimplicit_v2': 10,
        'allencahn_front_fullyimplicit': 6, 'allencahn_front_finel': 6, 'boussinesq_2d_imex': 8, 'heatNd_forced': 3, 'heatNd_unforced': 3,
        'advectionNd': 3, 'Quench': 4, 'generalized_fisher': 5, 'allencahn_periodic_fullyimplicit': 5, 'Heat2DChebychev': 4}  # fmt: skip


def _item_class(it):
    kind, payload = it
    return payload if kind == 'default' else payload[0]


def run(rep, tier):
    cls, not_importable = classes()
    pids = pick_patterns()
    rep.assumptions += [
        "the contract is self-consistency of each class: f_impl is what the class's own eval_f returns (impl / comp1 / comp2 / full), evaluated right after the solve on the same instance",
        'tolerances: configured solver tolerance read from the object (newton_tol absolute max-norm; scipy rtol relative to ||rhs||_2) times 10 (20 for Krylov), plus 1e3*eps*(|u| + factor*|J||u| + |rhs|) with |J| a difference Jacobian of eval_f',
        'a Newton miss is judged only when a plain Newton iteration on the class\'s eval_f (difference Jacobian, same initial guess) converges monotonically within 12 iterations; otherwise counted as hard case',
        'spectral tau classes: which rows are boundary rows (spectral.BC_zero_index), the mass matrix M and the constraint operator L are read from the object; boundary values are re-evaluated with an independent numpy Chebyshev interpolant on the class\'s grid',
        'classes built on SpectralHelper with an FFT axis get right-hand-side patterns without grid-scale (Nyquist) content: the helper documents that the Nyquist mode of real data on even grids is not representable and should be zero',
        'constructor recipes, solver kinds, sibling table and closed-form table were obtained by reading the classes (vf/env/c12_recipes.py)',
        'for Newton-based classes the lattice is an alphabet of states, not a proof over all states; for classes with an affine implicit part the rhs/state lattice is not a basis either: exhaustive refers to the stated lattice',
    ]
    items = []
    no_recipe = []
    for cname in sorted(cls):
        if cname in R.ABSTRACT:
            continue
        vs = variants_of(cname, tier)
        if vs is None:
            no_recipe.append(cname)
            continue
        for label, params in vs:
            items.append(('variant', (cname, label, params, pids, tier)))
    for a, b, tr in R.SIBLINGS:
        if a not in cls or b not in cls:
            continue
        for label, params in variants_of(a, tier):
            pa, pb = params, tr(params)
            items.append(('sibling', (a, b, label, pa, pb, pids, tier)))
    for cname in sorted(cls):
        if cname not in R.ABSTRACT:
            items.append(('default', cname))

    order = list(range(len(items)))
    common.rng('c12-order').shuffle(order)  # VERIF_SEED permutes the order among items of equal cost class
    order.sort(key=lambda i: -COST.get(_item_class(items[i]), 1))  # long poles first (stable sort)
    results = list(common.pimap_unordered(_dispatch, [items[i] for i in order]))

    per_class = {}
    outcome_total = {}
    evals = nontrivial = 0
    worst = (0.0, None)
    samples = []
    errors = []
    viol = {}
    slow = []
    worst_kind = {}
    for kind, r in results:
        c = per_class.setdefault(r['cname'], {'variants': [], 'outcomes': {}, 'worst_ratio': 0.0, 'sibling_checks': [], 'evaluations': 0})
        if kind == 'variant':
            c['variants'].append(r['label'])
            for k in ('dofs', 'solve_methods', 'solver'):
                if k in r['info']:
                    c[k] = r['info'][k]
            for k, v in r['info'].items():
                if k not in ('dofs', 'solve_methods', 'solver', 'wall', 'checker_error'):
                    c.setdefault('notes', {})[k] = v
        elif kind == 'sibling':
            c['sibling_checks'].append(r['label'])
        for k, v in r['counts'].items():
            c['outcomes'][k] = c['outcomes'].get(k, 0) + v
            outcome_total[k] = outcome_total.get(k, 0) + v
        for k, v in r['raised_other'].items():
            c.setdefault('raised_other', {})[k] = c.get('raised_other', {}).get(k, 0) + v
        c['worst_ratio'] = max(c['worst_ratio'], r['worst'])
        for k, v in r['worst_by_kind'].items():
            worst_kind[k] = max(worst_kind.get(k, 0.0), v)
        c['cpu_s'] = round(c.get('cpu_s', 0.0) + r['info'].get('wall', 0.0), 2)
        slow.append((r['info'].get('wall', 0.0), r['cname'], r['label']))
        c['evaluations'] += r['evals']
        evals += r['evals']
        nontrivial += r['nontrivial']
        if r['worst'] > worst[0]:
            worst = (r['worst'], r['worst_case'])
        samples += r['samples'][:1]
        if 'checker_error' in r['info']:
            errors.append((r['cname'], r['label'], r['info']['checker_error']))
        for sig, detail, case in r['viol']:
            key = common.canon(sig)
            v = viol.setdefault(key, {'sig': sig, 'cases': [], 'variants': set()})
            v['cases'].append((detail, case))
            v['variants'].add(r['label'])
    if errors:
        raise RuntimeError('checker errors in %d work items, first: %s / %s\n%s' % (len(errors), errors[0][0], errors[0][1], errors[0][2]))

    for key in sorted(viol):
        v = viol[key]
        # minimal case: fewest dofs is not known here; take the first in lattice order of the lexicographically first variant
        cases = sorted(v['cases'], key=lambda dc: common.canon(dc[1]))
        first_variant = sorted(v['variants'])[0]
        pick = next((dc for dc in cases if dc[1].get('variant', first_variant) == first_variant or first_variant.endswith(str(dc[1].get('variant')))), cases[0])
        detail = dict(pick[0])
        detail['failing_cases'] = len(cases)
        detail['failing_variants'] = sorted(v['variants'])[:12]
        rep.violation(v['sig'], detail, pick[1])

    for c in per_class.values():
        c['variants'] = sorted(c['variants'])
        c['n_variants'] = len(c['variants'])
        if len(c['variants']) > 8:
            c['variants'] = c['variants'][:8] + [f'... {c["n_variants"] - 8} more']
        c['sibling_checks'] = len(c['sibling_checks'])
    rep.coverage.update(
        {
            'evaluations': int(evals),
            'distinct_nontrivial': int(nontrivial),
            'rule': 'every (class, variant, solve method, state, rhs, time, factor) of the lattice plus every purity / sibling / closed-form case; a solve case is non-trivial when factor != 0, it is judged ok and the returned u differs bitwise from both the initial guess and rhs; sibling and derivative cases count when judged ok (all cases are distinct lattice points)',
            'exhaustive': True,
            'dimensions': {
                'classes_importable': len(cls),
                'classes_with_recipe': len({r[1]['cname'] for r in results if r[0] == 'variant'}),
                'classes_abstract': R.ABSTRACT,
                'classes_without_recipe': no_recipe,
                'modules_not_importable': not_importable,
                'variants': sum(1 for k, _ in results if k == 'variant'),
                'sibling_items': sum(1 for k, _ in results if k == 'sibling'),
                'states': ['u_exact(0) or documented initial condition', 'u_exact(0.1) if offered', 'u_exact(0)+0.1*pattern', 'pattern'],
                'rhs': ['state', 'pattern'],
                'times': list(TIMES),
                'factors': list(FACTORS),
                'pattern_pool_size': NPAT,
                'patterns_picked_by_seed': list(pids),
            },
            'slowest_items': [list(x) for x in sorted(slow, reverse=True)[:8]],
            'outcomes_total': outcome_total,
            'worst_ratio': worst[0],
            'worst_ratio_by_solver_kind': worst_kind,
            'worst_ratio_note': 'direct / Newton / closed-form cases: a Newton solver may stop anywhere below its tolerance, so ratios up to 1/C_CONF = 0.1 are by construction. Krylov cases: scipy reports non-convergence through info, which several classes discard (see violations); unconverged results that are nevertheless within 1e3*eps*scale pass with ratios close to 1',
            'worst_headroom': (1.0 / worst[0]) if worst[0] > 0 else None,
            'worst_case': worst[1],
            'per_class': per_class,
            'samples': samples[:6],
            'limits': 'Newton-based classes: the state lattice is an alphabet, not a proof over all states. u_exact via scipy reference integration, t=0-only initial conditions and PDE solutions are not judged by clause (e).',
        }
    )


# ======================================================================================================
# replay of exactly one case
# ======================================================================================================
def _find_variant(cname, label):
    for tier in ('quick', 'thorough'):
        for lab, p in variants_of(cname, tier) or []:
            if lab == label:
                return p
    raise KeyError(f'{cname}: variant {label!r} not in the recipe table')


def replay(rep, case):
    kind = case['kind']
    pids = tuple(case.get('patterns', (0, 4)))

    def flush(acc):
        for sig, detail, c in acc.viol:
            rep.violation(sig, detail, c)

    if kind == 'default':
        r = run_default(case['class'])
        for sig, detail, c in r['viol']:
            rep.violation(sig, detail, c)
        return
    if kind == 'sibling':
        a, b = case['a'], case['b']
        tr = next(t for x, y, t in R.SIBLINGS if (x, y) == (a, b))
        pa = _find_variant(a, case['variant'])
        acc = Acc(b, f'{a}~{b}:{case["variant"]}')
        _run_sibling(acc, a, b, case['variant'], pa, tr(pa), pids)
        for sig, detail, c in acc.viol:
            if c['state'] == case['state'] and c['t'] == case['t']:
                rep.violation(sig, detail, c)
        return
    cname, label = case['class'], case['variant']
    params = _find_variant(cname, label)
    acc = Acc(cname, label)
    if kind == 'closed_form':
        closed_form_checks(acc, cname, make(cname, params), params, R.CLOSED_FORM[cname], pids)
        for sig, detail, c in acc.viol:
            if c.get('sub') == case.get('sub') and c.get('t') == case.get('t') and c.get('h') == case.get('h'):
                rep.violation(sig, detail, c)
        return
    prob = make(cname, params)
    states, _ = build_states(prob, pids[0])
    names = [s for s, _ in states]
    if kind in ('eval_f', 'apply_mass_matrix', 'u_exact') or (kind == 'purity' and case['method'] in ('eval_f', 'apply_mass_matrix', 'u_exact')):
        s = states[names.index(case['state'])][1]
        u = clone(s)
        b = snap(u)
        m = case.get('method', kind)
        if m == 'u_exact':
            call_guarded(acc, lambda: prob.u_exact(case['t'], u_init=u, t_init=case.get('t_init', 0.0)))
            check_purity(acc, 'u_exact', ('u_init',), (u,), [b], case)
        elif m == 'eval_f':
            call_guarded(acc, prob.eval_f, u, case['t'])
            check_purity(acc, 'eval_f', ('u',), (u,), [b], case)
        else:
            call_guarded(acc, prob.apply_mass_matrix, u)
            check_purity(acc, 'apply_mass_matrix', ('u',), (u,), [b], case)
        flush(acc)
        return
    # solve case (also purity of a solve)
    method = case['method']
    part = dict(solve_methods(prob))[method]
    spec = solver_spec(cname, prob, method)
    mask = SpectralMask(prob) if hasattr(prob, 'spectral') else None
    rpat = rhs_pattern(prob, states[0][1], pids[1])
    si = names.index(case['state'])
    rhss = [('state', states[si][1]), ('pattern', with_values(states[si][1], rpat))]
    ri = [n for n, _ in rhss].index(case['rhs'])
    if case.get('twin'):
        run_solve_case(acc, cname, prob, method, part, spec, mask, states, rhss, si, ri, TIMES.index(case['t']), FACTORS.index(case['after_solve_with']), {}, pids, twin=case['twin'])
    else:
        run_solve_case(acc, cname, prob, method, part, spec, mask, states, rhss, si, ri, TIMES.index(case['t']), FACTORS.index(case['factor']), {}, pids)
    flush(acc)
