"""C17 — spectral helper matrices agree with exact polynomial / Fourier calculus.

Technique: bounded exhaustive enumeration (engine E2, basis-exhaustive).  Alphabet: base (Chebyshev-T, ultraspherical,
Fourier) x resolution N x interval x operator (x derivative order / basis pair / boundary point); every operator is
linear, so it is applied to *every* basis vector e_k, k < N (= the whole matrix is compared), which decides it for all
coefficient vectors.  N-D: every mixed assignment of bases to 2 and 3 axes with small sizes, every operator and every
basis tensor.  Oracle: `vf.oracle.spectral` (numpy.polynomial.chebyshev, exact Fraction polynomial arithmetic in the
power basis, closed-form complex exponentials).

Tolerances: |impl - ref| <= c * eps * scale, scale from the reference (entry magnitude for formula-evaluated entries,
sum of |terms| for products, |R||M||R| for numerically inverted matrices, (1 + log2 N) * max|kernel| for FFT-based
transforms, conditioning k^4/3 of T_k' at the end points for the Neumann rows).  Entries whose scale is zero must be
exactly zero.  VERIF_SEED permutes the work order and picks the generic vectors of the additivity probes.
"""

import itertools

import numpy as np

from pySDC.helpers.spectral_helper import ChebychevHelper, FFTHelper, SpectralHelper, UltrasphericalHelper
from vf import common
from vf.oracle import spectral as S

LEVEL = 'exploration'
EPS = S.EPS
C_ULP = 32.0  # a handful of roundings in evaluating a closed formula / scaling by a**p / one sparse product
C_INV = 1.0e3  # numerically inverted triangular matrices (sparse LU): c * eps * (|R||M||R|)_ij
REF = 'reference'
INTERVALS = [REF, (0.0, 1.0), (-3.0, 5.0), (2.0, 2.5)]
N_QUICK = list(range(1, 13)) + [15, 16, 31, 32, 63, 64]
N_THOROUGH = list(range(1, 65))
POOL = [0.8125, -1.375, 2.25, 0.4375, -0.6875, 1.5625, -2.125, 0.09375, 1.1875, -0.28125, 3.0625, -1.84375]


def _bounds(base, interval):
    if interval == REF or interval is None:
        return (0.0, 2 * np.pi) if base == 'fft' else (-1.0, 1.0)
    return float(interval[0]), float(interval[1])


def _make(base, N, interval):
    cls = {'cheb': ChebychevHelper, 'ultra': UltrasphericalHelper, 'fft': FFTHelper}[base]
    if interval == REF or interval is None:
        return cls(N)
    return cls(N, x0=float(interval[0]), x1=float(interval[1]))


def _dense(M):
    if hasattr(M, 'toarray'):
        M = M.toarray()
    return np.asarray(M)


def _cmp(impl, ref, tol, judged=None):
    """max |impl-ref| / tol; where tol == 0 exact equality is required. Returns (ratio, where)."""
    impl = np.asarray(impl)
    ref = np.asarray(ref)
    if impl.shape != ref.shape:
        return np.inf, {'shape': list(impl.shape), 'expected_shape': list(ref.shape)}
    tol = np.broadcast_to(np.asarray(tol, dtype=float), ref.shape)
    err = np.abs(impl - ref)
    if judged is not None:
        err = np.where(judged, err, 0.0)
    if not np.all(np.isfinite(np.where(judged, impl, 0) if judged is not None else impl)):
        return np.inf, {'nonfinite': True}
    with np.errstate(divide='ignore', invalid='ignore'):
        ratio = np.where(err == 0, 0.0, np.where(tol > 0, err / np.where(tol > 0, tol, 1.0), np.inf))
    if ratio.size == 0:
        return 0.0, None
    i = np.unravel_index(int(np.argmax(ratio)), ratio.shape)
    r = float(ratio[i])
    where = {'index': [int(v) for v in i], 'observed': impl[i], 'expected': ref[i], 'tol': float(tol[i])}
    return r, where


def _logf(N):
    return 1.0 + np.log2(max(N, 1))


# =========================================================================================================
# 1D operator checks: each returns (ratio, n_basis_vectors, where)
# =========================================================================================================
def _abs_inv_scale(R, M):
    """Forward-error scale of a numerically computed inverse X of M (exact inverse R): every column solves
    (M + dM) x_j = e_j with ||dM||_max <= c n rho eps ||M||_max (norm-wise backward stability of sparse LU with
    pivoting), hence |x_j - r_j|_i <= c eps ||M||_max * sum_l |R|_il * sum_l |R|_lj."""
    aR = np.abs(R)
    return np.abs(M).max() * np.outer(aR.sum(axis=1), aR.sum(axis=0))


def cheb_ops(h, base, N, x0, x1, reference):
    """Yield (opname, thunk).  thunk() -> (ratio, columns, where)."""
    a, b = S.affine(x0, x1)
    eye = np.eye(N)

    def grid():
        x = np.asarray(h.get_1dgrid(), dtype=float)
        r1, w1 = _cmp(x, S.cheb_grid(N, x0, x1), C_ULP * EPS * (abs(a) + abs(b)))
        # independent of the formula: the reference points are the roots of T_N (|T_N'| <= N^2)
        t = (x - b) / a
        TN = S.C.chebval(t, np.eye(N + 1)[N])
        r2, w2 = _cmp(TN, np.zeros(N), np.full(N, C_ULP * EPS * N**2 * (1 + (abs(b) + abs(a)) / abs(a))))
        return (r1, N, w1) if r1 >= r2 else (r2, N, w2)

    def itransform():
        V = _cos_table(N)  # V[j, k] = T_k(t_j)
        out = h.itransform(eye.copy(), axes=(-1,))  # row k = values of T_k on the grid
        return _cmp(np.asarray(out).T, V, C_ULP * EPS * _logf(N)) + ()

    def transform():
        F = _cos_table(N).T * (np.where(np.arange(N) == 0, 1.0, 2.0) / N)[:, None]  # F[k, j]
        out = h.transform(eye.copy(), axes=(-1,))  # row j = coefficients of the cardinal vector e_j
        return _cmp(np.asarray(out).T, F, C_ULP * EPS * _logf(N) * 2.0 / N)

    def roundtrip():
        out = h.transform(h.itransform(eye.copy(), axes=(-1,)), axes=(-1,))
        r1, w1 = _cmp(out, eye, C_ULP * EPS * _logf(N) * 2)
        out = h.itransform(h.transform(eye.copy(), axes=(-1,)), axes=(-1,))
        r2, w2 = _cmp(out, eye, C_ULP * EPS * _logf(N) * 2)
        return (r1, w1) if r1 >= r2 else (r2, w2)

    def additivity():
        rnd = common.rng(f'c17:{base}:{N}')
        u = np.array([rnd.choice(POOL) for _ in range(N)])
        v = np.array([rnd.choice(POOL) for _ in range(N)])
        z = u + 1j * v  # complex data, default axes
        t = h.transform(z)
        ref = _cos_table(N).T * (np.where(np.arange(N) == 0, 1.0, 2.0) / N)[:, None] @ z
        sc = np.abs(_cos_table(N).T * (2.0 / N)) @ np.abs(z)
        r1, w1 = _cmp(t, ref, C_ULP * EPS * _logf(N) * sc)
        back = h.itransform(t)
        r2, w2 = _cmp(back, z, C_ULP * EPS * _logf(N) * 2 * np.sum(np.abs(z)) / np.sqrt(N) + 0 * sc)
        return (r1, w1) if r1 >= r2 else (r2, w2)

    def conv(name, src, dst, inverse):
        def f():
            M = _dense(h.get_conv(name))
            R = S.conversion(src, dst, N)
            if inverse:
                fwd = S.conversion(dst, src, N)
                return _cmp(M, R, C_INV * EPS * _abs_inv_scale(R, fwd))
            return _cmp(M, R, C_ULP * EPS * np.abs(R))

        return f

    def conv_product(n1, n2):
        def f():
            A, B = _dense(h.get_conv(n1)), _dense(h.get_conv(n2))
            return _cmp(A @ B, np.eye(N), (C_INV + 4 * N) * EPS * (np.abs(A) @ np.abs(B)))

        return f

    def diff(p):
        def f():
            D = _dense(h.get_differentiation_matrix(p=p))
            R = S.cheb_diff(N, p, a)
            r1, w1 = _cmp(D, R, C_ULP * EPS * np.abs(R))
            # second, independent source: numpy.polynomial.chebyshev.chebder (its recursion rounds; (1+k) ulp per column)
            R2 = S.cheb_diff_numpy(N, p, a)
            r2, w2 = _cmp(D, R2, C_ULP * EPS * np.abs(R2) * (1 + np.arange(N))[None, :])
            return (r1, w1) if r1 >= r2 else (r2, w2)

        return f

    def int_matrix():
        M = _dense(h.get_integration_matrix())
        R, S0 = S.cheb_int_lbnd0(N)
        tol = C_ULP * EPS * np.abs(R)
        tol[0, :] += C_ULP * EPS * S0
        return _cmp(M, R, tol)

    def weights():
        w = np.asarray(h.get_integration_weights())
        R, sc = S.cheb_definite_integrals(N, a)
        return _cmp(w, R, C_ULP * EPS * sc)

    def integ_row():
        w = np.asarray(h.get_BC('integral'))
        R, sc = S.cheb_definite_integrals(N, 1.0)
        return _cmp(w, R, C_ULP * EPS * sc)

    def dirichlet(x):
        def f():
            row = np.asarray(h.get_BC('dirichlet', x=x))
            return _cmp(row, S.cheb_point_values(N, x), C_ULP * EPS * np.ones(N))

        return f

    def neumann(x):
        def f():
            row = np.asarray(h.get_BC('neumann', x=x))
            k = np.arange(N, dtype=float)
            return _cmp(row, S.cheb_point_values(N, x, m=1).astype(complex), C_ULP * EPS * (k**2 + k**4 / 3.0))

        return f

    def drec():
        return _cmp(_dense(h.get_Dirichlet_recombination_matrix()), S.conversion('D', 0, N), 0.0)

    def ident():
        r1, w1 = _cmp(_dense(h.get_Id()), np.eye(N), 0.0)
        r2, w2 = _cmp(_dense(h.get_zero()), np.zeros((N, N)), 0.0)
        r3, w3 = _cmp(np.asarray(h.get_wavenumbers(), dtype=float), np.arange(N, dtype=float), 0.0)
        return max((r1, w1), (r2, w2), (r3, w3), key=lambda t: t[0])

    ops = [('grid', grid), ('itransform', itransform), ('transform', transform), ('roundtrip', roundtrip), ('additivity', additivity)]
    ops += [('dirichlet_row[-1]', dirichlet(-1)), ('dirichlet_row[0]', dirichlet(0)), ('dirichlet_row[1]', dirichlet(1)), ('weights', weights)]
    if base == 'cheb':
        ops += [(f'diff[{p}]', diff(p)) for p in (1, 2, 3)]
        ops += [('id_zero_wavenumbers', ident)]
        if reference:
            ops += [('integration_matrix', int_matrix), ('integral_row', integ_row), ('neumann_row[-1]', neumann(-1)), ('neumann_row[1]', neumann(1))]
    if base == 'cheb' or reference:
        ops += [('conv[T2U]', conv('T2U', 0, 1, False)), ('conv[U2T]', conv('U2T', 1, 0, True)), ('conv[D2T]', conv('D2T', 'D', 0, False)), ('conv[T2D]', conv('T2D', 0, 'D', True))]
        ops += [('conv[T2T]', conv('T2T', 0, 0, False)), ('T2U@U2T', conv_product('T2U', 'U2T')), ('U2T@T2U', conv_product('U2T', 'T2U')), ('D2T@T2D', conv_product('D2T', 'T2D')), ('T2D@D2T', conv_product('T2D', 'D2T'))]
        ops += [('dirichlet_recombination', drec)]
    return ops


def ultra_ops(h, N, x0, x1, reference):
    a, b = S.affine(x0, x1)

    def diff(p):
        def f():
            D = _dense(h.get_differentiation_matrix(p=p))
            R = S.conversion(0, p, N, derivative=p) / a**p
            return _cmp(D, R, C_ULP * EPS * np.abs(R))

        return f

    def bump(l):
        def f():
            R = S.conversion(l, l + 1, N)
            return _cmp(_dense(h.get_S(l)), R, C_ULP * EPS * np.abs(R))

        return f

    def change(pi, po):
        def f():
            Q = _dense(h.get_basis_change_matrix(p_in=pi, p_out=po))
            R = S.conversion(pi, po, N)
            if po >= pi:
                sc = np.eye(N)
                for l in range(pi, po):
                    sc = np.abs(S.conversion(l, l + 1, N)) @ sc
                return _cmp(Q, R, C_ULP * EPS * sc)
            return _cmp(Q, R, C_INV * EPS * _abs_inv_scale(R, S.conversion(po, pi, N)))

        return f

    def int_matrix():
        M = _dense(h.get_integration_matrix())
        R = S.cheb_int_free(N, a)
        r1, w1 = _cmp(M, R, C_ULP * EPS * np.abs(R))
        # integration constant: applied to every column as a coefficient *vector* (axis=-1, as documented)
        c = np.array([h.get_integration_constant(M[:, k].copy(), axis=-1) for k in range(N)])
        full = M.copy()
        full[0, :] = c
        # (a) the completed series vanishes at the left end  (b) for k <= N-2 it is the exact antiderivative from x0
        sgn = (-1.0) ** np.arange(N)
        left = sgn @ full
        sc = np.abs(full).sum(axis=0)
        r2, w2 = _cmp(left, np.zeros(N), C_ULP * EPS * sc)
        ex = np.zeros((N, N))
        for k in range(N - 1):
            ex[:, k] = S.C.chebint(np.eye(N)[k], lbnd=-1, scl=a)[:N]
        judged = np.ones((N, N), dtype=bool)
        judged[:, N - 1] = False
        r3, w3 = _cmp(full, ex, C_ULP * EPS * (np.abs(ex) + np.where(np.arange(N)[:, None] == 0, sc[None, :], 0.0)), judged=judged)
        return max((r1, w1), (r2, w2), (r3, w3), key=lambda t: t[0])

    def consistency(p):
        def f():
            # S_{p-1} ... S_0 D_T^p == D_p  with the dense T differentiation of the Chebyshev helper on the same interval
            cheb = ChebychevHelper(N, x0=x0, x1=x1)
            DT = _dense(cheb.get_differentiation_matrix(p=p))
            Q = _dense(h.get_basis_change_matrix(p_in=0, p_out=p))
            Dp = _dense(h.get_differentiation_matrix(p=p))
            if Dp.shape != (N, N):
                return np.inf, {'shape': list(Dp.shape), 'expected_shape': [N, N]}
            return _cmp(Q @ DT, Dp, (4 * N + C_ULP) * EPS * (np.abs(Q) @ np.abs(DT)))

        return f

    ops = [(f'diff[{p}]', diff(p)) for p in (1, 2, 3)]
    ops += [(f'S[{l}]', bump(l)) for l in (0, 1, 2)]
    ops += [(f'basis_change[{i}->{o}]', change(i, o)) for i in range(4) for o in range(4)]
    ops += [('integration_matrix+constant', int_matrix)]
    ops += [(f'dense_consistency[{p}]', consistency(p)) for p in (1, 2, 3)]
    return ops


def fft_ops(h, N, x0, x1, reference):
    L = x1 - x0
    eye = np.eye(N)

    def grid():
        return _cmp(np.asarray(h.get_1dgrid()), S.fourier_grid(N, x0, x1), C_ULP * EPS * (abs(x0) + abs(L)))

    def wavenumbers():
        R = S.fourier_wavenumbers(N, L)
        return _cmp(np.asarray(h.get_wavenumbers()), R, C_ULP * EPS * np.abs(R))

    def transform():
        out = h.transform(eye.astype(complex), axes=(-1,))  # row j = transform of the cardinal vector e_j
        return _cmp(np.asarray(out).T, _exp_table(N, -1), C_ULP * EPS * _logf(N))

    def itransform():
        out = h.itransform(eye.astype(complex), axes=(-1,))  # row m = grid values of mode m
        return _cmp(np.asarray(out).T, _exp_table(N, +1) / N, C_ULP * EPS * _logf(N) / N)

    def roundtrip():
        out = h.itransform(h.transform(eye.astype(complex), axes=(-1,)), axes=(-1,))
        r1, w1 = _cmp(out, eye, C_ULP * EPS * _logf(N) * 2)
        out = h.transform(h.itransform(eye.astype(complex), axes=(-1,)), axes=(-1,))
        r2, w2 = _cmp(out, eye, C_ULP * EPS * _logf(N) * 2)
        return (r1, w1) if r1 >= r2 else (r2, w2)

    def additivity():
        rnd = common.rng(f'c17:fft:{N}')
        z = np.array([rnd.choice(POOL) for _ in range(N)]) + 1j * np.array([rnd.choice(POOL) for _ in range(N)])
        t = h.transform(z)
        ref = _exp_table(N, -1) @ z
        r1, w1 = _cmp(t, ref, C_ULP * EPS * _logf(N) * np.sum(np.abs(z)))
        r2, w2 = _cmp(h.itransform(t), z, C_ULP * EPS * _logf(N) * 2 * np.sum(np.abs(z)))
        return (r1, w1) if r1 >= r2 else (r2, w2)

    def diff(p):
        def f():
            D = _dense(h.get_differentiation_matrix(p=p))
            sym = S.fourier_diff_symbol(N, L, p)
            return _cmp(D, np.diag(sym), np.diag(C_ULP * EPS * (1 + p) * np.abs(sym)))  # p products of a rounded k

        return f

    def integ(p):
        def f():
            M = _dense(h.get_integration_matrix(p=p))
            sym = S.fourier_int_symbol(N, L, p)
            judged = ~np.isnan(sym)
            ref = np.diag(np.where(judged, sym, 0))
            J = np.ones((N, N), dtype=bool)
            J[~judged, ~judged] = False  # the zero mode has no periodic antiderivative: its entry is not judged
            if not np.all(np.isfinite(M)):
                return np.inf, {'nonfinite': True}
            return _cmp(M, ref, np.diag(C_ULP * EPS * (1 + p) * np.abs(np.where(judged, sym, 0))), judged=J)

        return f

    def weights(which):
        def f():
            w = np.asarray(h.get_integration_weights() if which == 'weights' else h.get_BC('integral'))
            ref = np.zeros(N)
            ref[0] = L / N  # int over one period of exp(i k_m (x-x0)) / N  =  L/N [m == 0]
            return _cmp(w, ref, C_ULP * EPS * np.abs(ref))

        return f

    def nyquist():
        if N % 2:
            try:
                h.get_BC('nyquist')
            except AssertionError:
                return 0.0, 0, {'documented_refusal': True}
            return np.inf, 0, {'note': 'odd N accepted although documented as refused'}
        ref = (np.abs(S.fourier_modes(N)) == N // 2).astype(float)
        return _cmp(np.asarray(h.get_BC('nyquist')), ref, 0.0)

    def ident():
        return _cmp(_dense(h.get_Id()), np.eye(N), 0.0)

    ops = [('grid', grid), ('wavenumbers', wavenumbers), ('transform', transform), ('itransform', itransform), ('roundtrip', roundtrip), ('additivity', additivity)]
    ops += [(f'diff[{p}]', diff(p)) for p in (1, 2, 3)] + [(f'integration_matrix[{p}]', integ(p)) for p in (1, 2, 3)]
    ops += [('weights', weights('weights')), ('integral_row', weights('row')), ('nyquist_row', nyquist), ('id', ident)]
    return ops


_TABLES = {}


def _cos_table(N):
    """V[j, k] = T_k(t_j) = cos(pi k (2j+1) / (2N)) with the angle reduced in integers (accurate to a few ulp)."""
    key = ('cos', N)
    if key not in _TABLES:
        j = np.arange(N)[:, None]
        k = np.arange(N)[None, :]
        r = (k * (2 * j + 1)) % (4 * N)
        _TABLES[key] = np.cos(np.pi * r / (2.0 * N))
    return _TABLES[key]


def _exp_table(N, sign):
    """E[m, j] = exp(sign * 2 pi i m j / N) (sign=-1: analysis, rows = modes) / E[j, m] for sign=+1 (synthesis)."""
    key = ('exp', N, sign)
    if key not in _TABLES:
        m = np.arange(N)  # exp(2 pi i m j / N) does not depend on the alias of m
        r = np.outer(m, m) % N
        _TABLES[key] = np.exp(sign * 2j * np.pi * r / N)
    return _TABLES[key]


def ops_1d(base, N, interval):
    x0, x1 = _bounds(base, interval)
    reference = interval == REF or interval is None
    h = _make(base, N, interval)
    if base == 'fft':
        return fft_ops(h, N, x0, x1, reference)
    ops = cheb_ops(h, base, N, x0, x1, reference)
    if base == 'ultra':
        ops += ultra_ops(h, N, x0, x1, reference)
    return ops


# =========================================================================================================
# N-D operators
# =========================================================================================================
def _nd_helper(axes):
    H = SpectralHelper(comm=None, debug=False)
    for base, N, iv in axes:
        name = {'cheb': 'chebychev', 'ultra': 'ultraspherical', 'fft': 'fft'}[base]
        if iv == REF or iv is None:
            H.add_axis(base=name, N=N)
        else:
            H.add_axis(base=name, N=N, x0=float(iv[0]), x1=float(iv[1]))
    H.add_component('u')
    H.setup_fft()
    return H


def nd_ops(axes):
    axes = [(b, int(n), (REF if iv in (REF, None) else tuple(iv))) for b, n, iv in axes]
    H = _nd_helper(axes)
    one = [_make(b, n, iv) for b, n, iv in axes]  # separate 1D helpers: the data of the Kronecker reference
    nd = len(axes)
    shape = tuple(n for _, n, _ in axes)
    eyes = [np.eye(n) for n in shape]

    def expand(mats_by_axis):
        return S.kron_nd([mats_by_axis.get(i, eyes[i]) for i in range(nd)])

    def kron_cmp(M, ref):
        return _cmp(_dense(M), ref, C_ULP * EPS * np.abs(ref))

    ops = []

    def diff(ax_tuple, p):
        def f():
            M = H.get_differentiation_matrix(axes=ax_tuple, p=p)
            ref = np.eye(int(np.prod(shape)))
            for ax in ax_tuple:
                ref = ref @ expand({ax: _dense(one[ax].get_differentiation_matrix(p=p))})
            return kron_cmp(M, ref)

        return f

    for p in (1, 2, 3):
        for ax in range(nd):
            ops.append((f'diff[axes=({ax},),p={p}]', diff((ax,), p)))
    for axt in [t for r in (2, 3) for t in itertools.permutations(range(nd), r)][:8]:
        ops.append((f'diff[axes={axt},p=1]', diff(tuple(axt), 1)))

    def integ(ax):
        def f():
            return kron_cmp(H.get_integration_matrix(axes=(ax,)), expand({ax: _dense(one[ax].get_integration_matrix())}))

        return f

    ops += [(f'integration[axes=({ax},)]', integ(ax)) for ax in range(nd)]

    def ident():
        return kron_cmp(H.get_Id(), np.eye(int(np.prod(shape))))

    ops.append(('id', ident))

    def change(kwargs, label):
        def f():
            M = H.get_basis_change_matrix(**kwargs)
            ref = expand({ax: _dense(one[ax].get_basis_change_matrix(**kwargs)) for ax in range(nd)})
            return kron_cmp(M, ref)

        return f

    ops.append(('basis_change[conv=T2U,p_in=0,p_out=1]', change({'conv': 'T2U', 'p_in': 0, 'p_out': 1}, '')))
    ops.append(('basis_change[p_in=0,p_out=2]', change({'p_in': 0, 'p_out': 2}, '')))

    def change_axis(ax, kwargs):
        def f():
            M = H.get_basis_change_matrix(axes=(ax,), **kwargs)
            return kron_cmp(M, expand({ax: _dense(one[ax].get_basis_change_matrix(**kwargs))}))

        return f

    def drec(ax):
        def f():
            return kron_cmp(H.get_Dirichlet_recombination_matrix(axis=ax), expand({ax: _dense(one[ax].get_Dirichlet_recombination_matrix())}))

        return f

    def bc(ax, kind, line, scalar, kw, negative=False):
        def f():
            # negative=True: the same direction addressed by its negative index, as the interface allows
            M = H.get_BC(axis=ax - nd if negative else ax, kind=kind, line=line, scalar=scalar, **kw)
            n = shape[ax]
            B = np.zeros((n, n), dtype=complex)
            B[line, :] = np.asarray(one[ax].get_BC(kind, **kw))
            mats = {ax: B}
            if scalar:
                for o in range(nd):
                    if o != ax:
                        E = np.zeros((shape[o], shape[o]))
                        E[0, 0] = 1.0
                        mats[o] = E
            return kron_cmp(M, expand(mats))

        return f

    for ax, (b, n, iv) in enumerate(axes):
        if b in ('cheb', 'ultra'):
            ops.append((f'basis_change[axes=({ax},),conv=T2U,p_out=1]', change_axis(ax, {'conv': 'T2U', 'p_in': 0, 'p_out': 1})))
            ops.append((f'dirichlet_recombination[{ax}]', drec(ax)))
            for kind, kw in (('dirichlet', {'x': -1}), ('dirichlet', {'x': 1}), ('neumann', {'x': 1}), ('integral', {})):
                for scalar in (False, True):
                    ops.append((f'BC[{ax},{kind},{kw.get("x", "")},line=-1,scalar={scalar}]', bc(ax, kind, -1, scalar, kw)))
            ops.append((f'BC[{ax},dirichlet,0,line=0]', bc(ax, 'dirichlet', 0, False, {'x': 0})))
            for scalar in (False, True):
                ops.append((f'BC[{ax - nd} (negative index),dirichlet,1,line=-1,scalar={scalar}]', bc(ax, 'dirichlet', -1, scalar, {'x': 1}, negative=True)))
        else:
            ops.append((f'BC[{ax},integral,line=0]', bc(ax, 'integral', 0, False, {})))
            ops.append((f'BC[{ax - nd} (negative index),integral,line=0]', bc(ax, 'integral', 0, False, {}, negative=True)))
            if n % 2 == 0:
                ops.append((f'BC[{ax},nyquist,line={n // 2},scalar=True]', bc(ax, 'nyquist', n // 2, True, {})))

    # transforms on every basis tensor: separable -> outer products of the 1D kernels (oracle tables)
    def kernel(ax, forward):
        b, n, _ = axes[ax]
        if b == 'fft':
            return _exp_table(n, -1) if forward else (_exp_table(n, +1) / n)
        V = _cos_table(n)
        return (V.T * (np.where(np.arange(n) == 0, 1.0, 2.0) / n)[:, None]) if forward else V

    def transform(forward):
        def f():
            ntot = int(np.prod(shape))
            K = S.kron_nd([kernel(ax, forward) for ax in range(nd)])  # maps flattened input tensor to flattened output
            worst, where = 0.0, None
            scale = C_ULP * EPS * sum(_logf(n) for n in shape) * float(np.max(np.abs(K)))
            for idx in range(ntot):
                u = np.zeros((1,) + shape, dtype=complex)
                u.reshape(1, -1)[0, idx] = 1.0
                out = np.asarray(H.transform(u) if forward else H.itransform(u))
                r, w = _cmp(out.reshape(-1), K[:, idx], scale)
                if r > worst:
                    worst, where = r, dict(w, basis_tensor=idx)
            return worst, where

        return f

    ops.append(('transform', transform(True)))
    ops.append(('itransform', transform(False)))

    # one direction at a time, addressed by its non-negative and by its negative index (array with a leading component
    # dimension, as the problem classes hold it): the 1-D kernel of THAT direction applied along THAT direction
    def transform_axis(ax, forward, negative):
        def f():
            Kax = kernel(ax, forward)
            worst, where = 0.0, None
            scale = C_ULP * EPS * _logf(shape[ax]) * float(np.max(np.abs(Kax)))
            arg = (ax - nd,) if negative else (ax,)
            for comps in (1, 2):
                for idx in range(int(np.prod(shape))):
                    u = np.zeros((comps,) + shape, dtype=complex)
                    u.reshape(comps, -1)[comps - 1, idx] = 1.0
                    out = np.asarray(H.transform(u, axes=arg) if forward else H.itransform(u, axes=arg))
                    ref = np.moveaxis(np.tensordot(Kax, u, axes=([1], [ax + 1])), 0, ax + 1)
                    if out.shape != ref.shape:
                        return np.inf, {'shape': list(out.shape), 'expected_shape': list(ref.shape)}
                    r, w = _cmp(out.reshape(-1), ref.reshape(-1), scale)
                    if r > worst:
                        worst, where = r, dict(w, basis_tensor=idx, components=comps)
            return worst, where

        return f

    for ax in range(nd):
        for forward in (True, False):
            for negative in (False, True):
                ops.append((f"{'transform' if forward else 'itransform'}[axes=({ax - nd if negative else ax},)]", transform_axis(ax, forward, negative)))
    return ops


# =========================================================================================================
# driver
# =========================================================================================================
def run_case(case, only_op=None):
    """case: {'kind':'1d','base','N','interval'} or {'kind':'nd','axes':[[base,N,interval],..]}.
    Returns list of (opname, ratio, columns, where, outcome)."""
    out = []
    try:
        if case['kind'] == '1d':
            ops = ops_1d(case['base'], case['N'], case['interval'] if case['interval'] == REF else tuple(case['interval']))
            ncol = case['N']
        else:
            ops = nd_ops(case['axes'])
            ncol = int(np.prod([a[1] for a in case['axes']]))
    except Exception as e:  # noqa
        return [('construct', np.inf, 0, {'exception': type(e).__name__, 'message': str(e)[:200]}, 'raises', -1)]
    for idx, (name, f) in enumerate(ops):
        if only_op is not None and name != only_op:
            continue
        try:
            res = f()
        except Exception as e:  # noqa
            out.append((name, np.inf, 0, {'exception': type(e).__name__, 'message': str(e)[:200]}, 'raises', idx))
            continue
        if len(res) == 3:
            r, cols, w = res
        else:
            (r, w), cols = res, ncol
        if isinstance(w, dict) and w.get('documented_refusal'):
            out.append((name, 0.0, 0, None, 'documented_refusal', idx))
            continue
        outcome = 'ok' if r <= 1.0 else ('shape' if isinstance(w, dict) and 'shape' in w else 'mismatch')
        out.append((name, float(r), cols, w if r > 1.0 else None, outcome, idx))
    return out


def _work(case):
    return case, run_case(case)


def build_space(tier):
    quick = tier == 'quick'
    Ns = N_QUICK if quick else N_THOROUGH
    cases = []
    for base in ('cheb', 'ultra', 'fft'):
        for N in Ns:
            for iv in INTERVALS:
                cases.append({'kind': '1d', 'base': base, 'N': N, 'interval': iv if iv == REF else list(iv)})
    bases = ('cheb', 'ultra', 'fft')
    ivs = {'cheb': [REF, (0.0, 1.0)], 'ultra': [(-3.0, 5.0), REF], 'fft': [REF, (2.0, 2.5)]}
    size_sets_2d = [(3, 4), (4, 3)] if quick else [(2, 2), (3, 4), (4, 3), (5, 6), (6, 5)]
    size_sets_3d = [(2, 3, 4)] if quick else [(2, 3, 4), (4, 3, 2), (3, 3, 3), (4, 5, 6)]
    for combo in itertools.product(bases, repeat=2):
        for k, sizes in enumerate(size_sets_2d):
            cases.append({'kind': 'nd', 'axes': [[b, n, _iv(ivs[b][(k + i) % 2])] for i, (b, n) in enumerate(zip(combo, sizes))]})
    for combo in itertools.product(bases, repeat=3):
        for k, sizes in enumerate(size_sets_3d):
            cases.append({'kind': 'nd', 'axes': [[b, n, _iv(ivs[b][(k + i) % 2])] for i, (b, n) in enumerate(zip(combo, sizes))]})
    # twin axes: the same base and the same N on intervals of different length (only the interval tells them apart)
    for b in bases:
        cases.append({'kind': 'nd', 'axes': [[b, 4, _iv(ivs[b][0])], [b, 4, _iv(ivs[b][1])]]})
        cases.append({'kind': 'nd', 'axes': [[b, 3, _iv(ivs[b][1])], [b, 3, _iv(ivs[b][0])], [b, 3, _iv(ivs[b][1])]]})
    # intervals at the edge of the range: very long and very short (operator entries far below / above 1; entries are
    # compared relative to their own size)
    for b in ('cheb', 'ultra'):
        for long_iv in ((0.0, 1.0e8), (-1.0e-6, 1.0e-6)):
            cases.append({'kind': 'nd', 'axes': [[b, 6, list(long_iv)]]})
            cases.append({'kind': 'nd', 'axes': [[b, 5, list(long_iv)], ['fft', 4, REF]]})
            cases.append({'kind': 'nd', 'axes': [['fft', 4, [2.0, 2.5]], [b, 5, list(long_iv)]]})
    return cases


def _iv(iv):
    return iv if iv == REF else list(iv)


def _complexity(case, op):
    if case['kind'] == '1d':
        iv = case['interval']
        return (0, case['N'], 0 if iv == REF else 1 + INTERVALS.index(tuple(iv)), ['cheb', 'ultra', 'fft'].index(case['base']), op)
    return (1, len(case['axes']), int(np.prod([a[1] for a in case['axes']])), common.canon(case), op)


def _group(case, op, outcome, where):
    if case['kind'] == '1d':
        fam = 'fft' if case['base'] == 'fft' else 'chebyshev-family'
        if outcome in ('raises', 'shape') and case['N'] <= 3:
            return common.canon(['degenerate-N', fam, outcome, (where or {}).get('exception')])
        opkey = op if case['base'] != 'ultra' or op.startswith(('diff', 'S[', 'basis_change', 'integration', 'dense')) else 'inherited:' + op
        return common.canon(['1d', case['base'] if not opkey.startswith('inherited:') else 'cheb', opkey.replace('inherited:', ''), outcome])
    return common.canon(['nd', len(case['axes']), op.split('[')[0], outcome])


def _signature(case, op, outcome):
    sig = {'op': op, 'symptom': outcome}
    sig.update(case)
    return sig


def run(rep, tier):
    rep.assumptions += [
        'numpy.polynomial.chebyshev (chebder, chebint, chebval) and exact Fraction polynomial arithmetic are the ground truth; cosines / complex exponentials of integer-reduced angles are accurate to a few ulp',
        'N-D operators are compared with the einsum Kronecker product of the matrices returned by separately constructed 1D helpers with the same arguments (those are judged against exact calculus in the same run)',
        'Fourier: the represented function uses the wavenumbers in the ordering and sign convention get_wavenumbers documents (Nyquist mode negative for even N); the zero-mode entry of the Fourier integration matrix has no exact counterpart and is only required to be finite',
        'Chebyshev-T integration matrix, Neumann rows and integral rows judged on the reference interval only (documented restriction); the last column of integration matrices is compared with the truncation of the exact antiderivative',
        'GPU (cupy), FFTW and mpi4py-fft back ends are not reachable in this sandbox',
    ]
    S.conversion_exact(0, 1)  # warm the exact tables before forking
    for s_ in (0, 1, 2, 3):
        for d_ in (0, 1, 2, 3):
            S.conversion_exact(s_, d_)
    for p in (1, 2, 3):
        S.conversion_exact(0, p, p)
    S.conversion_exact('D', 0)
    S.conversion_exact(0, 'D')
    cases = build_space(tier)
    common.rng('c17-order').shuffle(cases)
    results = common.pmap(_work, cases, chunksize=2)

    evals = columns = 0
    distinct = set()
    outcomes = {}
    worst = {}
    best = {}
    samples = []
    for case, res in results:
        for op, ratio, cols, where, outcome, idx in res:
            evals += 1
            columns += cols
            key = f"{case['kind']}:{outcome}"
            outcomes[key] = outcomes.get(key, 0) + 1
            label = (case['base'] if case['kind'] == '1d' else f"nd{len(case['axes'])}") + ':' + op.split('[')[0]
            if outcome == 'ok':
                if cols >= 2:
                    distinct.add(common.canon([case, op]))
                if ratio > worst.get(label, (-1, None))[0]:
                    worst[label] = (ratio, {'case': case, 'op': op})
            elif outcome != 'documented_refusal':
                g = _group(case, op, outcome, where)
                cand = (_complexity(case, idx), case, op, ratio, where, outcome)
                if g not in best or cand[0] < best[g][0]:
                    best[g] = cand
        if len(samples) < 4 and res and case['kind'] == ('nd' if len(samples) % 2 else '1d'):
            samples.append({'case': case, 'operators': [[op, outcome, ratio] for op, ratio, _, _, outcome, _ in res[:6]]})
    counts = {}
    for case, res in results:
        for op, ratio, cols, where, outcome, idx in res:
            if outcome not in ('ok', 'documented_refusal'):
                g = _group(case, op, outcome, where)
                counts[g] = counts.get(g, 0) + 1
    for g in sorted(best, key=lambda g: best[g][0]):
        _, case, op, ratio, where, outcome = best[g]
        detail = dict(where or {})
        detail['err_over_tol'] = ratio
        detail['cases_failing_with_this_cause'] = counts[g]
        rep.violation(_signature(case, op, outcome), detail, {'case': case, 'op': op})

    ok = [v[0] for v in worst.values()]
    rep.coverage.update(
        {
            'evaluations': evals,
            'basis_vectors_applied': columns,
            'distinct_nontrivial': len(distinct),
            'rule': 'one evaluation = one operator of one helper configuration (base, N, interval / N-D axis assignment) compared on every basis vector e_k with the exact reference; distinct = distinct (configuration, operator) pairs; non-trivial = judged ok with at least 2 basis vectors',
            'exhaustive': True,
            'configurations': len(cases),
            'outcomes': outcomes,
            'worst_err_over_tol': max(ok) if ok else None,
            'worst_headroom': (1.0 / max(ok)) if ok and max(ok) > 0 else None,
            'worst_err_over_tol_per_operator': {k: v[0] for k, v in sorted(worst.items())},
            'worst_case': max(worst.values(), key=lambda v: v[0])[1] if worst else None,
            'tolerances': {'C_ULP': C_ULP, 'C_INV': C_INV, 'form': 'err <= C * 2**-52 * scale(reference)'},
            'dimensions': {
                'N': (N_QUICK if tier == 'quick' else [1, 64]),
                'bases': ['chebyshev-T', 'ultraspherical', 'fourier'],
                'derivative_orders': [1, 2, 3],
                'intervals': [REF, [0.0, 1.0], [-3.0, 5.0], [2.0, 2.5]],
                'nd': '2D: all 9 base pairs, 3D: all 27 base triples, sizes <= 6 per axis',
            },
            'samples': samples,
        }
    )


def replay(rep, case):
    res = run_case(case['case'], only_op=case.get('op'))
    for op, ratio, cols, where, outcome, idx in res:
        if outcome not in ('ok', 'documented_refusal'):
            detail = dict(where or {})
            detail['err_over_tol'] = ratio
            rep.violation(_signature(case['case'], op, outcome), detail, case)
