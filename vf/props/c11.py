"""C11 -- transfer operators in time and space are exact on what they promise (E2, exact arithmetic oracles).

Five finite spaces are enumerated completely (sizes per tier in `plan`):
  time      ordered pairs of collocation node sets -> BaseTransfer.Pcoll / Rcoll vs exact Lagrange matrices (mpmath)
  space1d   helpers.transfer_helper.interpolation_matrix_1d / restriction_matrix_1d vs exact Lagrange weights (Fraction)
  mesh      TransferMesh.mesh_to_mesh objects on library problems: operator matrices vs Kronecker products of the oracle's
            1D matrices, restrict()/prolong() on every unit vector of every component of every data type
  fft       mesh_to_mesh_fft / mesh_to_mesh_fft2d: every Fourier mode below the coarse Nyquist index, every unit vector
  nocoarse  TransferMesh_NoCoarse / TransferParticles_NoCoarse: identity with preserved type and independent storage
The transfer paths are linear, so unit vectors + zero + one additivity probe decide them for all data.
"""

import itertools
from fractions import Fraction as Fr
from types import SimpleNamespace as NS

import numpy as np
import scipy.sparse as sp

import pySDC.helpers.transfer_helper as th
from pySDC.core.base_transfer import BaseTransfer
from pySDC.core.collocation import CollBase
from pySDC.core.errors import TransferError
from pySDC.implementations.datatype_classes.mesh import mesh, imex_mesh, comp2_mesh
from pySDC.implementations.datatype_classes.particles import particles, fields, acceleration
from pySDC.implementations.problem_classes.HeatEquation_ND_FD import heatNd_unforced
from pySDC.implementations.problem_classes.AdvectionEquation_ND_FD import advectionNd
from pySDC.implementations.problem_classes.AllenCahn_1D_FD import (
    allencahn_front_fullyimplicit,
    allencahn_front_semiimplicit,
    allencahn_front_finel,
    allencahn_periodic_fullyimplicit,
    allencahn_periodic_semiimplicit,
    allencahn_periodic_multiimplicit,
)
from pySDC.implementations.problem_classes.AllenCahn_2D_FD import allencahn_fullyimplicit, allencahn_semiimplicit, allencahn_multiimplicit
from pySDC.implementations.problem_classes.AdvectionDiffusionEquation_1D_FFT import advectiondiffusion1d_imex
from pySDC.implementations.problem_classes.AllenCahn_2D_FFT import allencahn2d_imex
from pySDC.implementations.transfer_classes.TransferMesh import mesh_to_mesh
from pySDC.implementations.transfer_classes.TransferMesh_FFT import mesh_to_mesh_fft
from pySDC.implementations.transfer_classes.TransferMesh_FFT2D import mesh_to_mesh_fft2d
from pySDC.implementations.transfer_classes.TransferMesh_NoCoarse import mesh_to_mesh as mesh_to_mesh_nocoarse
from pySDC.implementations.transfer_classes.TransferParticles_NoCoarse import particles_to_particles

from vf import common
from vf.oracle import interp as oi

LEVEL = 'exploration'
C = 50.0
EPS = float(np.finfo(float).eps)
REFUSALS = (TransferError, AssertionError)  # explicit refusals of the library (documented error type, precondition asserts)

NODE_TYPES = ['EQUID', 'LEGENDRE', 'CHEBY-1', 'CHEBY-2', 'CHEBY-3', 'CHEBY-4']
QUAD_TYPES = ['GAUSS', 'LOBATTO', 'RADAU-LEFT', 'RADAU-RIGHT']
DTYPES = {'mesh': mesh, 'imex_mesh': imex_mesh, 'comp2_mesh': comp2_mesh}
# fixed pool of well-conditioned "generic data" values; VERIF_SEED only rotates the pool
POOL = [0.75, -1.25, 0.5, 1.5, -0.625, 1.125, -0.875, 0.375, 1.0, -1.5, 0.25, -0.3125, 1.375, -1.0625, 0.6875, -0.4375]

# 20 fixed cross-family pairs (fine set, coarse set); three have equal counts but different node sets
CROSS = [
    (('LEGENDRE', 'RADAU-RIGHT', 5), ('LEGENDRE', 'LOBATTO', 3)),
    (('LEGENDRE', 'RADAU-RIGHT', 3), ('LEGENDRE', 'LOBATTO', 3)),
    (('LEGENDRE', 'LOBATTO', 5), ('LEGENDRE', 'GAUSS', 2)),
    (('LEGENDRE', 'GAUSS', 4), ('LEGENDRE', 'RADAU-RIGHT', 2)),
    (('LEGENDRE', 'GAUSS', 3), ('EQUID', 'LOBATTO', 3)),
    (('LEGENDRE', 'RADAU-LEFT', 4), ('LEGENDRE', 'RADAU-RIGHT', 3)),
    (('EQUID', 'LOBATTO', 9), ('LEGENDRE', 'LOBATTO', 5)),
    (('EQUID', 'RADAU-RIGHT', 6), ('LEGENDRE', 'RADAU-RIGHT', 3)),
    (('EQUID', 'GAUSS', 5), ('CHEBY-1', 'GAUSS', 3)),
    (('CHEBY-1', 'GAUSS', 7), ('LEGENDRE', 'GAUSS', 4)),
    (('CHEBY-2', 'LOBATTO', 6), ('EQUID', 'LOBATTO', 3)),
    (('CHEBY-2', 'RADAU-RIGHT', 5), ('CHEBY-1', 'RADAU-RIGHT', 2)),
    (('CHEBY-3', 'GAUSS', 4), ('CHEBY-4', 'GAUSS', 2)),
    (('CHEBY-3', 'LOBATTO', 8), ('LEGENDRE', 'RADAU-RIGHT', 4)),
    (('CHEBY-4', 'RADAU-LEFT', 5), ('EQUID', 'GAUSS', 1)),
    (('CHEBY-4', 'GAUSS', 9), ('CHEBY-2', 'GAUSS', 5)),
    (('LEGENDRE', 'RADAU-RIGHT', 9), ('EQUID', 'RADAU-RIGHT', 4)),
    (('LEGENDRE', 'LOBATTO', 2), ('LEGENDRE', 'RADAU-RIGHT', 1)),
    (('CHEBY-1', 'LOBATTO', 4), ('CHEBY-1', 'GAUSS', 4)),
    (('LEGENDRE', 'RADAU-RIGHT', 2), ('LEGENDRE', 'GAUSS', 5)),
]


# ======================================================================================================== small helpers
class Res:
    def __init__(self, case):
        self.d = {'case': case, 'outcome': 'ok', 'fails': [], 'ratio': {}, 'ncmp': 0, 'nontrivial': False, 'notes': {}}

    def fail(self, kind, detail=None, **extra):
        sig = {'kind': kind, 'case': self.d['case']}
        sig.update(extra)
        if all(common.canon(s) != common.canon(sig) for s, _ in self.d['fails']):
            self.d['fails'].append((sig, detail or {}))

    def ratio(self, name, err, tol):
        err, tol = float(err), float(tol)
        r = err / tol if tol > 0 else (0.0 if err == 0 else float('inf'))
        if r > self.d['ratio'].get(name, -1.0):
            self.d['ratio'][name] = r
        self.d['ncmp'] += 1
        return r

    def cmp_arrays(self, name, got, ref, tol):
        """max err/tol over an array comparison; returns (worst ratio, index) and records the ratio"""
        got, ref, tol = np.asarray(got, dtype=float), np.asarray(ref, dtype=float), np.asarray(tol, dtype=float)
        err = np.abs(got - ref)
        with np.errstate(divide='ignore', invalid='ignore'):
            r = np.where(tol > 0, err / tol, np.where(err == 0, 0.0, np.inf))
        self.d['ncmp'] += int(r.size)
        if r.size == 0:
            return 0.0, None
        idx = np.unravel_index(int(np.argmax(r)), r.shape)
        w = float(r[idx])
        if w > self.d['ratio'].get(name, -1.0):
            self.d['ratio'][name] = w
        return w, [int(i) for i in idx]


def _pool(n, tag):
    k = (common.seed() * 5 + sum(map(ord, tag))) % len(POOL)
    return np.array([POOL[(k + 3 * i) % len(POOL)] for i in range(n)])


def _exc(e):
    return f'{type(e).__name__}: {str(e)[:160]}'


# ======================================================================================================== part: time
class _NoSpace:
    def __init__(self, fine_prob, coarse_prob, params):
        pass


def _level(nodes):
    return NS(sweep=NS(coll=NS(nodes=nodes)), prob=None)


def _nodes(fam):
    nt, qt, M = fam
    return np.asarray(CollBase(M, 0.0, 1.0, node_type=nt, quad_type=qt).nodes, dtype=float)


def time_cases(tier):
    mmax = 9  # both tiers: the time part is cheap
    out = []
    for nt in NODE_TYPES:
        for qt in QUAD_TYPES:
            for Mf in range(1, mmax + 1):
                for Mc in range(1, mmax + 1):
                    out.append({'part': 'time', 'fine': [nt, qt, Mf], 'coarse': [nt, qt, Mc]})
    for f, c in CROSS:
        out.append({'part': 'time', 'fine': list(f), 'coarse': list(c)})
    return out


def _check_time_matrix(res, name, A, targets, sources):
    nT, nS = len(targets), len(sources)
    if np.shape(A) != (nT, nS):
        res.fail('time_shape', {'shape': list(np.shape(A)), 'expected': [nT, nS]}, matrix=name)
        return None
    A = np.asarray(A, dtype=float)
    d_t = np.array([common.ulp(x) for x in targets]) + EPS
    d_s = np.array([common.ulp(x) for x in sources]) + EPS
    L, sens = oi.lagrange_matrix_abs_derivs(targets, sources, d_t, d_s)
    Lf = np.array([[float(v) for v in row] for row in L]).reshape(nT, nS)
    lam = np.abs(Lf).sum(axis=1)
    # barycentric evaluation of l_j(t): relative error nS*eps*(1 + Lambda(t)); plus rounding of the node data
    tol = C * (nS * EPS * (1.0 + lam)[:, None] * np.abs(Lf) + sens)
    worst = None
    for i in range(nT):
        for j in range(nS):
            err = abs(oi.mpf(float(A[i, j])) - L[i][j])
            r = res.ratio('time_entry', err, tol[i, j])
            if r > 1 and (worst is None or r > worst[0]):
                worst = (r, [i, j], float(A[i, j]), float(L[i][j]))
    entry_failed = bool(worst)
    if worst:
        res.fail('time_entry', {'index': worst[1], 'observed': worst[2], 'expected': worst[3], 'err_over_tol': worst[0]}, matrix=name)
    # every monomial of degree < number of source nodes is reproduced (degree 0: rows sum to one)
    t = [oi.mpf(float(x)) for x in targets]
    s = [oi.mpf(float(x)) for x in sources]
    worst = None
    for d in range(nS):
        for i in range(nT):
            val = sum(oi.mpf(float(A[i, j])) * s[j] ** d for j in range(nS))
            tl = sum(tol[i, j] * float(abs(s[j])) ** d for j in range(nS))
            r = res.ratio('time_rowsum' if d == 0 else 'time_polynomial', abs(val - t[i] ** d), tl)
            if r > 1 and worst is None:
                worst = (r, d, i, float(val), float(t[i] ** d))
    if worst and not entry_failed:  # a wrong entry already names the cause
        res.fail('time_polynomial', {'degree': worst[1], 'row': worst[2], 'observed': worst[3], 'expected': worst[4], 'err_over_tol': worst[0]}, matrix=name)
    return A, tol


def eval_time(case):
    res = Res(case)
    try:
        fine, coarse = _nodes(case['fine']), _nodes(case['coarse'])
    except Exception as e:
        res.d['outcome'] = 'node_set_not_buildable'
        return res.d
    bt = BaseTransfer(_level(fine), _level(coarse), {}, _NoSpace, {})
    P = _check_time_matrix(res, 'Pcoll', bt.Pcoll, fine, coarse)
    R = _check_time_matrix(res, 'Rcoll', bt.Rcoll, coarse, fine)
    res.d['nontrivial'] = len(fine) != len(coarse)
    if P and R and len(fine) >= len(coarse):
        (P, tP), (R, tR) = P, R
        nC = len(coarse)
        worst = None
        for a in range(nC):
            for b in range(nC):
                val = sum(oi.mpf(float(R[a, k])) * oi.mpf(float(P[k, b])) for k in range(len(fine)))
                tl = float(np.sum(tR[a, :] * np.abs(P[:, b]) + np.abs(R[a, :]) * tP[:, b]))
                r = res.ratio('time_RP_identity', abs(val - (1 if a == b else 0)), tl)
                if r > 1 and worst is None:
                    worst = (r, [a, b], float(val))
        if worst:
            res.fail('time_RP_identity', {'index': worst[1], 'observed': worst[2], 'err_over_tol': worst[0]})
    return res.d


# ======================================================================================================== part: space1d
def _grids(nf, nc, periodic):
    if periodic:
        dxf, dxc = 1.0 / nf, 1.0 / nc
        return np.array([i * dxf for i in range(nf)]), np.array([i * dxc for i in range(nc)])
    dxf, dxc = 1.0 / (nf + 1), 1.0 / (nc + 1)
    return np.array([(i + 1) * dxf for i in range(nf)]), np.array([(i + 1) * dxc for i in range(nc)])


def space1d_cases(tier):
    ks = range(2, 6) if tier == 'quick' else range(2, 8)
    out = []
    for periodic in (True, False):
        for k in ks:
            nf = 2**k if periodic else 2**k - 1
            for p in (2, 4, 6, 8):
                for nested in (True, False):
                    out.append({'part': 'space1d', 'fn': 'interpolation_matrix_1d', 'periodic': periodic, 'nf': nf, 'nc': nf // 2, 'order': p, 'equidist_nested': nested})
                out.append({'part': 'space1d', 'fn': 'restriction_matrix_1d', 'periodic': periodic, 'nf': nf, 'nc': nf // 2, 'order': p})
    return out


def _oracle_1d(nf, nc, p, periodic):
    """dense float matrix, per-row tolerance, the Fraction rows; None if the grid cannot serve the order"""
    try:
        rows = oi.interpolation_matrix(nf, nc, p, periodic)
    except ValueError:
        return None
    ref = oi.dense(rows, nc)
    tol = C * EPS * max(p, 1) * np.array(oi.dense_abs_rowsum(rows))
    return ref, tol, rows


def eval_space1d(case):
    res = Res(case)
    nf, nc, p, periodic = case['nf'], case['nc'], case['order'], case['periodic']
    fg, cg = _grids(nf, nc, periodic)
    # the grids are dyadic rationals, exactly representable: the oracle's rational positions are the float positions
    assert all(Fr(float(x)) == y for x, y in zip(fg, oi.fine_points(nf, periodic)))
    assert all(Fr(float(x)) == y for x, y in zip(cg, oi.fine_points(nc, periodic)))
    if case['fn'] == 'interpolation_matrix_1d':
        orc = _oracle_1d(nf, nc, p, periodic)
        try:
            M = th.interpolation_matrix_1d(fg, cg, k=p, periodic=periodic, equidist_nested=case['equidist_nested'])
        except Exception as e:
            res.d['notes']['error'] = _exc(e)
            if orc is None:
                res.d['outcome'] = 'raised_order_not_servable'  # outside the domain of the property: counted, not judged
            elif isinstance(e, REFUSALS):
                res.d['outcome'] = 'refused'  # explicit precondition of the library: counted, not judged
            else:
                res.d['outcome'] = 'raised'
                res.fail('exception', {'error': _exc(e)})
            return res.d
        if orc is None:
            res.d['outcome'] = 'order_not_servable_but_value_returned'
            return res.d
        ref, tol, rows = orc
        M = M.toarray()
        if M.shape != ref.shape:
            res.fail('space_shape', {'shape': list(M.shape), 'expected': list(ref.shape)})
            return res.d
        res.d['nontrivial'] = True
        w, idx = res.cmp_arrays('space_entry', M, ref, tol[:, None] * np.ones_like(ref))
        if w > 1:
            res.fail('space_entry', {'index': idx, 'observed': float(M[tuple(idx)]), 'expected': float(ref[tuple(idx)]), 'exact_expected': str(rows[idx[0]].get(idx[1], 0)), 'err_over_tol': w, 'max_abs_entry_observed': float(np.abs(M).max())})
        # statement clauses, in exact arithmetic on the float entries
        xc, xf = oi.fine_points(nc, periodic), oi.fine_points(nf, periodic)
        if periodic:
            polys = [('constant', lambda x: Fr(1))]
        else:
            polys = [(f'x(1-x)x^{d}', (lambda d: lambda x: x * (1 - x) * x**d)(d)) for d in range(0, p - 2)]
        for pname, q in polys:
            qc = [q(x) for x in xc]
            worst = None
            for i in range(nf):
                val = sum(Fr(float(M[i, j])) * qc[j] for j in range(nc) if M[i, j] != 0)
                tl = tol[i] * float(sum(abs(v) for v in qc)) + 5e-324
                r = res.ratio('space_constants' if periodic else 'space_dirichlet_polynomial', abs(float(val - q(xf[i]))), tl)
                if r > 1 and worst is None:
                    worst = (r, i, float(val), float(q(xf[i])))
            if worst:
                res.fail('space_polynomial', {'row': worst[1], 'observed': worst[2], 'expected': worst[3], 'err_over_tol': worst[0]}, polynomial=pname)
    else:
        # every coarse point is a fine point: the k nearest fine points contain it, the Lagrange weights are a unit row
        servable = p <= nf if periodic else p <= nf + 2
        try:
            M = th.restriction_matrix_1d(fg, cg, k=p, periodic=periodic)
        except Exception as e:
            res.d['notes']['error'] = _exc(e)
            if not servable:
                res.d['outcome'] = 'raised_order_not_servable'
            elif isinstance(e, REFUSALS):
                res.d['outcome'] = 'refused'
            else:
                res.d['outcome'] = 'raised'
                res.fail('exception', {'error': _exc(e)})
            return res.d
        if not servable:
            res.d['outcome'] = 'order_not_servable_but_value_returned'
            return res.d
        M = M.toarray()
        ref = np.zeros((nc, nf))
        for j in range(nc):
            ref[j, 2 * j if periodic else 2 * j + 1] = 1.0
        if M.shape != ref.shape:
            res.fail('space_shape', {'shape': list(M.shape), 'expected': list(ref.shape)})
            return res.d
        res.d['nontrivial'] = True
        w, idx = res.cmp_arrays('space_restriction_entry', M, ref, C * EPS * p * np.ones_like(ref))
        if w > 1:
            res.fail('space_entry', {'index': idx, 'observed': float(M[tuple(idx)]), 'expected': float(ref[tuple(idx)]), 'err_over_tol': w})
    return res.d


# ======================================================================================================== part: mesh (objects)
def _standin(nvars, periodic, ncomp, layout):
    """minimal problem stand-in with an `ncomp` attribute (no multi-component problem class is importable without
    mpi4py-fft); mesh_to_mesh reads nvars, dx, init and ncomp only"""
    n = nvars[0]
    dx = 1.0 / n if periodic else 1.0 / (n + 1)
    shape = tuple(nvars) + (ncomp,) if layout == 'last' else (ncomp,) + tuple(nvars)
    return NS(nvars=tuple(nvars), dx=dx, init=(shape, None, np.dtype('float64')), ncomp=ncomp)


def _plain_standin(nvars, periodic, n=None):
    """a problem stand-in without components on a grid of ANY size (the shipped finite-difference problems insist on
    2^p - 1 points for non-periodic boundaries, i.e. on nested grids); mesh_to_mesh reads nvars, dx and init only"""
    n = nvars[0] if n is None else n
    return NS(nvars=tuple(nvars), dx=1.0 / n if periodic else 1.0 / (n + 1), init=(tuple(nvars), None, np.dtype('float64')))


PROBLEMS = {
    # name: (constructor(n) -> problem, periodic, ndim, nvars is int)
    'standin_1d_dirichlet_anysize': (lambda n: _plain_standin((n,), False), False, 1),
    'standin_2d_dirichlet_anysize': (lambda n: _plain_standin((n, n), False), False, 2),
    # boxes with different numbers of points per direction (one dx): the 1-D operators must land on their own axes
    'standin_2d_dirichlet_rect': (lambda n: _plain_standin((n, (n - 1) // 2), False), False, 2, lambda n: (n, (n - 1) // 2)),
    'standin_2d_dirichlet_rect_T': (lambda n: _plain_standin(((n - 1) // 2, n), False, n=n), False, 2, lambda n: ((n - 1) // 2, n)),
    'standin_3d_dirichlet_rect': (lambda n: _plain_standin((n, (n - 1) // 2, (n - 1) // 2), False), False, 3, lambda n: (n, (n - 1) // 2, (n - 1) // 2)),
    'heat1d_periodic': (lambda n: heatNd_unforced(nvars=n, bc='periodic'), True, 1),
    'heat1d_dirichlet': (lambda n: heatNd_unforced(nvars=n, bc='dirichlet-zero', freq=1), False, 1),
    'advection1d_periodic': (lambda n: advectionNd(nvars=n, bc='periodic'), True, 1),
    'heat2d_periodic': (lambda n: heatNd_unforced(nvars=(n, n), bc='periodic'), True, 2),
    'heat2d_dirichlet': (lambda n: heatNd_unforced(nvars=(n, n), bc='dirichlet-zero', freq=1), False, 2),
    'advection2d_periodic': (lambda n: advectionNd(nvars=(n, n), bc='periodic'), True, 2),
    'heat3d_periodic': (lambda n: heatNd_unforced(nvars=(n, n, n), bc='periodic'), True, 3),
    'heat3d_dirichlet': (lambda n: heatNd_unforced(nvars=(n, n, n), bc='dirichlet-zero', freq=1), False, 3),
    'allencahn1d_front_fullyimplicit': (lambda n: allencahn_front_fullyimplicit(nvars=n), False, 1),
    'allencahn1d_front_semiimplicit': (lambda n: allencahn_front_semiimplicit(nvars=n), False, 1),
    'allencahn1d_front_finel': (lambda n: allencahn_front_finel(nvars=n), False, 1),
    'allencahn1d_periodic_fullyimplicit': (lambda n: allencahn_periodic_fullyimplicit(nvars=n), True, 1),
    'allencahn1d_periodic_semiimplicit': (lambda n: allencahn_periodic_semiimplicit(nvars=n), True, 1),
    'allencahn1d_periodic_multiimplicit': (lambda n: allencahn_periodic_multiimplicit(nvars=n), True, 1),
    'allencahn2d_fullyimplicit': (lambda n: allencahn_fullyimplicit(nvars=(n, n)), True, 2),
    'allencahn2d_semiimplicit': (lambda n: allencahn_semiimplicit(nvars=(n, n)), True, 2),
    'allencahn2d_multiimplicit': (lambda n: allencahn_multiimplicit(nvars=(n, n)), True, 2),
    'standin_ncomp2_last_1d_periodic': (lambda n: _standin((n,), True, 2, 'last'), True, 1),
    'standin_ncomp3_first_1d_dirichlet': (lambda n: _standin((n,), False, 3, 'first'), False, 1),
    'standin_ncomp2_last_2d_periodic': (lambda n: _standin((n, n), True, 2, 'last'), True, 2),
    'standin_ncomp2_first_2d_dirichlet': (lambda n: _standin((n, n), False, 2, 'first'), False, 2),
}


def mesh_cases(tier):
    out = []

    def add(problem, nf, orders, nested=(True,), dtypes=('mesh',), same=False):
        periodic = PROBLEMS[problem][1]
        nc = nf if same else nf // 2
        for io, ro in orders:
            for ne in nested:
                out.append({'part': 'mesh', 'problem': problem, 'nf': nf, 'nc': nc, 'iorder': io, 'rorder': ro, 'equidist_nested': ne, 'dtypes': list(dtypes)})

    all_dt = ('mesh', 'imex_mesh', 'comp2_mesh')
    pairs_small = [(2, 2), (4, 2), (2, 4), (6, 6), (8, 2)]
    pairs_all = [(i, r) for i in (2, 4, 6, 8) for r in (2, 4, 6, 8)]
    thorough = tier == 'thorough'
    # 1D, tuple-nvars branch (GenericNDimFinDiff keeps nvars as a tuple)
    for nf in (16, 32) if not thorough else (16, 32, 64):
        add('heat1d_periodic', nf, pairs_all if thorough else pairs_small, nested=(True, False), dtypes=all_dt if nf == 16 else ('mesh',))
        add('heat1d_dirichlet', nf - 1, pairs_all if thorough else pairs_small, nested=(True, False), dtypes=all_dt if nf == 16 else ('mesh',))
    add('heat1d_periodic', 8, [(2, 2), (4, 4)], nested=(True, False))
    # genuinely non-nested grids: non-periodic with 2^k points per direction (dx = 1/(n+1)); only the general path applies
    add('standin_1d_dirichlet_anysize', 16, [(2, 2), (4, 2), (2, 4), (6, 4)], nested=(False,))
    add('standin_2d_dirichlet_anysize', 16, [(2, 2), (4, 2), (2, 4)], nested=(False,), dtypes=('mesh',))
    add('standin_2d_dirichlet_rect', 31, [(2, 2), (4, 2), (4, 4)], nested=(True, False), dtypes=('mesh', 'imex_mesh'))
    add('standin_2d_dirichlet_rect_T', 31, [(2, 2), (4, 2)], nested=(True, False), dtypes=('mesh',))
    add('standin_3d_dirichlet_rect', 15, [(2, 2), (4, 2)], nested=(True, False), dtypes=('mesh',))
    add('heat1d_dirichlet', 7, [(2, 2), (4, 4)], nested=(True, False))
    add('advection1d_periodic', 16, [(2, 2), (6, 4)], nested=(True, False))
    add('heat1d_periodic', 16, [(2, 2)], same=True)
    # 1D, int-nvars branch, problem classes with mesh / imex_mesh / comp2_mesh right-hand sides
    for prob in ('allencahn1d_front_fullyimplicit', 'allencahn1d_front_semiimplicit', 'allencahn1d_front_finel'):
        add(prob, 15, [(2, 2), (4, 2), (6, 6)], nested=(True, False), dtypes=all_dt)
    for prob in ('allencahn1d_periodic_fullyimplicit', 'allencahn1d_periodic_semiimplicit', 'allencahn1d_periodic_multiimplicit'):
        add(prob, 16, [(2, 2), (4, 2), (6, 6)], nested=(True, False), dtypes=all_dt)
    add('allencahn1d_periodic_fullyimplicit', 16, [(2, 2)], same=True)
    # 2D / 3D: Kronecker structure
    add('heat2d_periodic', 16, [(2, 2), (4, 2), (6, 6)] if not thorough else pairs_small + [(8, 8)], nested=(True, False), dtypes=all_dt)
    add('heat2d_dirichlet', 15, [(2, 2), (4, 2), (6, 6)] if not thorough else pairs_small + [(8, 8)], nested=(True, False), dtypes=all_dt)
    add('advection2d_periodic', 16, [(2, 2), (4, 4)])
    add('heat2d_periodic', 8, [(2, 2)], same=True)
    for prob in ('allencahn2d_fullyimplicit', 'allencahn2d_semiimplicit', 'allencahn2d_multiimplicit'):
        add(prob, 16, [(2, 2), (4, 4)], dtypes=all_dt)
    add('heat3d_periodic', 8, [(2, 2)], nested=(True, False), dtypes=all_dt)
    add('heat3d_dirichlet', 7, [(2, 2), (4, 4)] if not thorough else [(2, 2), (4, 4), (4, 2)], nested=(True, False), dtypes=all_dt)
    if thorough:
        add('heat3d_periodic', 16, [(2, 2), (4, 4), (8, 6)], nested=(True, False))
        add('heat3d_dirichlet', 15, [(6, 6)], nested=(True, False))
        add('heat2d_periodic', 32, [(8, 8), (6, 4)], nested=(True, False))
        add('heat2d_dirichlet', 31, [(8, 8), (6, 4)], nested=(True, False))
    # multi-component problems (ncomp), both layouts
    for prob in ('standin_ncomp2_last_1d_periodic', 'standin_ncomp2_last_2d_periodic'):
        add(prob, 16, [(2, 2), (4, 2)], dtypes=all_dt)
    add('standin_ncomp3_first_1d_dirichlet', 15, [(2, 2), (4, 2)], dtypes=all_dt)
    add('standin_ncomp2_first_2d_dirichlet', 15, [(2, 2), (4, 2)], dtypes=all_dt)
    return out


def _kron_all(mats):
    out = mats[0]
    for m in mats[1:]:
        out = np.kron(out, m)
    return out


def _make_data(dt, prob):
    return DTYPES[dt](prob.init, val=0.0)


def _comp_views(x, dt, prob):
    """list of (label, ndarray view of one scalar field with shape nvars)"""
    comps = [(None, x)] if dt == 'mesh' else [(c, x.view(np.ndarray)[i]) for i, c in enumerate(type(x).components)]
    out = []
    nc_ = getattr(prob, 'ncomp', None)
    nv = prob.nvars if isinstance(prob.nvars, tuple) else (prob.nvars,)
    for label, arr in comps:
        arr = arr.view(np.ndarray)
        if nc_ is None:
            out.append(((label, None), arr))
        else:
            for i in range(nc_):
                out.append(((label, i), arr[..., i] if arr.shape[-1] == nc_ and arr.shape[:-1] == nv else arr[i, ...]))
    return out


def eval_mesh(case):
    res = Res(case)
    entry = PROBLEMS[case['problem']]
    ctor, periodic, ndim = entry[:3]
    dimsf = entry[3] if len(entry) > 3 else (lambda n: (n,) * ndim)  # grid points per direction
    nf, nc, io, ro = case['nf'], case['nc'], case['iorder'], case['rorder']
    df, dc = dimsf(nf), dimsf(nc)
    try:
        pf, pc = ctor(nf), ctor(nc)
    except Exception as e:
        res.d['outcome'] = 'problem_not_buildable'
        res.d['notes']['error'] = _exc(e)
        return res.d
    # oracle operators, one per direction
    if nf == nc:
        P1s = R1s = [np.eye(n) for n in df]
    else:
        oPs, oRs = [_oracle_1d(a, b, io, periodic) for a, b in zip(df, dc)], [_oracle_1d(a, b, ro, periodic) for a, b in zip(df, dc)]
        if any(o is None for o in oPs + oRs):
            try:
                mesh_to_mesh(pf, pc, {'iorder': io, 'rorder': ro, 'periodic': periodic, 'equidist_nested': case['equidist_nested']})
                res.d['outcome'] = 'order_not_servable_but_object_built'
            except Exception as e:
                res.d['outcome'] = 'raised_order_not_servable'
            return res.d
        P1s = [o[0] for o in oPs]
        R1s = [0.5 * o[0].T for o in oRs]
        aR1s = [0.5 * np.array(oi.dense_abs_rowsum(o[2])) for o in oRs]  # per fine point
    try:
        T = mesh_to_mesh(pf, pc, {'iorder': io, 'rorder': ro, 'periodic': periodic, 'equidist_nested': case['equidist_nested']})
    except REFUSALS as e:
        res.d['outcome'] = 'refused'
        res.d['notes']['error'] = _exc(e)
        return res.d
    except Exception as e:
        res.d['outcome'] = 'raised'
        res.fail('exception', {'error': _exc(e)}, op='__init__')
        return res.d
    Pref = _kron_all(P1s)
    Rref = _kron_all(R1s)
    # tolerance of a Kronecker entry: d * C*eps*order * product of the absolute row sums of the 1D factors
    if nf == nc:
        tolP = np.zeros(Pref.shape[0])
        tolRcol = np.zeros(Rref.shape[1])
    else:
        aPs = [np.array(oi.dense_abs_rowsum(o[2])) for o in oPs]
        tolP = ndim * C * EPS * io * _kron_all(aPs)  # per fine point (row of P)
        tolRcol = ndim * C * EPS * max(ro, 1) * _kron_all(aR1s)  # per fine point (column of R)
    Pm, Rm = T.Pspace.toarray(), T.Rspace.toarray()
    apply_ref = {'Pspace': Pref, 'Rspace': Rref}
    for name, A, ref, tol in (('Pspace', Pm, Pref, tolP[:, None] * np.ones_like(Pref)), ('Rspace', Rm, Rref, tolRcol[None, :] * np.ones_like(Rref))):
        if A.shape != ref.shape:
            res.fail('mesh_operator_shape', {'shape': list(A.shape), 'expected': list(ref.shape)}, matrix=name)
            return res.d
        w, idx = res.cmp_arrays('mesh_' + name + '_vs_kron_oracle', A, ref, tol)
        if w > 1:
            res.fail('mesh_operator_entry', {'index': idx, 'observed': float(A[tuple(idx)]), 'expected': float(ref[tuple(idx)]), 'err_over_tol': w, 'max_abs_entry_observed': float(np.abs(A).max())}, matrix=name)
            # one cause, one violation: the apply path below is then judged against the object's own (wrong) matrix
            apply_ref[name] = A
    res.d['nontrivial'] = nf != nc
    Pref, Rref = apply_ref['Pspace'], apply_ref['Rspace']

    # ---- restrict()/prolong() on basis inputs, for the requested data type -----------------------------------------------
    for dt, (op, src_prob, dst_prob, ref, tolrow) in itertools.product(case['dtypes'], (('prolong', pc, pf, Pref, tolP), ('restrict', pf, pc, Rref, None))):
        fn = getattr(T, op)
        nsrc = ref.shape[1]
        nv_dst = dst_prob.nvars if isinstance(dst_prob.nvars, tuple) else (dst_prob.nvars,)
        x0 = _make_data(dt, src_prob)
        try:
            y0 = fn(x0)
        except TransferError as e:
            res.d['notes'][op] = 'refused: ' + _exc(e)
            continue
        except Exception as e:
            res.fail('exception', {'error': _exc(e)}, op=op, dtype=dt)
            continue
        if type(y0) is not type(x0):
            res.fail('type_not_preserved', {'input': type(x0).__name__, 'output': type(y0).__name__}, op=op, dtype=dt)
            continue
        if np.shape(y0) != np.shape(_make_data(dt, dst_prob)):
            res.fail('shape_not_preserved', {'output': list(np.shape(y0)), 'expected': list(np.shape(_make_data(dt, dst_prob)))}, op=op, dtype=dt)
            continue
        if np.any(np.asarray(y0) != 0):
            res.fail('zero_not_mapped_to_zero', {}, op=op, dtype=dt)
        views = _comp_views(x0, dt, src_prob)
        bad = {}
        for ci, (clabel, _) in enumerate(views):
            for j in range(nsrc):
                x = _make_data(dt, src_prob)
                xv = _comp_views(x, dt, src_prob)[ci][1]
                xv[np.unravel_index(j, xv.shape)] = 1.0
                xcopy = np.array(x, copy=True)
                y = fn(x)
                if type(y) is not type(x):
                    bad.setdefault('type_not_preserved', {'input': type(x).__name__, 'output': type(y).__name__})
                    break
                if np.shares_memory(y, x) or np.any(np.asarray(x) != xcopy):
                    bad.setdefault('aliasing', {'component': list(clabel), 'index': j})
                yv = _comp_views(y, dt, dst_prob)
                for cj, (lab2, arr) in enumerate(yv):
                    if cj == ci:
                        col = ref[:, j].reshape(nv_dst)
                        tl = (tolrow.reshape(nv_dst) if tolrow is not None else tolRcol[j] * np.ones(nv_dst)) + 0.0
                        w, idx = res.cmp_arrays(f'mesh_{op}_unit_vectors', arr, col, tl)
                        if w > 1 and 'values' not in bad:
                            bad['values'] = {'component': list(clabel), 'input_index': j, 'output_index': idx, 'observed': float(arr[tuple(idx)]), 'expected': float(col[tuple(idx)]), 'err_over_tol': w}
                    elif np.any(arr != 0):
                        bad.setdefault('component_leak', {'input_component': list(clabel), 'output_component': list(lab2), 'input_index': j})
        for kind, detail in bad.items():
            res.fail('mesh_' + kind if kind in ('values', 'component_leak', 'aliasing') else kind, detail, op=op, dtype=dt)
        # additivity / generic data: one input with all components filled from the fixed pool
        x = _make_data(dt, src_prob)
        vs = _comp_views(x, dt, src_prob)
        for ci, (_, xv) in enumerate(vs):
            xv[...] = _pool(xv.size, f'{op}{ci}').reshape(xv.shape)
        y = fn(x)
        for (lab, xv), (_, yv) in zip(_comp_views(x, dt, src_prob), _comp_views(y, dt, dst_prob)):
            want = (ref @ xv.reshape(-1)).reshape(nv_dst)
            mag = (np.abs(ref) @ np.abs(xv.reshape(-1))).reshape(nv_dst)
            rowfac = (tolrow.reshape(nv_dst) if tolrow is not None else float(np.max(tolRcol)) * np.ones(nv_dst))
            tl = C * EPS * ndim * 8 * mag + rowfac * float(np.abs(xv).sum())
            w, idx = res.cmp_arrays(f'mesh_{op}_generic', yv, want, tl)
            if w > 1:
                res.fail('mesh_generic_data', {'component': list(lab), 'output_index': idx, 'observed': float(yv[tuple(idx)]), 'expected': float(want[tuple(idx)]), 'err_over_tol': w}, op=op, dtype=dt)
    return res.d


# ======================================================================================================== part: fft
def fft_cases(tier):
    out = []
    for nc in (4, 8, 16) if tier == 'quick' else (4, 8, 16, 32, 64):
        for dt in ('mesh', 'imex_mesh', 'comp2_mesh'):
            out.append({'part': 'fft', 'transfer': 'mesh_to_mesh_fft', 'nf': 2 * nc, 'nc': nc, 'dtype': dt})
    for nc in (4, 8) if tier == 'quick' else (4, 8, 16):
        for dt in ('mesh', 'imex_mesh', 'comp2_mesh'):
            out.append({'part': 'fft', 'transfer': 'mesh_to_mesh_fft2d', 'nf': 2 * nc, 'nc': nc, 'dtype': dt})
    return out


def eval_fft(case):
    res = Res(case)
    nf, nc, dt = case['nf'], case['nc'], case['dtype']
    two_d = case['transfer'] == 'mesh_to_mesh_fft2d'
    if two_d:
        pf, pc = allencahn2d_imex(nvars=(nf, nf)), allencahn2d_imex(nvars=(nc, nc))
        T = mesh_to_mesh_fft2d(pf, pc, {})
        shape_c, shape_f = (nc, nc), (nf, nf)
    else:
        pf, pc = advectiondiffusion1d_imex(nvars=nf), advectiondiffusion1d_imex(nvars=nc)
        T = mesh_to_mesh_fft(pf, pc, {})
        shape_c, shape_f = (nc,), (nf,)
    ndim = len(shape_c)
    comps = [None] if dt == 'mesh' else DTYPES[dt].components
    logn = float(np.log2(nf)) * ndim
    tol_unit = C * EPS * logn  # |data| <= 1 everywhere below

    def view(x, c):
        # a component is read from its slot of the array itself (what arithmetic, copies and np.asarray see), and the
        # attribute of that name has to be that slot
        if c is None:
            return x.view(np.ndarray)
        slot = x.view(np.ndarray)[type(x).components.index(c)]
        named = np.asarray(getattr(x, c))
        if named.shape != slot.shape or np.any(named != slot) or not np.shares_memory(named, slot):
            res.fail('component_name_not_its_slot', {'component': c, 'slot_max': float(np.max(np.abs(slot))) if slot.size else 0.0, 'attribute_max': float(np.max(np.abs(named))) if named.size else 0.0}, op='result')
        return slot

    # ---- does the class accept the data type at all? ------------------------------------------------------------------
    for op, src, dst in (('restrict', pf, pc), ('prolong', pc, pf)):
        x0 = DTYPES[dt](src.init, val=0.0)
        try:
            y0 = getattr(T, op)(x0)
        except TransferError as e:
            res.d['notes'][op] = 'refused: ' + _exc(e)
            res.d['outcome'] = 'refused'
            continue
        except Exception as e:
            res.fail('exception', {'error': _exc(e)}, op=op)
            continue
        if type(y0) is not type(x0):
            res.fail('type_not_preserved', {'input': type(x0).__name__, 'output': type(y0).__name__}, op=op)
        elif np.shape(y0) != np.shape(DTYPES[dt](dst.init, val=0.0)):
            res.fail('shape_not_preserved', {'output': list(np.shape(y0)), 'expected': list(np.shape(DTYPES[dt](dst.init, val=0.0)))}, op=op)
        elif np.any(np.asarray(y0) != 0):
            res.fail('zero_not_mapped_to_zero', {}, op=op)
    if res.d['fails'] or res.d['outcome'] == 'refused':
        return res.d
    res.d['nontrivial'] = True

    def put(src, c, arr):
        x = DTYPES[dt](src.init, val=0.0)
        view(x, c)[...] = arr
        return x

    bad = {}
    for c in comps:
        others = [o for o in comps if o != c]
        # restriction is injection: every fine unit vector
        for j in range(int(np.prod(shape_f))):
            e = np.zeros(shape_f)
            e.reshape(-1)[j] = 1.0
            x = put(pf, c, e)
            y = T.restrict(x)
            want = e[::2, ::2] if two_d else e[::2]
            res.d['ncmp'] += want.size
            if np.any(view(y, c) != want) and 'injection' not in bad:
                bad['injection'] = ('fft_restrict_not_injection', {'component': c, 'input_index': j}, 'restrict')
            if any(np.any(view(y, o) != 0) for o in others) and 'leak_r' not in bad:
                bad['leak_r'] = ('fft_component_leak', {'component': c, 'input_index': j}, 'restrict')
            if np.shares_memory(y, x) and 'alias_r' not in bad:
                bad['alias_r'] = ('fft_aliasing', {'component': c}, 'restrict')
        # band-limited data: every Fourier mode strictly below the coarse Nyquist index is reproduced
        if two_d:
            modes = [(k, l, kind) for k in range(-(nc // 2) + 1, nc // 2) for l in range(-(nc // 2) + 1, nc // 2) for kind in ('cos', 'sin')]
        else:
            modes = [(k, kind) for k in range(0, nc // 2) for kind in ('cos', 'sin')]
        for m in modes:
            gc = oi.trig_mode2d(nc, *m) if two_d else oi.trig_mode(nc, *m)
            gf = oi.trig_mode2d(nf, *m) if two_d else oi.trig_mode(nf, *m)
            y = T.prolong(put(pc, c, gc))
            if type(y).__name__ != dt:
                bad.setdefault('type_p', ('type_not_preserved', {'output': type(y).__name__}, 'prolong'))
                break
            w, idx = res.cmp_arrays('fft_mode_reproduction', view(y, c), gf, tol_unit * np.ones(shape_f))
            if w > 1 and 'mode' not in bad:
                bad['mode'] = ('fft_band_limited_not_reproduced', {'component': c, 'mode': list(m), 'output_index': idx, 'observed': float(view(y, c)[tuple(idx)]), 'expected': float(gf[tuple(idx)]), 'err_over_tol': w}, 'prolong')
            if any(np.any(view(y, o) != 0) for o in others) and 'leak_p' not in bad:
                bad['leak_p'] = ('fft_component_leak', {'component': c, 'mode': list(m)}, 'prolong')
        # injection after prolongation returns the coarse data: every coarse unit vector
        for j in range(int(np.prod(shape_c))):
            e = np.zeros(shape_c)
            e.reshape(-1)[j] = 1.0
            x = put(pc, c, e)
            y = T.prolong(x)
            z = T.restrict(y)
            w, idx = res.cmp_arrays('fft_restrict_after_prolong', view(z, c), e, tol_unit * np.ones(shape_c))
            if w > 1 and 'rp' not in bad:
                bad['rp'] = ('fft_restrict_after_prolong_not_identity', {'component': c, 'input_index': j, 'output_index': idx, 'observed': float(view(z, c)[tuple(idx)]), 'expected': float(e[tuple(idx)]), 'err_over_tol': w}, 'prolong')
            if np.shares_memory(y, x) and 'alias_p' not in bad:
                bad['alias_p'] = ('fft_aliasing', {'component': c}, 'prolong')
    for kind, detail, op in bad.values():
        res.fail(kind, detail, op=op)
    # additivity probe: two modes plus a unit vector, all components filled
    if 'type_p' not in bad:
        x = DTYPES[dt](pc.init, val=0.0)
        parts = []
        for ci, c in enumerate(comps):
            coef = _pool(2, f'fft{ci}')
            m1, m2 = ((1, 0, 'cos'), (0, 1, 'sin')) if two_d else ((1, 'cos'), (1, 'sin'))
            mk = (lambda n, m: oi.trig_mode2d(n, *m)) if two_d else (lambda n, m: oi.trig_mode(n, *m))
            view(x, c)[...] = coef[0] * mk(nc, m1) + coef[1] * mk(nc, m2)
            parts.append(coef[0] * mk(nf, m1) + coef[1] * mk(nf, m2))
        y = T.prolong(x)
        for c, want in zip(comps, parts):
            w, idx = res.cmp_arrays('fft_additivity', view(y, c), want, 4 * tol_unit * np.ones(shape_f))
            if w > 1:
                res.fail('fft_additivity', {'component': c, 'err_over_tol': w}, op='prolong')
    return res.d


# ======================================================================================================== part: nocoarse
def nocoarse_cases(tier):
    out = [{'part': 'nocoarse', 'transfer': 'TransferMesh_NoCoarse', 'dtype': dt, 'shape': sh} for dt in ('mesh', 'imex_mesh', 'comp2_mesh') for sh in ([8], [4, 4])]
    out += [{'part': 'nocoarse', 'transfer': 'TransferParticles_NoCoarse', 'dtype': dt, 'shape': sh} for dt in ('particles', 'fields', 'acceleration') for sh in ([3, 1], [3, 4])]
    return out


def _flat_parts(x):
    if isinstance(x, particles):
        return {'pos': x.pos, 'vel': x.vel, 'q': x.q, 'm': x.m}
    if isinstance(x, fields):
        return {'elec': x.elec, 'magn': x.magn}
    return {'data': x}


def eval_nocoarse(case):
    res = Res(case)
    shape = tuple(case['shape'])
    init = (shape if len(shape) > 1 else shape[0], None, np.dtype('float64'))
    prob = NS(init=init, nvars=shape)
    if case['transfer'] == 'TransferMesh_NoCoarse':
        T = mesh_to_mesh_nocoarse(prob, prob, {})
        x = DTYPES[case['dtype']](init, val=0.0)
    else:
        T = particles_to_particles(prob, prob, {})
        x = {'particles': particles, 'fields': fields, 'acceleration': acceleration}[case['dtype']](init, val=0.0)
    k = 0
    for name, arr in _flat_parts(x).items():
        a = np.asarray(arr)
        a[...] = _pool(a.size, name).reshape(a.shape) + k
        k += 1
    snap = {n: np.array(a, copy=True) for n, a in _flat_parts(x).items()}
    res.d['nontrivial'] = True
    for op in ('restrict', 'prolong'):
        try:
            y = getattr(T, op)(x)
        except TransferError as e:
            res.d['notes'][op] = 'refused: ' + _exc(e)
            res.d['outcome'] = 'refused'
            continue
        except Exception as e:
            res.fail('exception', {'error': _exc(e)}, op=op)
            continue
        if type(y) is not type(x):
            res.fail('type_not_preserved', {'input': type(x).__name__, 'output': type(y).__name__}, op=op)
            continue
        py, px = _flat_parts(y), _flat_parts(x)
        for n in px:
            res.d['ncmp'] += int(np.size(px[n]))
            if np.shape(py[n]) != np.shape(px[n]) or np.any(np.asarray(py[n]) != snap[n]):
                res.fail('nocoarse_not_identity', {'part': n}, op=op)
            elif np.shares_memory(np.asarray(py[n]), np.asarray(px[n])):
                res.fail('nocoarse_shared_storage', {'part': n}, op=op)
            else:
                np.asarray(py[n])[...] += 1.0  # writing to the result must not reach the input
                if np.any(np.asarray(px[n]) != snap[n]):
                    res.fail('nocoarse_shared_storage', {'part': n, 'how': 'write-through'}, op=op)
    return res.d


# ======================================================================================================== driver
EVAL = {'time': eval_time, 'space1d': eval_space1d, 'mesh': eval_mesh, 'fft': eval_fft, 'nocoarse': eval_nocoarse}


def evaluate(case):
    try:
        return EVAL[case['part']](case)
    except Exception as e:  # a crash of the harness on one case must not be mistaken for a verdict
        import traceback

        return {'case': case, 'outcome': 'checker_error', 'fails': [], 'ratio': {}, 'ncmp': 0, 'nontrivial': False, 'notes': {'traceback': traceback.format_exc()[-1500:]}}


def plan(tier):
    return time_cases(tier) + space1d_cases(tier) + mesh_cases(tier) + fft_cases(tier) + nocoarse_cases(tier)


def _size(case):
    return (case.get('nf', 0) + case.get('nc', 0), case.get('order', 0), case.get('iorder', 0) + case.get('rorder', 0), len(common.canon(case)))


def run(rep, tier):
    rep.assumptions += [
        'time: node sets are the float nodes CollBase reports on (0, 1); the oracle evaluates the Lagrange basis through them in mpmath (50 digits) and never calls qmat',
        'space: grids are the dyadic rationals i/n resp. (i+1)/(n+1) (exactly representable, asserted), oracle in fractions.Fraction',
        'n-D operators are compared with Kronecker products of the ORACLE 1D matrices, not of the implementation',
        'multi-component problems (ncomp) are represented by stand-in problem objects exposing nvars, dx, init, ncomp (no such problem class is importable without mpi4py-fft)',
        'domain of the spatial clauses: order <= number of coarse points (periodic) resp. <= coarse points + 2 boundary points; outside it, and for explicit refusals (TransferError, precondition asserts), raised exceptions are counted, not judged; any other exception inside the domain is a violation',
        'refinement ratio 2 only; FFT transfers on AdvectionDiffusion 1D / AllenCahn 2D FFT problems',
    ]
    cases = plan(tier)
    order = list(range(len(cases)))
    common.rng('c11').shuffle(order)
    results = common.pmap(evaluate, [cases[i] for i in order], chunksize=2)
    errors = [r for r in results if r['outcome'] == 'checker_error']
    if errors:
        raise RuntimeError('checker error on case %s\n%s' % (common.canon(errors[0]['case']), errors[0]['notes']['traceback']))

    # report: all failing members, simplest first; at most 3 not-yet-known signatures per (kind, part, transfer/fn/op)
    known = {common.canon(k.get('signature')) for k in rep.known if k.get('status') == 'known'}
    per_group, counts = {}, {}
    for r in sorted(results, key=lambda r: _size(r['case'])):
        for sig, detail in r['fails']:
            g = (sig['kind'], r['case']['part'], r['case'].get('transfer') or r['case'].get('fn') or '', sig.get('op') or sig.get('matrix') or '')
            counts['/'.join(g)] = counts.get('/'.join(g), 0) + 1
            if common.canon(common.jsonable(sig)) in known:
                rep.violation(sig, detail, replay=r['case'])
            elif per_group.get(g, 0) < 3:
                per_group[g] = per_group.get(g, 0) + 1
                rep.violation(sig, detail, replay=r['case'])

    worst = {}
    for r in results:
        if r['fails']:
            continue
        for k, v in r['ratio'].items():
            if v > worst.get(k, (-1, None))[0]:
                worst[k] = (v, r['case'])
    wmax = max((v[0] for v in worst.values()), default=0.0)
    parts = {}
    for r in results:
        p = parts.setdefault(r['case']['part'], {'cases': 0, 'nontrivial': 0, 'outcomes': {}, 'float_comparisons': 0, 'failing_cases': 0})
        p['cases'] += 1
        p['nontrivial'] += bool(r['nontrivial'])
        p['outcomes'][r['outcome']] = p['outcomes'].get(r['outcome'], 0) + 1
        p['float_comparisons'] += r['ncmp']
        p['failing_cases'] += bool(r['fails'])
    raised = sorted({common.canon(r['case']) for r in results if r['outcome'].startswith('raised') or r['outcome'] == 'refused'})
    rep.coverage.update(
        {
            'evaluations': len(results),
            'distinct_nontrivial': len({common.canon(r['case']) for r in results if r['nontrivial']}),
            'rule': 'every member of the five case lists once (time: ordered node-set pairs; space1d: (function, bc, size, order, nested); mesh: (problem, size, orders, nested, dtype) with all unit vectors of all components; fft: (class, size, dtype) with all modes and unit vectors; nocoarse: (class, dtype, shape)); non-trivial = operators differ from the identity and at least one comparison against the oracle was made',
            'exhaustive': True,
            'parts': parts,
            'failing_members_by_group': counts,
            'failing_signatures': [sig for r in sorted(results, key=lambda r: _size(r['case'])) for sig, _ in r['fails']][:300],
            'not_judged_raised_or_refused': [__import__('json').loads(s) for s in raised][:60],
            'not_judged_count': len(raised),
            'worst_err_over_tol': {k: {'ratio': v[0], 'case': v[1]} for k, v in sorted(worst.items())},
            'worst_headroom': (1.0 / wmax) if wmax > 0 else None,
            'tolerance': 'C=50. time entry: C*(nS*eps*(1+Lambda(t_i))*|l_j(t_i)| + first-order effect of one rounding (ulp+eps) of every node); space entry: C*eps*order*sum_j|P_ij| per row; n-D: ndim * that with Kronecker products of the row sums; fft: C*eps*log2(n)*ndim for data bounded by 1; identities (injection, zero, type, storage) exact',
            'samples': [results[i]['case'] for i in range(0, len(results), max(1, len(results) // 6))][:6],
        }
    )


def replay(rep, case):
    r = evaluate(case)
    if r['outcome'] == 'checker_error':
        raise RuntimeError(r['notes']['traceback'])
    for sig, detail in r['fails']:
        rep.violation(sig, detail, replay=r['case'])
