"""C08 — MPI-parallel variants equal their serial counterparts under every schedule (engine E3)."""

import itertools

from vf import common
from vf.engine import simmpi

simmpi.install()

from vf.engine import explore  # noqa: E402
from vf.env import mpiharness as mh  # noqa: E402
from vf.props import _e1  # noqa: E402

LEVEL = 'model_checking'

BASES = {
    'mssdc': dict(kind='time', P=3, L=1, nsteps=4, maxiter=3),
    'pfasst': dict(kind='time', P=3, L=2, predict='pfasst_burnin', nsteps=4, maxiter=3),
    'nodes': dict(kind='nodes', M=3, QI='MIN-SR-S', nsteps=2, maxiter=3),
    'nodes_ml': dict(kind='nodes', M=3, L=2, problem='heat', QI='MIN', nsteps=2, maxiter=2),
}
# time x node process grid (controller_MPI over the time communicator, node-parallel sweeper over the node communicator)
BASE_ST = dict(kind='spacetime', P=2, M=2, QI='MIN', nsteps=3, maxiter=2)
# one rank in time, three node ranks, two levels, end value by the collocation update: the only set-up in which a level
# that carries a FAS correction computes its end value on node-parallel sweepers (the multi-step guard forbids P > 1 here)
BASE_ST1 = dict(kind='spacetime', P=1, M=3, L=2, problem='heat', QI='MIN', nsteps=2, maxiter=2, do_coll_update=True)
DIMS_ST = {
    'jac': [True, False],
    'P': [2, 3],
    'M': [2, 3],
    'L': [1, 2],
    'all_to_done': [False, True],
    'problem': ['dahlquist', 'heat', 'imex'],
    'QI': ['MIN', 'IEpar', 'MIN-SR-S'],
    'residual_type': ['full_abs', 'last_rel'],
    'initial_guess': ['spread', 'zero'],
    'restol': [1e-8, 1e-3, -1.0],
    'maxiter': [2, 1, 4],
    'nsteps': [3, 2, 5],
    'predict': [None, 'pfasst_burnin'],
    'do_coll_update': [False, True],
    'quad': [('RADAU-RIGHT',), ('LOBATTO',), ('GAUSS',), ('RADAU-RIGHT', 'LOBATTO'), ('LOBATTO', 'RADAU-RIGHT')],
}

DIMS_TIME = {
    'P': [3, 1, 2, 4],
    'L': [1, 2, 3],
    'predict': [None, 'fine_only', 'pfasst_burnin'],
    'jac': [True, False],
    'all_to_done': [False, True],
    'problem': ['dahlquist', 'heat', 'imex'],
    'residual_type': ['full_abs', 'last_abs', 'full_rel', 'last_rel'],
    'initial_guess': ['spread', 'zero', 'copy'],
    'restol': [1e-8, 1e-3, -1.0],
    'maxiter': [3, 1, 6],
    'nsteps': [4, 3, 5, 7],
    'nsweeps': [1, 2],
    'QI': ['LU', 'IE', 'MIN-SR-S'],
    'finter': [False, True],
    'quad': [('RADAU-RIGHT',), ('LOBATTO',), ('GAUSS',), ('RADAU-RIGHT', 'LOBATTO'), ('LOBATTO', 'RADAU-RIGHT')],
    'node_type': [('LEGENDRE',), ('LEGENDRE', 'EQUID')],
}
DIMS_NODES = {
    'M': [3, 1, 2, 4],
    'L': [1, 2],
    'QI': ['MIN-SR-S', 'IEpar', 'MIN', 'MIN-SR-NS', 'Qpar'],
    'problem': ['dahlquist', 'heat', 'imex'],
    'residual_type': ['full_abs', 'last_abs', 'full_rel', 'last_rel'],
    'initial_guess': ['spread', 'zero', 'copy'],
    'restol': [1e-8, 1e-3, -1.0],
    'maxiter': [3, 1, 6],
    'nsteps': [2, 1, 3],
    'finter': [False, True],
    'do_coll_update': [False, True],
    'quad': [('RADAU-RIGHT',), ('LOBATTO',), ('GAUSS',), ('RADAU-RIGHT', 'LOBATTO'), ('LOBATTO', 'RADAU-RIGHT')],
    'node_type': [('LEGENDRE',), ('LEGENDRE', 'EQUID')],
}


def fix(c):
    """derived settings / legality"""
    c = dict(c)
    if c['problem'] == 'imex':
        c['sweeper'] = 'imex'
    if c['L'] == 1:
        # one level: only the first entry of a per-level list matters
        c['quad'], c['node_type'] = tuple(c['quad'][:1]), tuple(c['node_type'][:1])
    # a LOBATTO rule needs two nodes (time-parallel hierarchies lose one node per level, the others keep M)
    for lev in range(c['L']):
        n_nodes = c['M'] - lev if (c['kind'] == 'time' and c['L'] > 1) else c['M']
        if c['quad'][min(lev, len(c['quad']) - 1)] == 'LOBATTO' and n_nodes < 2:
            return None
    if c['kind'] in ('time', 'spacetime') and c['P'] > 1 and 'GAUSS' in c['quad']:
        return None  # refused at construction (several steps need the right end point as node); C20's subject
    if c['kind'] in ('time', 'spacetime') and c['P'] > 1 and c['L'] > 1 and c.get('do_coll_update'):
        # controller_MPI refuses a collocation update in multi-level multi-step runs at construction ("we assume
        # uend^k = u_M^k"; the serial controller only tests the node type): a documented refusal, outside the quantifier
        return None
    if c['kind'] == 'time':
        if c['L'] == 1:
            c['predict'] = None if c['predict'] is None else c['predict']
        if c['M'] - (c['L'] - 1) < 1:
            return None
        if c['nsweeps'] > 1 and c['L'] == 1 and not c['jac']:
            # single-level Gauss-Seidel sweeps on the 'coarsest' (only) level: controller_MPI asserts one sweep there
            # (its documented contract), the serial controller silently performs one; outside the quantifier
            return None
    if c['kind'] == 'nodes':
        if c['sweeper'] == 'imex' and c['QI'] in ('Qpar',):
            pass
    return c


def ball(base, dims, radius):
    b = mh.default_cfg(**base)
    out, seen = [], set()
    names = list(dims)
    for r in range(radius + 1):
        for which in itertools.combinations(names, r):
            for vals in itertools.product(*[[v for v in dims[d] if v != b[d]] for d in which]):
                c = dict(b)
                c.update(dict(zip(which, vals)))
                c = fix(c)
                if c is None:
                    continue
                key = common.canon(c)
                if key not in seen:
                    seen.add(key)
                    out.append(c)
    return out


MODES = [dict(eager=False, early=False), dict(eager=True, early=True), dict(eager=True, early=False), dict(eager=False, early=True)]


def make(cfg):
    return mh.MPIRun(cfg)


def adaptive_scripts(base, max_rej):
    """All rejection scripts with <= max_rej rejections placed at any attempt of the serial history (deterministic)."""
    cfgs = []
    b = mh.default_cfg(**base)
    b.update(adaptive={'e_tol': 1.0}, restol=-1.0, jac=False)
    frontier = [{}]
    seen = set()
    for depth in range(max_rej + 1):
        nxt = []
        for script in frontier:
            key = common.canon(sorted(script.items()))
            if key in seen:
                continue
            seen.add(key)
            c = dict(b)
            c['script'] = [[list(k), v] for k, v in script.items()]
            c['script'] = [(tuple(k), v) for k, v in script.items()]
            cfgs.append(c)
            if depth == max_rej:
                continue
            ser = mh.run_serial(c)
            if 'error' in ser:
                continue
            for row in ser['stats']['dt']:
                t, dt = round(row[0], 9), round(float(row[3]), 9)
                if (t, dt) not in script:
                    s2 = dict(script)
                    s2[(t, dt)] = 2.0
                    nxt.append(s2)
        frontier = nxt
    return cfgs


def run(rep, tier):
    rep.assumptions += [
        'simulated mpi4py (vf/engine/simmpi.py): ranks are threads of one interpreter run one at a time; every MPI call is a scheduling point; non-overtaking matching, synchronous-mode Issend, standard-mode sends eager or rendezvous, collectives synchronising or early-return',
        'a deviation = any departure from the canonical scheduler (running rank continues while enabled, else lowest enabled rank)',
        'excluded as the property says: use_iteration_estimator (Ibcast / Test timing)',
    ]
    plan = []
    radius = 1 if tier == 'quick' else 2
    time_ball = [c for name in ('mssdc', 'pfasst') for c in ball(BASES[name], DIMS_TIME, radius)]
    node_ball = [c for name in ('nodes', 'nodes_ml') for c in ball(BASES[name], DIMS_NODES, 1 if tier == 'quick' else 2)]
    # (1) canonical schedule on the whole ball, all four completion modes
    ball_cfgs = []
    for c in time_ball + node_ball:
        for m in (MODES if tier == 'thorough' else MODES[:2]):
            cc = dict(c)
            cc.update(m)
            ball_cfgs.append(cc)
    # residual type x quadrature type on the node-parallel bases (the last-node residual is a different code path of the
    # node-parallel sweepers, and it differs from the full one exactly on rules without the right end point)
    seen_b = {common.canon(c) for c in ball_cfgs}
    for name in ('nodes', 'nodes_ml'):
        for rt in DIMS_NODES['residual_type']:
            for q in DIMS_NODES['quad']:
                c = fix(dict(mh.default_cfg(**BASES[name]), residual_type=rt, quad=q))
                if c is not None:
                    cc = dict(c, **MODES[0])
                    if common.canon(cc) not in seen_b:
                        seen_b.add(common.canon(cc))
                        ball_cfgs.append(cc)
    plan.append(('configuration ball (+ residual type x quadrature type on the node-parallel bases), canonical schedule', ball_cfgs, 0))
    # (2) restarts / adaptivity: every rejection script with <= 1 (2) rejections, both restart modes
    ad = []
    for ff in (False, True):
        for P in ((2, 3) if tier == 'quick' else (2, 3, 4)):
            base = dict(BASES['mssdc'], P=P, nsteps=2 * P, maxiter=2, restarting={'max_restarts': 2, 'restart_from_first_step': ff})
            ad += adaptive_scripts(base, 1 if tier == 'quick' else 2)
        # exhausting the retry budget needs max_restarts + 1 rejections in a row
        for mr in (0, 1):
            for crash in (True, False):
                base = dict(BASES['mssdc'], P=2, nsteps=4, maxiter=2, restarting={'max_restarts': mr, 'restart_from_first_step': ff, 'crash_after_max_restarts': crash})
                ad += adaptive_scripts(base, 2)
        if tier == 'thorough':
            base = dict(BASES['mssdc'], P=3, nsteps=5, maxiter=2, restarting={'max_restarts': 1, 'restart_from_first_step': ff})
            ad += adaptive_scripts(base, 3)
    for c in list(ad):
        c2 = dict(c)
        c2.update(MODES[1])
        ad.append(c2)
    plan.append(('rejection scripts (scripted estimates), canonical schedule', ad, 0))
    # (2b) the shipped embedded error estimators (standard and linearized flavour), nothing scripted
    real = []
    for P in (2, 3):
        for flavor in ('standard', 'linearized'):
            for tol in (1e-3, 1e-5):
                for m in MODES[:2]:
                    c = mh.default_cfg(kind='time', P=P, nsteps=2 * P + 1, maxiter=3, jac=False, restol=-1.0, dt=0.2, adaptive={'e_tol': tol, 'embedded_error_flavor': flavor}, real_estimate=True, restarting={'max_restarts': 3})
                    c.update(m)
                    real.append(c)
    # node-parallel sweepers under the shipped Adaptivity (absolute and relative error): the estimate is formed from
    # quantities that live on different node ranks
    for kind, extra in (('nodes', {}), ('spacetime', {'P': 2})):
        for M in (2, 3):
            for rel in (False, True):
                for tol in ((1e-3,) if tier == 'quick' else (1e-3, 1e-5)):
                    for m in MODES[:2]:
                        c = mh.default_cfg(kind=kind, M=M, QI='MIN', nsteps=4, maxiter=3, jac=False, restol=-1.0, dt=0.2, adaptive={'e_tol': tol, 'rel_error': rel}, real_estimate=True, restarting={'max_restarts': 3}, **extra)
                        c.update(m)
                        real.append(c)
    plan.append(('real embedded error estimators (standard / linearized flavour; node-parallel sweepers with absolute / relative error), canonical schedule', real, 0))
    # (3) all schedules with <= 1 deviation on the base configurations (thorough: <= 2 on the smallest)
    sched = []
    for name in BASES:
        for m in (MODES[:2] if tier == 'quick' else MODES):
            c = mh.default_cfg(**BASES[name])
            c.update(m)
            sched.append(c)
    sched.append(dict(mh.default_cfg(**dict(BASES['mssdc'], P=2, nsteps=3, maxiter=2, adaptive={'e_tol': 1.0}, restol=-1.0, jac=False, restarting={'max_restarts': 2})), script=[((0.1, 0.1), 2.0)]))
    plan.append(('base configurations, every schedule with <= 1 deviation', sched, 1))
    if tier == 'thorough':
        small = [dict(mh.default_cfg(kind='time', P=2, L=1, nsteps=3, maxiter=2), **m) for m in MODES[:2]]
        small += [dict(mh.default_cfg(kind='time', P=2, L=2, predict='pfasst_burnin', nsteps=2, maxiter=1), **MODES[0])]
        small += [dict(mh.default_cfg(kind='nodes', M=2, QI='MIN', nsteps=1, maxiter=1), **MODES[1])]
        plan.append(('three smallest configurations, every schedule with <= 2 deviations', small, 2))
        st = [dict(mh.default_cfg(**dict(BASE_ST, jac=j)), **m) for j in (True, False) for m in MODES[:2]]
        plan.append(('2 x 2 space-time grid (Jacobi and Gauss-Seidel coupling), every schedule with <= 1 deviation', st, 1))
    else:
        plan.append(('2 x 2 space-time grid (Jacobi and Gauss-Seidel coupling), every schedule with <= 1 deviation', [dict(mh.default_cfg(**dict(BASE_ST, jac=j)), **MODES[0]) for j in (True, False)], 1))
    st_ball = [dict(c, **m) for c in ball(BASE_ST, DIMS_ST, 1 if tier == 'quick' else 2) + ball(BASE_ST1, {k: v for k, v in DIMS_ST.items() if k != 'P'}, 1) for m in (MODES[:2] if tier == 'quick' else MODES)]
    plan.append(('space-time grid configuration ball, canonical schedule', st_ball, 0))
    bounds = []
    for label, vs, bound in plan:
        res = _e1.explore_variants(rep, make, vs, bound=bound, label=label, probe=(bound > 0))
        outc = {}
        for cfg, st in res:
            for ex in st.extra:
                pass
        bounds.append({'space': label, 'configurations': len(vs), 'executions': sum(st.executions for _, st in res), 'deviation_bound': bound, 'capped': any(st.capped for _, st in res), 'max_distinct_outcomes_per_configuration': max(len(st.outcomes) for _, st in res) if res else 0})
    rep.coverage['bounds_completed'] = bounds
    rep.coverage['exhaustive'] = not any(b['capped'] for b in bounds)
    rep.coverage['rule'] = 'per configuration: every schedule (choice of the next rank at every MPI call) with at most the stated number of deviations from the canonical scheduler; each execution compared with the serial counterpart (step times <= 8 ulp, niter, restarts, dt, u per step and returned value <= 1e-13 relative) plus simulator checks (deadlock, unmatched receive, collective mismatch, send buffer modified before completion)'


def replay(rep, case):
    cfg = case['cfg']
    if isinstance(cfg.get('script'), list):
        cfg['script'] = [(tuple(k), v) for k, v in cfg['script']]
    h = make(cfg)
    out, ctx = explore.run_once(h, case['choices'])
    for sig, det in out.violations:
        rep.violation(sig, det, case)
