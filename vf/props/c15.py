"""C15 — ParaDiag diagonalises the all-at-once system and converges to the serial answer (engine E2).

Four clauses, every one a complete enumeration of a finite lattice against the oracle in vf/oracle/paradiag.py:

A  algebra   (L, alpha) in 1..16 x {1e-10 .. 1e-1, 1}: weighted transforms inverse to each other (both orders), they
             diagonalise E_alpha with the oracle's closed-form factors d_l (both directions), and the factor recovered from
             get_G_inv_matrix(l, L, alpha, M) for every mode l and M in 1..5 equals d_l.
B  sweeper   QDiagonalization / QDiagonalizationIMEX: one update_nodes is the linear map
             rhs -> (G (x) I - dt Q (x) A_impl)^{-1} rhs   (rhs = level.residual for ignore_ic=True -> level.increment,
             rhs = 1 (x) u[0] for ignore_ic=False -> level.u[1:]), decided by probing a basis of the rhs space; plus the
             full route u -> compute_residual -> update_nodes -> u + increment == collocation solution.
D  iteration one it_ParaDiag of controller_ParaDiag_nonMPI on a prepared block state is the preconditioned step
             U -> U + P_alpha^{-1} (b(u0) - C U) on the all-at-once system (C with the full operator, P_alpha = the
             alpha-circulant preconditioner with the operator the local solves see), probed on a basis of (u0, U).
C  runs      controller_ParaDiag_nonMPI to convergence; every logged step value and the returned uend equal dense
             sequential collocation stepping within a bound derived from restol and the all-at-once matrices.
"""

import math
import time
import warnings
from collections import Counter

import numpy as np

from vf import common
from vf.oracle import paradiag as O

# code under test (imported at module top so that fork workers inherit it)
from pySDC.core.step import Step
from pySDC.helpers import ParaDiagHelper as PH
from pySDC.helpers.stats_helper import get_sorted
from pySDC.implementations.controller_classes.controller_ParaDiag_nonMPI import controller_ParaDiag_nonMPI
from pySDC.implementations.hooks.log_solution import LogSolution
from pySDC.implementations.problem_classes.AdvectionEquation_ND_FD import advectionNd
from pySDC.implementations.problem_classes.HeatEquation_ND_FD import heatNd_forced, heatNd_unforced
from pySDC.implementations.problem_classes.TestEquation_0D import test_equation_IMEX, testequation0d
from pySDC.implementations.sweeper_classes.ParaDiagSweepers import QDiagonalization, QDiagonalizationIMEX

LEVEL = 'exploration'
EPS = O.EPS

# fixed constants of the tolerances (section 1.5 of DESIGN.md)
C_A = 50.0  # transforms: C_A * L * eps * (gamma_i / gamma_j) [* alpha^{1/L}]
C_G = 50.0  # G_inv factor: C_G * eps * (1 + |d|) on the recovered factor, C_G * eps * relcond * magnitude on entries
C_S = 200.0  # sweeper solve: C_S * eps * ||G^-1|| cond(S) max_m ||D_m^-1|| cond(D_m) * ||rhs||
C_R = 10.0  # runs: C_R * K * restol   (K from the dense all-at-once matrices)
C_E = 50.0  # runs / full route: rounding floor C_E * eps * cond * magnitude

G_CHUNK = 8
ALPHAS = [10.0**-k for k in range(10, 0, -1)] + [1.0]
SWEEPERS = {'QDiagonalization': QDiagonalization, 'QDiagonalizationIMEX': QDiagonalizationIMEX}

# pools of well-conditioned generic data (VERIF_SEED only selects from / permutes these)
LAMBDA_POOL = [-1 + 2j, -0.5 + 0j, 0.3j, -2 - 1j, -0.25 + 0.5j, -1.5j, -3 + 0j, -0.1 - 0.2j, -0.75 + 1.25j]
LAMBDA_EXPL_POOL = [0.1 + 0j, -0.2j, 0.05 + 0j, -0.1 + 0.1j, 0.15j, -0.15 + 0j]
VALUE_POOL = [1 + 0.5j, -0.7 + 0j, 0.2 - 1j, 0.9 + 0.3j, -0.4 - 0.6j, 1.3 + 0j, -1.1 + 0.8j, 0.6j, 0.35 - 0.25j, -0.85 + 0.1j]
REAL_POOL = [1.0, -0.7, 0.2, 0.9, -0.4, 1.3, -1.1, 0.6, 0.35, -0.85, 0.5, -0.25]
NU_POOL = [0.05, 0.1, 0.2]
C_POOL = [0.5, 1.0, -0.75]
DT_POOL = [1.0 / 8, 1.0 / 16, 1.0 / 32]
T0_POOL = [0.0, 0.25]


def astr(alpha):
    return f'{alpha:.0e}' if alpha not in (0.3, 0.5) else repr(alpha)


def c2l(z):
    return [[float(np.real(x)), float(np.imag(x))] for x in np.atleast_1d(z)]


def l2c(lst):
    return np.array([complex(a, b) for a, b in lst], dtype=complex)


# =====================================================================================================
# problems: (class, params) for pySDC and independent dense operators for the oracle
# =====================================================================================================
def problem_specs(r):
    """the problem alphabet with generic coefficients picked from the pools by the (seeded) rng r."""
    lam3 = r.sample(LAMBDA_POOL, 3)
    return {
        'dahlquist1': {'key': 'dahlquist1', 'lambdas': c2l([r.choice(LAMBDA_POOL)])},
        'dahlquist3': {'key': 'dahlquist3', 'lambdas': c2l(lam3)},
        'heat8': {'key': 'heat8', 'n': 8, 'nu': r.choice(NU_POOL), 'bc': 'periodic'},
        'heat7d': {'key': 'heat7d', 'n': 7, 'nu': r.choice(NU_POOL), 'bc': 'dirichlet-zero'},
        'advection8': {'key': 'advection8', 'n': 8, 'c': r.choice(C_POOL)},
        'dahlquist_imex3': {'key': 'dahlquist_imex3', 'lambdas': c2l(r.sample(LAMBDA_POOL, 3)), 'lambdas_expl': c2l(r.sample(LAMBDA_EXPL_POOL, 3))},
        'dahlquist_imex3_noexpl': {'key': 'dahlquist_imex3_noexpl', 'lambdas': c2l(r.sample(LAMBDA_POOL, 3)), 'lambdas_expl': c2l([0, 0, 0])},
        'heat_forced8': {'key': 'heat_forced8', 'n': 8, 'nu': r.choice(NU_POOL), 'bc': 'periodic', 'freq': 2},
        'heat4': {'key': 'heat4', 'n': 4, 'nu': r.choice(NU_POOL), 'bc': 'periodic'},
        'advection4': {'key': 'advection4', 'n': 4, 'c': r.choice(C_POOL)},
        'heat_forced4': {'key': 'heat_forced4', 'n': 4, 'nu': r.choice(NU_POOL), 'bc': 'periodic', 'freq': 2},
    }


IMEX_PROBLEMS = ('dahlquist_imex3', 'dahlquist_imex3_noexpl', 'heat_forced8')  # sweeper clause


def build_problem(spec):
    """-> dict(cls, params, A_impl, A_full, forcing, N, imex, u_dep_expl)"""
    k = spec['key']
    if k.startswith('dahlquist_imex'):
        li, le = l2c(spec['lambdas']), l2c(spec['lambdas_expl'])
        return dict(cls=test_equation_IMEX, params={'lambdas_implicit': li, 'lambdas_explicit': le, 'u0': 1.0}, A_impl=np.diag(li), A_full=np.diag(li + le), forcing=None, N=len(li), imex=True, u_dep_expl=bool(np.any(le != 0)))
    if k.startswith('dahlquist'):
        lam = l2c(spec['lambdas'])
        return dict(cls=testequation0d, params={'lambdas': lam, 'u0': 1.0}, A_impl=np.diag(lam), A_full=np.diag(lam), forcing=None, N=len(lam), imex=False, u_dep_expl=False)
    if k.startswith('heat_forced'):
        A = O.heat_matrix(spec['n'], spec['nu'], spec['bc'])
        return dict(cls=heatNd_forced, params={'nvars': spec['n'], 'nu': spec['nu'], 'freq': spec['freq'], 'bc': spec['bc']}, A_impl=A, A_full=A, forcing=O.heat_forcing(spec['n'], spec['nu'], spec['freq'], spec['bc']), N=spec['n'], imex=True, u_dep_expl=False)
    if k.startswith('heat'):
        A = O.heat_matrix(spec['n'], spec['nu'], spec['bc'])
        freq = 2 if spec['bc'] == 'periodic' else 1
        return dict(cls=heatNd_unforced, params={'nvars': spec['n'], 'nu': spec['nu'], 'freq': freq, 'bc': spec['bc']}, A_impl=A, A_full=A, forcing=None, N=spec['n'], imex=False, u_dep_expl=False)
    if k.startswith('advection'):
        A = O.advection_matrix(spec['n'], spec['c'])
        return dict(cls=advectionNd, params={'nvars': spec['n'], 'c': spec['c'], 'freq': 2, 'order': 2, 'stencil_type': 'center', 'bc': 'periodic'}, A_impl=A, A_full=A, forcing=None, N=spec['n'], imex=False, u_dep_expl=False)
    raise KeyError(k)


class HarnessError(RuntimeError):
    """an assumption of the harness is broken (not a verdict about the property)"""


def complexify(prob):
    # as the repository's own ParaDiag tests do: the solves are complex even for real problems
    prob.init = tuple([*prob.init[:2]] + [np.dtype('complex128')])


def check_operator(prob, pb):
    A = prob.A.toarray() if hasattr(prob.A, 'toarray') else np.asarray(prob.A)
    scale = max(1.0, float(np.abs(pb['A_impl']).max()))
    if A.shape != pb['A_impl'].shape or np.abs(A - pb['A_impl']).max() > 1e3 * EPS * scale:
        raise HarnessError(f'spatial operator of {type(prob).__name__} differs from the oracle operator (assumption of C15 broken)')


def mesh_from(prob, vec):
    u = prob.u_init
    u[:] = np.asarray(vec).reshape(u.shape)
    return u


# =====================================================================================================
# clause A: algebra
# =====================================================================================================
def _ratio(err, tol):
    """max over entries of err/tol (tol > 0 entrywise)"""
    return float(np.max(np.asarray(err) / np.asarray(tol)))


def eval_algebra(case):
    L, alpha = int(case['L']), float(case['alpha'])
    only = case.get('only')  # replay narrows to one kind
    res = {'viol': [], 'evals': 0, 'nontrivial': [], 'worst': {}, 'classes': Counter(), 'sample': None}
    base = {'clause': 'algebra', 'L': L, 'alpha': astr(alpha)}
    rp = {'clause': 'algebra', 'L': L, 'alpha': alpha}
    rank = (L, -math.log10(alpha))

    def worst(name, r):
        res['worst'][name] = max(res['worst'].get(name, 0.0), r)

    def viol(kind, detail, **extra):
        sig = dict(base, kind=kind, **extra)
        res['viol'].append((sig, detail, dict(rp, only=kind), ('algebra', kind), rank + tuple(extra.values())))

    g = O.gamma(L, alpha)
    d = O.factors(L, alpha)
    E_ref = O.E_alpha(L, alpha)
    a1L = float(abs(d[0]))  # alpha^{1/L}
    W = np.outer(g, 1.0 / g)  # gamma_i / gamma_j

    with warnings.catch_warnings():
        warnings.simplefilter('ignore')
        F = np.asarray(PH.get_weighted_FFT_matrix(L, alpha))
        Fi = np.asarray(PH.get_weighted_iFFT_matrix(L, alpha))
        E_impl = PH.get_E_matrix(L, alpha)
    E_impl = np.asarray(E_impl.toarray() if hasattr(E_impl, 'toarray') else E_impl, dtype=float)
    if F.shape != (L, L) or Fi.shape != (L, L) or E_impl.shape != (L, L):
        viol('transform_shape', {'FFT': F.shape, 'iFFT': Fi.shape, 'E': E_impl.shape})
        return res
    I = np.eye(L)

    # A1 inverse, both orders
    res['evals'] += 1
    r1 = _ratio(np.abs(Fi @ F - I), C_A * L * EPS * W)
    r2 = _ratio(np.abs(F @ Fi - I), C_A * L * EPS * np.ones((L, L)))
    worst('inverse', max(r1, r2))
    if not (r1 <= 1 and r2 <= 1) and only in (None, 'transforms_not_inverse'):
        viol('transforms_not_inverse', {'iFFT@FFT-I ratio err/tol': r1, 'FFT@iFFT-I ratio': r2, 'tol': 'C_A*L*eps*gamma_i/gamma_j resp. C_A*L*eps'})

    # A2 the time-coupling matrix itself
    res['evals'] += 1
    rE = _ratio(np.abs(E_impl - E_ref), 4 * EPS * np.abs(E_ref) + 5e-324)
    worst('E_matrix', rE)
    if not rE <= 1 and only in (None, 'E_matrix'):
        viol('E_matrix', {'expected': E_ref.tolist(), 'observed': E_impl.tolist()})

    # A3 diagonalisation with the oracle's factors, both directions
    res['evals'] += 1
    r3 = _ratio(np.abs(Fi @ np.diag(d) @ F - E_ref), C_A * L * EPS * W * a1L)
    r4 = _ratio(np.abs(F @ E_ref @ Fi - np.diag(d)), C_A * L * EPS * a1L * np.ones((L, L)))
    worst('diagonalise', max(r3, r4))
    if not (r3 <= 1 and r4 <= 1) and only in (None, 'not_diagonalised'):
        viol('not_diagonalised', {'iFFT@diag(d)@FFT-E ratio err/tol': r3, 'FFT@E@iFFT-diag(d) ratio': r4, 'd_oracle': c2l(d)})
    if L >= 2:
        res['nontrivial'].append(common.short_hash(['alg', L, astr(alpha)]))

    # A4 the factor the local solves use
    for M in range(1, 6):
        for l in range(L):
            if case.get('M') is not None and (M, l) != (case['M'], case['l']):
                continue
            res['evals'] += 1
            dl = d[l]
            singular = (1.0 + dl) == 0
            sp_params = {'num_nodes': M, 'quad_type': 'RADAU-RIGHT'}
            ex = {'M': M, 'l': l}
            try:
                with warnings.catch_warnings():
                    warnings.simplefilter('ignore')
                    Gi = PH.get_G_inv_matrix(l, L, alpha, sp_params)
                Gi = np.asarray(Gi, dtype=complex)
            except Exception as e:  # noqa: BLE001 (every failure mode is an outcome class)
                if singular:
                    res['classes']['singular_mode:raised'] += 1
                else:
                    res['classes']['regular_mode:raised'] += 1
                    if only in (None, 'G_inv_unavailable'):
                        viol('G_inv_unavailable', {'exception': f'{type(e).__name__}: {e}', 'd_oracle': c2l(dl)}, **ex)
                continue
            if Gi.shape != (M, M):
                viol('G_inv_shape', {'shape': Gi.shape}, **ex)
                continue
            if not np.all(np.isfinite(Gi)):
                if singular:
                    res['classes']['singular_mode:nonfinite'] += 1
                else:
                    res['classes']['regular_mode:nonfinite'] += 1
                    if only in (None, 'G_inv_nonfinite'):
                        viol('G_inv_nonfinite', {'G_inv': repr(Gi.tolist()), 'd_oracle': c2l(dl)}, **ex)
                continue
            gll = Gi[-1, -1]
            tol_d = C_G * EPS * (1.0 + abs(dl))
            if singular:
                # a finite matrix claims the factor d' = 1/g - 1; it is acceptable iff |d' - d| = 1/|g| <= tol_d ("huge")
                if abs(gll) > 0 and 1.0 / abs(gll) <= tol_d:
                    res['classes']['singular_mode:huge'] += 1
                else:
                    res['classes']['singular_mode:finite_wrong'] += 1
                    if only in (None, 'G_inv_finite_for_singular_factor'):
                        viol('G_inv_finite_for_singular_factor', {'G_inv': repr(Gi.tolist()), 'd_oracle': c2l(dl), 'implied |d_used - d|': (1.0 / abs(gll)) if gll != 0 else 'inf', 'tol': tol_d}, **ex)
                continue
            res['classes']['regular_mode:finite'] += 1
            relc = O.G_relcond(dl)
            if gll == 0:
                viol('G_factor', {'note': 'last diagonal entry of G_inv is 0'}, **ex)
                continue
            d_rec = 1.0 / gll - 1.0
            rr = [abs(d_rec - dl) / tol_d]
            if M >= 2:
                off = Gi[:-1, -1]
                d_rec2 = -off / gll
                rr.append(float(np.max(np.abs(d_rec2 - dl)) / (C_G * EPS * abs(dl) * relc)))
            Gref = O.G_inv_closed(dl, M)
            rr.append(float(np.max(np.abs(Gi - Gref)) / (C_G * EPS * relc * np.abs(Gref).max())))
            rmax = float(max(rr))
            worst('G_factor', rmax)
            if M >= 2 or abs(dl) > 0:
                res['nontrivial'].append(common.short_hash(['G', L, astr(alpha), M, l]))
            if not rmax <= 1 and only in (None, 'G_factor'):
                viol('G_factor', {'d_oracle': c2l(dl), 'd_recovered_from_diag': c2l(d_rec), 'ratios err/tol [diag, offdiag, matrix]': rr, 'G_inv': repr(np.round(Gi, 12).tolist())}, **ex)
    res['sample'] = {'clause': 'algebra', 'L': L, 'alpha': alpha, 'd_oracle': c2l(d)[:3], 'worst_ratio': res['worst']}
    return res


# =====================================================================================================
# clause B: sweeper
# =====================================================================================================
def make_step(pb, sweeper, M, dt, t0, ignore_ic, update_f_evals, G_inv=None, rule=None):
    sp = {'quad_type': (rule or ('RADAU-RIGHT', 'LEGENDRE'))[0], 'node_type': (rule or ('RADAU-RIGHT', 'LEGENDRE'))[1], 'num_nodes': M, 'initial_guess': 'spread', 'ignore_ic': ignore_ic, 'update_f_evals': update_f_evals}
    if G_inv is not None:
        sp['G_inv'] = G_inv
    desc = {
        'problem_class': pb['cls'],
        'problem_params': dict(pb['params']),
        'sweeper_class': SWEEPERS[sweeper],
        'sweeper_params': sp,
        'level_params': {'dt': dt, 'restol': -1.0},
        'step_params': {'maxiter': 1},
    }
    S = Step(desc)
    lvl = S.levels[0]
    lvl.status.unlocked = True
    lvl.status.time = t0
    complexify(lvl.prob)
    check_operator(lvl.prob, pb)
    return S, lvl


def g_variants(tier):
    """[(tag, l, L, alpha)] — identity first; singular modes (alpha = 1, l = 0) have no G_inv and are not listed."""
    out = [('I', None, None, None)]
    if tier == 'quick':
        Ls, als = (1, 2, 4), (1e-8, 1e-2, 1.0)
    else:
        Ls, als = (1, 2, 3, 4, 8, 16), (1e-10, 1e-2, 1.0)
    for L in Ls:
        for a in als:
            for l in range(L):
                if a == 1.0 and l == 0:
                    continue
                out.append((f'l{l}/L{L}/a{astr(a)}', l, L, a))
    return out


def eval_sweeper(case):
    """one (problem, sweeper, M, ignore_ic, update_f_evals) x all G variants x routes x basis inputs."""
    pb = build_problem(case['spec'])
    sweeper, M, dt, t0 = case['sweeper'], int(case['M']), float(case['dt']), float(case['t0'])
    ignore_ic, upd = bool(case['ignore_ic']), bool(case['update_f_evals'])
    N = pb['N']
    vals = l2c(case['values'])
    res = {'viol': [], 'evals': 0, 'nontrivial': [], 'worst': {}, 'classes': Counter(), 'sample': None}
    base = {'clause': 'sweeper', 'sweeper': sweeper, 'problem': case['spec']['key'], 'M': M, 'ignore_ic': ignore_ic, 'update_f_evals': upd}
    only = case.get('only')

    def worst(name, r):
        res['worst'][name] = max(res['worst'].get(name, 0.0), float(r))

    def gen(n, off):
        return np.array([vals[(off + i) % len(vals)] for i in range(n)], dtype=complex)

    rule = tuple(case['rule']) if case.get('rule') else None
    twin = None
    if rule is not None:
        # construction history: a sweeper on the default rule with the same node count (and, below, the same G_inv) exists first
        base['rule'] = list(rule)
        _, twin = make_step(pb, sweeper, M, dt, t0, ignore_ic, upd)
    try:
        S0, lvl0 = make_step(pb, sweeper, M, dt, t0, ignore_ic, upd, rule=rule)
    except AssertionError:
        if rule is None:
            raise
        res['classes']['refused:rule_not_diagonalisable'] += 1  # the library's own self-check refuses the rule
        return res
    nodes = np.asarray(lvl0.sweep.coll.nodes, dtype=float)
    Q = O.lagrange_Q(nodes)
    A = pb['A_impl']
    Af = pb['A_full']
    normA = O.norm_inf(Af)

    for tag, l, Ln, alpha in case['gvars']:
        if only is not None and only['g'] != tag:
            continue
        if l is None:
            Gi_ref = np.eye(M, dtype=complex)
            G_ref = np.eye(M, dtype=complex)
            Gi_impl = None
        else:
            dl = O.factors(Ln, alpha)[l]
            Gi_ref = O.G_inv_closed(dl, M)
            G_ref = O.G_matrix(dl, M)
            # the sweeper is fed the matrix the controller would feed it; its correctness is clause A's business, here
            # the reference uses the same numbers (the oracle's closed form) so that clause B judges the sweeper only
            Gi_impl = Gi_ref.copy()
        lhs = O.node_lhs(Q, G_ref, dt, A)
        X = np.linalg.inv(lhs)
        scale, condS = O.sweeper_scale(Q, Gi_ref, dt, A)
        condL = float(np.linalg.cond(lhs, np.inf))
        routes = ['default'] if l is None else ['param', 'setter']
        for route in routes:
            if only is not None and only['route'] != route:
                continue
            try:
                if twin is not None and Gi_impl is not None:
                    twin.sweep.set_G_inv(Gi_impl.copy())
                if route == 'default':
                    lvl = lvl0
                elif route == 'param':
                    _, lvl = make_step(pb, sweeper, M, dt, t0, ignore_ic, upd, G_inv=Gi_impl.copy(), rule=rule)
                else:
                    lvl = lvl0
                    lvl.sweep.set_G_inv(Gi_impl.copy())
            except AssertionError:
                if rule is None:
                    raise
                res['classes']['refused:rule_not_diagonalisable'] += 1  # the library's own self-check refuses Q G^-1 of this rule
                continue
            P = lvl.prob
            sw = lvl.sweep
            ckey = dict(base, g=tag, route=route)
            rpl = dict(case, gvars=[[tag, l, Ln, alpha]], only={'g': tag, 'route': route})
            rank = (M, N, 0 if l is None else Ln, 0 if l is None else l, route)

            def viol(kind, detail):
                res['viol'].append((dict(ckey, kind=kind), detail, rpl, ('sweeper', kind, sweeper, ignore_ic), rank))

            def fill_state(u0vec, nodevals):
                lvl.u[0] = mesh_from(P, u0vec)
                for m in range(M):
                    lvl.u[m + 1] = mesh_from(P, nodevals[m])
                for m in range(M + 1):
                    lvl.f[m] = P.eval_f(lvl.u[m], t0 + dt * (nodes[m - 1] if m else 0.0))

            garbage = 1e3 * np.array([gen(N, 3 + m) for m in range(M)])
            # ---- inputs: a basis of the rhs space + homogeneity / offset / additivity probes -----------------------
            inputs = []
            if ignore_ic:
                for m in range(M):
                    for n in range(N):
                        r = np.zeros((M, N), dtype=complex)
                        r[m, n] = 1.0
                        inputs.append((f'e{m},{n}', r))
                r = np.zeros((M, N), dtype=complex)
                r[0, 0] = 1j
                inputs.append(('i*e0,0', r))
                inputs.append(('zero', np.zeros((M, N), dtype=complex)))
                r = np.zeros((M, N), dtype=complex)
                r[0, 0], r[M - 1, N - 1] = vals[0], vals[1]
                if M * N == 1:
                    r[0, 0] = vals[0] + vals[1]
                inputs.append(('sum', r))
            else:
                for n in range(N):
                    r = np.zeros(N, dtype=complex)
                    r[n] = 1.0
                    inputs.append((f'e{n}', r))
                r = np.zeros(N, dtype=complex)
                r[0] = 1j
                inputs.append(('i*e0', r))
                inputs.append(('zero', np.zeros(N, dtype=complex)))
                r = np.zeros(N, dtype=complex)
                r[0] += vals[0]
                r[N - 1] += vals[1]
                inputs.append(('sum', r))

            if route == 'setter':
                # same matrix through set_G_inv: the linearity probes and the full route suffice to see a different map
                inputs = [x for x in inputs if x[0] in ('i*e0,0', 'i*e0', 'zero', 'sum')]
            worst_map = 0.0
            bad = None
            for name, r in inputs:
                res['evals'] += 1
                if ignore_ic:
                    # documented: node zero "will only be used in computing the step-local residual, but not in the solves"
                    fill_state(np.full(N, np.nan), np.array([gen(N, m) for m in range(M)]))
                    lvl.residual = [mesh_from(P, r[m]) for m in range(M)]
                    lvl.increment = [None] * M
                    rhs = r.reshape(-1)
                else:
                    # documented: "the values on the nodes will be ignored in the solves and the node-zero value will be used"
                    fill_state(r, garbage)
                    lvl.residual = [mesh_from(P, garbage[m]) for m in range(M)]
                    rhs = np.kron(np.ones(M), r)
                f_before = [np.array(lvl.f[m + 1].impl + lvl.f[m + 1].expl if pb['imex'] else lvl.f[m + 1]).copy() for m in range(M)]
                u_before = [np.array(lvl.u[m + 1]).copy() for m in range(M)]
                try:
                    with warnings.catch_warnings():
                        warnings.simplefilter('ignore')
                        sw.update_nodes()
                except Exception as e:  # noqa: BLE001
                    viol('update_nodes_raised', {'input': name, 'exception': f'{type(e).__name__}: {e}'})
                    bad = 'raised'
                    break
                got = np.array([np.asarray(lvl.increment[m] if ignore_ic else lvl.u[m + 1]).reshape(-1) for m in range(M)]).reshape(-1)
                ref = X @ rhs
                tol = C_S * EPS * scale * max(float(np.abs(rhs).max()), 0.0) + 5e-324
                err = float(np.abs(got - ref).max()) if np.all(np.isfinite(got)) else float('inf')
                ratio = err / tol if tol > 1e-300 else (0.0 if err == 0 else float('inf'))
                worst_map = max(worst_map, ratio)
                if not ratio <= 1 and bad is None:
                    bad = name
                    viol('solve_map', {'input': name, 'err': err, 'tol': tol, 'scale': scale, 'cond_S': condS, 'expected(first 6)': c2l(ref[:6]), 'observed(first 6)': c2l(got[:6]), 'solved_system': '(G (x) I - dt Q (x) A_impl) y = rhs'})
                # right-hand side evaluations
                tl = [t0 + dt * nodes[m] for m in range(M)]
                if upd:
                    unow = [np.asarray(lvl.u[m + 1]).reshape(-1) for m in range(M)]
                    for m in range(M):
                        fref = Af @ unow[m] + (pb['forcing'](tl[m]) if pb['forcing'] else 0.0)
                        fm = lvl.f[m + 1]
                        fgot = np.asarray(fm.impl + fm.expl if pb['imex'] else fm).reshape(-1)
                        ftol = C_E * EPS * (normA * max(float(np.abs(unow[m]).max()), 1e-300) + float(np.abs(fref).max())) + 5e-324
                        fr = float(np.abs(fgot - fref).max()) / ftol if np.all(np.isfinite(unow[m])) else 0.0
                        # the property does not speak about f: outcome classes only (docstring: update_f_evals=True re-evaluates)
                        res['classes']['update_f_evals=True:f_consistent_with_u' if fr <= 1 else 'update_f_evals=True:f_NOT_consistent_with_u'] += 1
                else:
                    same = all(np.array_equal(np.array(lvl.f[m + 1].impl + lvl.f[m + 1].expl if pb['imex'] else lvl.f[m + 1]), f_before[m], equal_nan=True) for m in range(M))
                    res['classes']['update_f_evals=False:f_untouched' if same else 'update_f_evals=False:f_CHANGED'] += 1
                if ignore_ic:
                    same = all(np.array_equal(np.array(lvl.u[m + 1]), u_before[m]) for m in range(M))
                    res['classes']['ignore_ic=True:u_untouched' if same else 'ignore_ic=True:u_CHANGED'] += 1
            worst('solve_map', worst_map)
            if bad == 'raised':
                continue

            # ---- full route: state -> compute_residual -> update_nodes -> (u + increment) ---------------------------
            if ignore_ic:
                res['evals'] += 1
                u0v = gen(N, 1)
                uu = np.array([gen(N, 2 + 2 * m) for m in range(M)])
                fill_state(u0v, uu)
                lvl.increment = [None] * M
                try:
                    with warnings.catch_warnings():
                        warnings.simplefilter('ignore')
                        sw.compute_residual()
                        sw.update_nodes()
                    got = np.array([np.asarray(lvl.u[m + 1] + lvl.increment[m]).reshape(-1) for m in range(M)])
                except Exception as e:  # noqa: BLE001
                    viol('full_route_raised', {'exception': f'{type(e).__name__}: {e}'})
                    continue
                gvec = np.zeros((M, N), dtype=complex)
                if pb['forcing'] is not None:
                    gvec = np.array([pb['forcing'](t0 + dt * nodes[m]) for m in range(M)], dtype=complex)
                Fv = (Af @ uu.T).T + gvec
                r_ref = np.kron(np.ones(M), u0v).reshape(M, N) + dt * (Q @ Fv) - uu
                rscale = float(np.abs(u0v).max() + dt * O.norm_inf(Q) * (normA * np.abs(uu).max() + np.abs(gvec).max()) + np.abs(uu).max())
                ref = uu + (X @ r_ref.reshape(-1)).reshape(M, N)
                tol = C_S * EPS * scale * float(np.abs(r_ref).max()) + C_E * EPS * O.norm_inf(X) * rscale + C_E * EPS * float(np.abs(ref).max())
                ratio = float(np.abs(got - ref).max()) / tol if np.all(np.isfinite(got)) else float('inf')
                worst('full_route', ratio)
                if not ratio <= 1:
                    viol('full_route', {'ratio err/tol': ratio, 'tol': tol, 'expected(first 6)': c2l(ref.reshape(-1)[:6]), 'observed(first 6)': c2l(got.reshape(-1)[:6])})
                if l is None and not pb['u_dep_expl']:
                    # the increment solves the collocation problem exactly in this one application
                    cs = O.colloc_step(Q, nodes, dt, Af, u0v, t0, pb['forcing'])
                    tol2 = tol + C_E * EPS * condL * float(np.abs(cs).max())
                    ratio = float(np.abs(got - cs).max()) / tol2 if np.all(np.isfinite(got)) else float('inf')
                    worst('one_application_exact', ratio)
                    res['classes']['one_application_exact_checked'] += 1
                    if not ratio <= 1:
                        viol('one_application_not_exact', {'ratio err/tol': ratio, 'tol': tol2})
            elif l is None and not pb['imex']:
                # ignore_ic = False, plain collocation: the node values are the collocation solution
                res['evals'] += 1
                u0v = gen(N, 1)
                fill_state(u0v, garbage)
                with warnings.catch_warnings():
                    warnings.simplefilter('ignore')
                    sw.update_nodes()
                    got = np.array([np.asarray(lvl.u[m + 1]).reshape(-1) for m in range(M)])
                    cs = O.colloc_step(Q, nodes, dt, Af, u0v, t0, None)
                    tol = (C_S * EPS * scale + C_E * EPS * condL) * float(np.abs(cs).max())
                    ratio = float(np.abs(got - cs).max()) / tol if np.all(np.isfinite(got)) else float('inf')
                    worst('one_application_exact', ratio)
                    res['classes']['one_application_exact_checked'] += 1
                    if not ratio <= 1:
                        viol('one_application_not_exact', {'ratio err/tol': ratio, 'tol': tol})
                    elif upd:
                        # with fresh f values the sweeper's own residual of the collocation problem vanishes
                        sw.compute_residual()
                        rtol = C_E * EPS * O.norm_inf(lhs) * (scale + condL) * float(np.abs(cs).max())
                        rr = float(lvl.status.residual) / rtol
                        worst('own_residual', rr)
                        if not rr <= 1:
                            viol('own_residual_nonzero', {'residual': float(lvl.status.residual), 'tol': rtol})
            if M >= 2 or l is not None:
                res['nontrivial'].append(common.short_hash(ckey))
    res['sample'] = {'clause': 'sweeper', **base, 'dt': dt, 't0': t0, 'g_variants': len(case['gvars']), 'worst_ratio': res['worst']}
    return res


# =====================================================================================================
# clause D: one ParaDiag iteration of the controller is the preconditioned step on the all-at-once system
# =====================================================================================================
class _RestartOnce:
    """factory of an environment convergence controller: one restart request from a given slot of the block that starts
    at a given time (the block is then recomputed from the restarted step with an unchanged step size)"""

    @staticmethod
    def make(slot, t_block):
        from pySDC.core.convergence_controller import ConvergenceController

        class RestartOnce(ConvergenceController):
            fired = False

            def setup(self, controller, params, description, **kwargs):
                return {'control_order': -50, **super().setup(controller, params, description, **kwargs)}

            def determine_restart(self, controller, S, **kwargs):
                # asked in every check of that step while its block is the one starting at t_block
                if not RestartOnce.fired and S.status.slot == slot and abs(S.levels[0].status.time - (t_block + slot * S.dt)) < 1e-11:
                    S.status.restart = True

            def prepare_next_block(self, controller, S, *args, **kwargs):
                if S.status.slot == slot and S.status.restart:
                    RestartOnce.fired = True

        return RestartOnce


def make_controller(pb, L, M, alpha, dt, restol, maxiter, avg, hooks, restart=None):
    sweeper = 'QDiagonalizationIMEX' if pb['imex'] else 'QDiagonalization'
    desc = {
        'problem_class': pb['cls'],
        'problem_params': dict(pb['params']),
        'sweeper_class': SWEEPERS[sweeper],
        'sweeper_params': {'quad_type': 'RADAU-RIGHT', 'num_nodes': M, 'initial_guess': 'spread'},
        'level_params': {'dt': dt, 'restol': restol},
        'step_params': {'maxiter': maxiter},
    }
    if restart is not None:
        desc['convergence_controllers'] = {_RestartOnce.make(*restart): {}}
    cp = {'logger_level': 90, 'hook_class': hooks, 'mssdc_jac': False, 'alpha': alpha, 'average_jacobian': avg, 'dump_setup': False}
    with warnings.catch_warnings():
        warnings.simplefilter('ignore')
        ctrl = controller_ParaDiag_nonMPI(num_procs=L, controller_params=cp, description=desc)
    for S in ctrl.MS:
        complexify(S.levels[0].prob)
    check_operator(ctrl.MS[0].levels[0].prob, pb)
    return ctrl, sweeper


def eval_iteration(case):
    """it_ParaDiag on a prepared block state: (u0, node values U of all steps) -> U + P_alpha^{-1} (b(u0) - C U),
    probed on a basis of (u0, U), the zero input (affine offset = forcing), and two linearity probes."""
    pb = build_problem(case['spec'])
    L, M, alpha, dt, t0, avg = int(case['L']), int(case['M']), float(case['alpha']), float(case['dt']), float(case['t0']), bool(case['avg'])
    N = pb['N']
    vals = l2c(case['values'])
    res = {'viol': [], 'evals': 0, 'nontrivial': [], 'worst': {}, 'classes': Counter(), 'sample': None}
    base = {'clause': 'iteration', 'problem': case['spec']['key'], 'L': L, 'M': M, 'alpha': astr(alpha), 'average_jacobian': avg}
    rank = (L, M, N, -math.log10(alpha), avg)

    def viol(kind, detail):
        res['viol'].append((dict(base, kind=kind), detail, dict(case), ('iteration', kind, 'imex' if pb['imex'] else 'implicit'), rank))

    d = O.factors(L, alpha)
    singular = bool(np.any(1.0 + d == 0))
    try:
        ctrl, sweeper = make_controller(pb, L, M, alpha, dt, 1e-12, 5, avg, [])
    except HarnessError:
        raise
    except Exception as e:  # noqa: BLE001
        res['evals'] += 1
        res['classes']['constructor_raised' + (':singular_factor_predicted' if singular else ':UNPREDICTED')] += 1
        res['sample'] = dict(base, outcome=f'constructor raised {type(e).__name__}')
        return res
    if singular:
        # the oracle's preconditioner is singular: there is no reference step to compare with (clause A judges the factor)
        res['evals'] += 1
        res['classes']['constructed_although_singular_factor_predicted:not_judged'] += 1
        res['sample'] = dict(base, outcome='constructed although the oracle predicts a singular factor')
        return res
    P = ctrl.MS[0].levels[0].prob
    nodes = np.asarray(ctrl.MS[0].levels[0].sweep.coll.nodes, dtype=float)
    Q = O.lagrange_Q(nodes)
    C, _ = O.all_at_once(Q, dt, pb['A_full'], L, alpha)
    _, Pm = O.all_at_once(Q, dt, pb['A_impl'], L, alpha)
    try:
        Pi = np.linalg.inv(Pm)
    except np.linalg.LinAlgError:
        res['classes']['preconditioner_singular_in_oracle'] += 1
        return res
    g = O.gamma(L, alpha)
    scale = 0.0
    for l in range(L):
        sc, _ = O.sweeper_scale(Q, O.G_inv_closed(d[l], M), dt, pb['A_impl'])
        scale = max(scale, sc)
    normC = O.norm_inf(C)
    normPi = O.norm_inf(Pi)

    def gen(shape, off):
        n = int(np.prod(shape))
        return np.array([vals[(off + i) % len(vals)] for i in range(n)], dtype=complex).reshape(shape)

    inputs = []
    for n in range(N):
        u0 = np.zeros(N, dtype=complex)
        u0[n] = 1.0
        inputs.append((f'u0=e{n}', u0, np.zeros((L, M, N), dtype=complex)))
    for j in range(L):
        for m in range(M):
            for n in range(N):
                U = np.zeros((L, M, N), dtype=complex)
                U[j, m, n] = 1.0
                inputs.append((f'U=e{j},{m},{n}', np.zeros(N, dtype=complex), U))
    inputs.append(('zero', np.zeros(N, dtype=complex), np.zeros((L, M, N), dtype=complex)))
    U = np.zeros((L, M, N), dtype=complex)
    U[L - 1, M - 1, N - 1] = 1j
    inputs.append(('U=i*e_last', np.zeros(N, dtype=complex), U))
    inputs.append(('generic', gen((N,), 0), gen((L, M, N), 3)))

    times = [t0 + j * dt for j in range(L)]
    with warnings.catch_warnings():
        warnings.simplefilter('ignore')
        ctrl.restart_block(list(range(L)), times, mesh_from(P, np.zeros(N)))
        for S in ctrl.MS:
            S.levels[0].sweep.predict()
    worst = 0.0
    bad = None
    for name, u0, U in inputs:
        res['evals'] += 1
        for j, S in enumerate(ctrl.MS):
            lvl = S.levels[0]
            # only the first step owns an initial value; the others receive theirs from the predecessor's end value
            lvl.u[0] = mesh_from(P, u0 if j == 0 else 1e3 * gen((N,), 5 + j))
            for m in range(M):
                lvl.u[m + 1] = mesh_from(P, U[j, m])
        try:
            with warnings.catch_warnings():
                warnings.simplefilter('ignore')
                ctrl.it_ParaDiag(ctrl.MS)
        except Exception as e:  # noqa: BLE001
            viol('iteration_raised', {'input': name, 'exception': f'{type(e).__name__}: {e}'})
            bad = name
            break
        got = np.array([[np.asarray(S.levels[0].u[m + 1]).reshape(-1) for m in range(M)] for S in ctrl.MS]).reshape(-1)
        b = O.block_rhs(Q, nodes, dt, N, L, u0, t0, pb['forcing'])
        Uv = U.reshape(-1)
        r = b - C @ Uv
        ref = Uv + Pi @ r
        rmax = float(np.abs(r).max())
        rscale = float(np.abs(b).max() + normC * np.abs(Uv).max())
        tol = C_S * EPS * L * float(g.max()) * scale * rmax + C_E * EPS * normPi * rscale + C_E * EPS * float(np.abs(ref).max()) + 5e-324
        err = float(np.abs(got - ref).max()) if np.all(np.isfinite(got)) else float('inf')
        ratio = err / tol if tol > 1e-300 else (0.0 if err == 0 else float('inf'))
        worst = max(worst, ratio)
        if not ratio <= 1 and bad is None:
            bad = name
            k = int(np.argmax(np.abs(got - ref))) if np.all(np.isfinite(got)) else 0
            viol('iteration_map', {'input': name, 'err': err, 'tol': tol, 'worst_entry(step,node,space)': [k // (M * N), (k // N) % M, k % N], 'expected': c2l(ref[k]), 'observed': c2l(got[k]), 'reference': 'U + P_alpha^{-1} (b(u0) - C U)'})
    res['worst']['iteration_map'] = worst
    res['classes']['probed'] += 1
    if L >= 2:
        res['nontrivial'].append(common.short_hash(base))
    res['sample'] = dict(base, sweeper=sweeper, dt=dt, t0=t0, inputs=len(inputs), worst_ratio=worst)
    return res


# =====================================================================================================
# clause C: converged runs
# =====================================================================================================
def eval_run(case):
    pb = build_problem(case['spec'])
    sweeper = 'QDiagonalizationIMEX' if pb['imex'] else 'QDiagonalization'
    L, M, alpha, dt, t0 = int(case['L']), int(case['M']), float(case['alpha']), float(case['dt']), float(case['t0'])
    nblocks, avg, restol, maxiter = int(case['nblocks']), bool(case['avg']), float(case['restol']), int(case['maxiter'])
    N = pb['N']
    u0v = l2c(case['u0'])[:N]
    res = {'viol': [], 'evals': 1, 'nontrivial': [], 'worst': {}, 'classes': Counter(), 'sample': None}
    base = {'clause': 'run', 'problem': case['spec']['key'], 'sweeper': sweeper, 'L': L, 'M': M, 'alpha': astr(alpha), 'average_jacobian': avg, 'nblocks': nblocks}
    rank = (L, nblocks, M, N, -math.log10(alpha), avg)

    def viol(kind, detail):
        res['viol'].append((dict(base, kind=kind), detail, dict(case), ('run', kind, 'imex' if pb['imex'] else 'implicit'), rank))

    d = O.factors(L, alpha)
    singular = bool(np.any(1.0 + d == 0))
    try:
        rst = case.get('restart')
        ctrl, _ = make_controller(pb, L, M, alpha, dt, restol, maxiter, avg, [LogSolution], restart=None if rst is None else (int(rst[0]), t0 + int(rst[1]) * L * dt))
    except HarnessError:
        raise
    except Exception as e:  # noqa: BLE001
        res['classes']['premise_not_met:constructor_raised' + (':singular_factor_predicted' if singular else ':UNPREDICTED')] += 1
        res['sample'] = dict(base, outcome=f'constructor raised {type(e).__name__}')
        return res
    P = ctrl.MS[0].levels[0].prob
    nodes = np.asarray(ctrl.MS[0].levels[0].sweep.coll.nodes, dtype=float)
    Q = O.lagrange_Q(nodes)
    Tend = t0 + L * dt * nblocks
    try:
        with warnings.catch_warnings():
            warnings.simplefilter('ignore')
            uend, stats = ctrl.run(u0=mesh_from(P, u0v), t0=t0, Tend=Tend)
    except Exception as e:  # noqa: BLE001
        res['classes']['premise_not_met:run_raised' + (':singular_factor_predicted' if singular else ':UNPREDICTED')] += 1
        res['sample'] = dict(base, outcome=f'run raised {type(e).__name__}: {e}'[:200])
        return res

    K = O.run_bound_constants(Q, dt, pb['A_full'], L, alpha, pb['A_impl'])
    resid = [float(x[1]) for x in get_sorted(stats, type='residual_post_step', sortby='time')]
    niter = [int(x[1]) for x in get_sorted(stats, type='niter', sortby='time')]
    us = get_sorted(stats, type='u', sortby='time')
    converged = len(resid) > 0 and all(np.isfinite(r) and r <= restol for r in resid)
    if not converged:
        cls = 'premise_not_met:not_converged'
        if singular:
            cls += ':singular_factor_predicted'
        elif K['rho'] >= 0.5:
            cls += ':oracle_rho>=0.5'
        else:
            cls += ':UNPREDICTED(oracle_rho<0.5)'
        res['classes'][cls] += 1
        res['sample'] = dict(base, outcome=cls, max_residual=max(resid) if resid else None, rho_oracle=K['rho'])
        return res
    res['classes']['converged'] += 1

    nsteps_total = L * nblocks
    if case.get('restart') is not None and us:
        # a restart from a later slot shifts the block grid: the run ends where its last block ends (the controller
        # always computes whole blocks), which is what the reference is stepped to
        nsteps_total = max(nsteps_total, int(round((max(t for t, _ in us) - t0) / dt)))
    ref = O.sequential(Q, nodes, dt, pb['A_full'], u0v, t0, nsteps_total, pb['forcing'])
    umax = max(float(np.abs(r).max()) for r in ref + [u0v])
    Kmax = max(K['K_C'], K['K_next'])
    tols = []
    tprev = 0.0
    for b in range(-(-nsteps_total // L) + 1):
        tb = C_R * Kmax * restol + K['K_ic'] * tprev + C_E * EPS * K['condC'] * umax
        tols.append(tb)
        tprev = tb
    worst = 0.0
    matched = 0
    first_bad = None
    for t, u in us:
        k = int(round((t - t0) / dt))
        if k < 1 or k > nsteps_total or abs(t - (t0 + k * dt)) > 8 * EPS * max(abs(Tend), 1.0):
            res['classes']['logged_u_at_unexpected_time'] += 1
            continue
        matched += 1
        got = np.asarray(u).reshape(-1)
        err = float(np.abs(got - ref[k - 1]).max()) if np.all(np.isfinite(got)) else float('inf')
        ratio = err / tols[(k - 1) // L]
        worst = max(worst, ratio)
        if not ratio <= 1 and first_bad is None:
            first_bad = {'step': k, 'time': t, 'err': err, 'tol': tols[(k - 1) // L], 'expected(first 4)': c2l(ref[k - 1][:4]), 'observed(first 4)': c2l(got[:4])}
    if first_bad is not None:
        first_bad.update(K=K, niter=niter, residuals=resid)
        viol('step_value', first_bad)
    got = np.asarray(uend).reshape(-1)
    err = float(np.abs(got - ref[-1]).max()) if np.all(np.isfinite(got)) else float('inf')
    ratio = err / tols[-1]
    worst = max(worst, ratio)
    if not ratio <= 1:
        viol('uend_value', {'err': err, 'tol': tols[-1], 'expected(first 4)': c2l(ref[-1][:4]), 'observed(first 4)': c2l(got[:4]), 'K': K, 'niter': niter})
    res['classes']['step_values_compared'] += matched
    res['worst']['run_values'] = worst
    # ---- a second run() on the same controller, continued from the value and time it returned -----------------------
    if not res['viol'] and np.all(np.isfinite(got)) and case.get('restart') is None:
        Tend2 = Tend + L * dt * nblocks
        try:
            with warnings.catch_warnings():
                warnings.simplefilter('ignore')
                uend2, stats2 = ctrl.run(u0=mesh_from(P, got), t0=Tend, Tend=Tend2)
        except Exception as e:  # noqa: BLE001
            viol('second_run_raised', {'error': f'{type(e).__name__}: {e}'[:200]})
            return res
        resid2 = [float(x[1]) for x in get_sorted(stats2, type='residual_post_step', sortby='time')]
        us2 = get_sorted(stats2, type='u', sortby='time')
        if len(resid2) > 0 and all(np.isfinite(r) and r <= restol for r in resid2):
            ref2 = O.sequential(Q, nodes, dt, pb['A_full'], got, Tend, L * nblocks, pb['forcing'])
            got2 = np.asarray(uend2).reshape(-1)
            err2 = float(np.abs(got2 - ref2[-1]).max()) if np.all(np.isfinite(got2)) else float('inf')
            nsteps2 = len(us2)
            res['classes']['second_run_compared'] += 1
            worst = max(worst, err2 / tols[-1])
            res['worst']['run_values'] = worst
            if nsteps2 != L * nblocks:
                viol('second_run_step_count', {'expected': L * nblocks, 'observed': nsteps2, 'times': [float(t) for t, _ in us2][:12]})
            elif not err2 / tols[-1] <= 1:
                viol('second_run_uend_value', {'err': err2, 'tol': tols[-1], 'expected(first 4)': c2l(ref2[-1][:4]), 'observed(first 4)': c2l(got2[:4]), 'window': [Tend, Tend2]})
        else:
            res['classes']['premise_not_met:second_run_not_converged'] += 1
        # ---- a third run() on the same controller after the user has halved the step size of its levels ---------------
        if not res['viol'] and res['classes'].get('second_run_compared') and np.all(np.isfinite(np.asarray(uend2).reshape(-1))):
            dt3 = dt / 2
            got2 = np.asarray(uend2).reshape(-1)
            for S in ctrl.MS:
                S.levels[0].params.dt = dt3
            Tend3 = Tend2 + L * dt3 * nblocks
            try:
                with warnings.catch_warnings():
                    warnings.simplefilter('ignore')
                    uend3, stats3 = ctrl.run(u0=mesh_from(P, got2), t0=Tend2, Tend=Tend3)
            except Exception as e:  # noqa: BLE001
                viol('run_after_step_size_change_raised', {'error': f'{type(e).__name__}: {e}'[:200]})
                return res
            resid3 = [float(x[1]) for x in get_sorted(stats3, type='residual_post_step', sortby='time')]
            us3 = get_sorted(stats3, type='u', sortby='time')
            K3 = O.run_bound_constants(Q, dt3, pb['A_full'], L, alpha, pb['A_impl'])
            if len(resid3) > 0 and all(np.isfinite(r) and r <= restol for r in resid3) and K3['rho'] < 0.5:
                ref3 = O.sequential(Q, nodes, dt3, pb['A_full'], got2, Tend2, L * nblocks, pb['forcing'])
                got3 = np.asarray(uend3).reshape(-1)
                K3max = max(K3['K_C'], K3['K_next'])
                tol3, tp = 0.0, 0.0
                for b in range(nblocks + 1):
                    tol3 = C_R * K3max * restol + K3['K_ic'] * tp + C_E * EPS * K3['condC'] * umax
                    tp = tol3
                err3 = float(np.abs(got3 - ref3[-1]).max()) if np.all(np.isfinite(got3)) else float('inf')
                res['classes']['run_after_step_size_change_compared'] += 1
                worst = max(worst, err3 / tol3)
                res['worst']['run_values'] = worst
                if len(us3) != L * nblocks:
                    viol('run_after_step_size_change_step_count', {'expected': L * nblocks, 'observed': len(us3), 'times': [float(t) for t, _ in us3][:12]})
                elif not err3 / tol3 <= 1:
                    viol('run_after_step_size_change_uend_value', {'err': err3, 'tol': tol3, 'dt': dt3, 'expected(first 4)': c2l(ref3[-1][:4]), 'observed(first 4)': c2l(got3[:4]), 'window': [Tend2, Tend3]})
            else:
                res['classes']['premise_not_met:run_after_step_size_change_not_converged'] += 1
    if L >= 2 and max(niter or [0]) >= 1:
        res['nontrivial'].append(common.short_hash(base))
    res['sample'] = dict(base, dt=dt, t0=t0, niter=niter, max_residual=max(resid), rho_oracle=K['rho'], K_C=K['K_C'], K_next=K['K_next'], worst_ratio=worst, steps_compared=matched)
    return res


# =====================================================================================================
# enumeration
# =====================================================================================================
def algebra_cases():
    return [{'clause': 'algebra', 'L': L, 'alpha': a} for L in range(1, 17) for a in ALPHAS]


def sweeper_cases(tier, r):
    specs = problem_specs(r)
    gv = g_variants(tier)
    vals = c2l(r.sample(VALUE_POOL, len(VALUE_POOL)))
    out = []
    if tier == 'quick':
        plan = [('QDiagonalization', k) for k in ('dahlquist1', 'dahlquist3', 'heat4', 'advection4')] + [('QDiagonalizationIMEX', k) for k in ('dahlquist_imex3', 'heat_forced4')]
    else:
        plan = [('QDiagonalization', k) for k in ('dahlquist1', 'dahlquist3', 'heat8', 'heat7d', 'advection8')] + [('QDiagonalizationIMEX', k) for k in IMEX_PROBLEMS]
    for sweeper, pk in plan:
        for M in range(1, 6):
            # the IMEX class is documented for ParaDiag only (ignore_ic = True): "it will not work with SDC"
            for ignore_ic in (True, False) if sweeper == 'QDiagonalization' else (True,):
                for upd in (False, True):
                    dt, t0 = r.choice(DT_POOL), r.choice(T0_POOL)
                    for i in range(0, len(gv), G_CHUNK):  # split only for load balance
                        out.append({'clause': 'sweeper', 'spec': specs[pk], 'sweeper': sweeper, 'M': M, 'ignore_ic': ignore_ic, 'update_f_evals': upd, 'dt': dt, 't0': t0, 'values': vals, 'gvars': gv[i : i + G_CHUNK]})
    # other collocation rules (the default one is RADAU-RIGHT on Legendre nodes), each built after a twin on the default rule
    for sweeper, pk in plan[:1] + plan[-1:]:
        for rule in (('RADAU-RIGHT', 'EQUID'), ('LOBATTO', 'LEGENDRE'), ('RADAU-RIGHT', 'CHEBY-1')):
            for M in (2, 3) if tier == 'quick' else (2, 3, 4, 5):
                dt, t0 = r.choice(DT_POOL), r.choice(T0_POOL)
                out.append({'clause': 'sweeper', 'spec': specs[pk], 'sweeper': sweeper, 'M': M, 'ignore_ic': True, 'update_f_evals': False, 'dt': dt, 't0': t0, 'values': vals, 'gvars': gv[:G_CHUNK], 'rule': list(rule)})
    return out


def run_cases(tier, r):
    specs = problem_specs(r)
    probs = ['dahlquist1', 'dahlquist3', 'heat8', 'advection8', 'dahlquist_imex3', 'heat_forced8']
    if tier == 'quick':
        Ls, Ms, als, maxiter = (1, 2, 3, 4), (1, 2, 3), (1e-8, 1e-3, 1e-1, 1.0), 40
    else:
        probs = probs + ['heat7d']
        Ls, Ms, als, maxiter = tuple(range(1, 9)), (1, 2, 3, 5), (1e-10, 1e-6, 1e-4, 1e-2, 1e-1, 0.3, 1.0), 90
    out = []
    u0 = c2l(r.sample(VALUE_POOL, 8))
    u0r = c2l(r.sample(REAL_POOL, 8))
    for pk in probs:
        dt = r.choice(DT_POOL[1:]) if not pk.startswith('dahlquist') else r.choice(DT_POOL)
        t0 = r.choice(T0_POOL)
        for L in Ls:
            for M in Ms:
                for a in als:
                    for avg, nb in [(True, 1), (True, 2), (False, 2)] if tier == 'quick' else [(True, 1), (False, 1)] + ([(True, 2), (False, 2)] if L <= 4 else []):
                        # complex operators (Dahlquist) are started from complex AND from real-valued data: the value handed
                        # to the next block is complex either way
                        for uu in ((u0, u0r) if pk.startswith('dahlquist') else (u0r,)):
                            out.append({'clause': 'run', 'spec': specs[pk], 'L': L, 'M': M, 'alpha': a, 'dt': dt, 't0': t0, 'nblocks': nb, 'avg': avg, 'restol': 1e-12, 'maxiter': maxiter, 'u0': uu})
    # one restart request from every slot of the first and of the second block (unchanged step size: the recomputed
    # run has to give the same values as sequential stepping)
    for pk in ('dahlquist3', 'dahlquist_imex3'):
        for L in ((2, 4) if tier == 'quick' else (1, 2, 3, 4)):
            for slot in range(L):
                for blk in (0, 1):
                    out.append({'clause': 'run', 'spec': specs[pk], 'L': L, 'M': 2, 'alpha': 1e-3, 'dt': 1.0 / 16, 't0': 0.25, 'nblocks': 3, 'avg': True, 'restol': 1e-12, 'maxiter': maxiter, 'u0': u0, 'restart': [slot, blk]})
    # time windows that lie entirely on the negative axis, and one that ends exactly at 0 (sign handling of the end test)
    for pk in ('dahlquist3', 'dahlquist_imex3', 'heat8'):
        for L in ((2, 4) if tier == 'quick' else (1, 2, 3, 4, 8)):
            for t0 in (-1.25, None):
                dtn = 1.0 / 16
                t0v = t0 if t0 is not None else -L * dtn * 2
                out.append({'clause': 'run', 'spec': specs[pk], 'L': L, 'M': 2, 'alpha': 1e-3, 'dt': dtn, 't0': t0v, 'nblocks': 2, 'avg': True, 'restol': 1e-12, 'maxiter': maxiter, 'u0': u0 if pk.startswith('dahlquist') else u0r})
    return out


def iteration_cases(tier, r):
    specs = problem_specs(r)
    probs = ['dahlquist3', 'heat4', 'advection4', 'dahlquist_imex3', 'heat_forced4']
    if tier == 'quick':
        Ls, Ms, als = (1, 2, 3, 4), (1, 2, 3), (1e-8, 1e-2, 1.0)
    else:
        Ls, Ms, als = (1, 2, 3, 4, 8), (1, 2, 3, 5), (1e-10, 1e-4, 1e-1, 1.0)
    vals = c2l(r.sample(VALUE_POOL, len(VALUE_POOL)))
    out = []
    for pk in probs:
        dt, t0 = r.choice(DT_POOL), r.choice(T0_POOL)
        for L in Ls:
            for M in Ms:
                for a in als:
                    for avg in (True, False):
                        out.append({'clause': 'iteration', 'spec': specs[pk], 'L': L, 'M': M, 'alpha': a, 'dt': dt, 't0': t0, 'avg': avg, 'values': vals})
    return out


EVAL = {'algebra': eval_algebra, 'sweeper': eval_sweeper, 'iteration': eval_iteration, 'run': eval_run}


def _eval(case):
    t = time.process_time()
    out = EVAL[case['clause']](case)
    out['cpu'] = time.process_time() - t
    out['clause'] = case['clause']
    return out


def run(rep, tier):
    rep.assumptions += [
        'oracle (vf/oracle/paradiag.py) never calls pySDC: closed-form alpha-circulant factors (mpmath, 40 digits), collocation Q by exact rational Lagrange integration, dense numpy solves',
        'the oracle reads the collocation node positions the sweeper reports (sweep.coll.nodes); that they are the Radau nodes is property C05',
        'the spatial operators of the FD test-bed problems are rebuilt by the oracle (2nd order centred heat / advection); the harness stops with exit 2 if prob.A differs (their correctness is C18 / C12)',
        'problem.init is switched to complex128 before use, exactly as the repository\'s own ParaDiag tests do',
        'clause B feeds the sweeper the closed-form G_inv (the numbers get_G_inv_matrix must return by clause A), so B judges the sweeper only',
        'clause C: a run counts as converged iff every residual_post_step the controller logs is <= restol; non-converged / failed runs are counted as premise-not-met, not judged',
        'numpy.linalg (LAPACK) solve / inv / eig / svd are trusted in the oracle',
    ]
    r = common.rng('c15')
    cases = algebra_cases() + sweeper_cases(tier, r) + iteration_cases(tier, r) + run_cases(tier, r)
    order = list(range(len(cases)))
    r.shuffle(order)  # seed permutes the order only
    # heavy cases first would be nicer for load balance, but order must not matter: keep the permutation
    t_start = time.time()
    results = common.pmap(_eval, [cases[i] for i in order], chunksize=2)
    wall = time.time() - t_start

    per = {c: {'cases': 0, 'evaluations': 0, 'cpu_s': 0.0} for c in EVAL}
    worst = {}
    classes = Counter()
    nontrivial = set()
    samples = {}
    groups = {}
    for i, out in zip(order, results):
        c = out['clause']
        per[c]['cases'] += 1
        per[c]['evaluations'] += out['evals']
        per[c]['cpu_s'] += out['cpu']
        for k, v in out['worst'].items():
            worst[f'{c}:{k}'] = max(worst.get(f'{c}:{k}', 0.0), v)
        for k, v in out['classes'].items():
            classes[f'{c}:{k}'] += v
        nontrivial.update(out['nontrivial'])
        if out['sample'] is not None:
            samples.setdefault(c, []).append((i, out['sample']))
        for sig, det, rpl, gkey, rank in out['viol']:
            groups.setdefault(common.canon(gkey), []).append((common.canon(rank), common.canon(sig), sig, det, rpl, rank))

    # one violation per cause group: the simplest failing case, with the size of the group
    for gk in sorted(groups):
        lst = sorted(groups[gk], key=lambda x: (_rank_key(x[5]), x[1]))
        _, _, sig, det, rpl, _ = lst[0]
        det = dict(det)
        det['failing_cases_in_group'] = len(lst)
        det['other_failing_signatures'] = [x[2] for x in lst[1:4]]
        rep.violation(sig, det, rpl)

    for c in per:
        per[c]['cpu_s'] = round(per[c]['cpu_s'], 2)
    cov = rep.coverage
    cov['evaluations'] = int(sum(p['evaluations'] for p in per.values()))
    cov['distinct_nontrivial'] = len(nontrivial)
    cov['rule'] = (
        'complete enumeration of three lattices. algebra: every (L, alpha) in 1..16 x {1e-10..1e-1, 1} (3 matrix identities each) and every '
        'mode (l, M) of it (one get_G_inv_matrix call each); sweeper: every (problem, sweeper class, M, ignore_ic, update_f_evals, G variant, '
        'route) x every basis vector of the rhs space + 3 linearity probes + the full residual route (route set_G_inv: probes + full route '
        'only); iteration: every (problem, L, M, alpha, average_jacobian) x every basis vector of (u0, node values of all steps) + zero + '
        '2 probes; runs: every (problem, L, M, alpha, average_jacobian, nblocks). evaluations = comparisons against the oracle. distinct_nontrivial = distinct case hashes with a '
        'non-trivial reference: algebra L >= 2; G modes with M >= 2 or d != 0; sweeper (config, G, route) with M >= 2 or G != I; iteration configs with L >= 2; runs that '
        'converged with L >= 2 after >= 1 iteration'
    )
    cov['exhaustive'] = True
    cov['dimensions'] = {
        'algebra': {'L': '1..16', 'alpha': [astr(a) for a in ALPHAS], 'M': '1..5', 'modes': 'all l < L'},
        'sweeper': {'problems': sorted({c['spec']['key'] for c in cases if c['clause'] == 'sweeper'}), 'M': '1..5', 'G_variants': len(g_variants(tier)), 'routes': ['default(I): full basis', 'G_inv as sweeper parameter: full basis', 'set_G_inv: linearity probes + full route'], 'flags': 'ignore_ic x update_f_evals (IMEX class: ignore_ic=True only)'},
        'runs': {k: sorted({(astr(c[k]) if k == 'alpha' else c[k]) for c in cases if c['clause'] == 'run'}, key=str) for k in ('L', 'M', 'alpha', 'nblocks', 'avg', 'restol', 'maxiter')},
    }
    cov['dimensions']['iteration'] = {k: sorted({(astr(c[k]) if k == 'alpha' else c[k]) for c in cases if c['clause'] == 'iteration'}, key=str) for k in ('L', 'M', 'alpha', 'avg')}
    cov['dimensions']['iteration']['problems'] = sorted({c['spec']['key'] for c in cases if c['clause'] == 'iteration'})
    cov['dimensions']['runs']['problems'] = sorted({c['spec']['key'] for c in cases if c['clause'] == 'run'})
    cov['per_clause'] = per
    cov['worst_ratio_err_over_tol'] = {k: float(f'{v:.3g}') for k, v in sorted(worst.items())}
    cov['worst_headroom'] = float(f'{(1.0 / max(worst.values())) if worst and max(worst.values()) > 0 else float("inf"):.3g}')
    cov['outcome_classes'] = dict(sorted(classes.items()))
    cov['tolerance_constants'] = {'C_A': C_A, 'C_G': C_G, 'C_S': C_S, 'C_R': C_R, 'C_E': C_E}
    cov['pool_wall_s'] = round(wall, 2)
    smp = []
    for c in ('algebra', 'sweeper', 'iteration', 'run'):
        lst = sorted(samples.get(c, []), key=lambda x: x[0])
        smp += [lst[j][1] for j in sorted({len(lst) // 7, len(lst) // 2, len(lst) - 1})] if lst else []
    cov['samples'] = smp
    n_conv = classes.get('run:converged', 0)
    if n_conv == 0:
        raise HarnessError('no ParaDiag run converged: clause C would be vacuous')


def _rank_key(rank):
    return tuple((0, x) if isinstance(x, (int, float, bool)) else (1, str(x)) for x in rank)


def replay(rep, case):
    out = EVAL[case['clause']](case)
    for sig, det, rpl, _, _ in out['viol']:
        rep.violation(sig, det, rpl)
