"""C20 — descriptions are interpreted consistently and invalid setups are rejected.

Three exhaustive enumerations on the real Step / Level / controller classes:
  A. grammar of valid descriptions: every assignment of shapes {scalar, list of length 1..4} to the list-capable
     entries with at most 2 (thorough: 3) list-valued entries -> built hierarchy compared with `vf.oracle.descmodel`,
     one-step run must succeed, second construction from the same description object must give the same hierarchy;
  B. single-fault table from 7 valid bases (every fault at every level position where the entry is consulted), plus
     every frozen object reachable from the controller and every read-only problem parameter -> must raise;
  C. every subset (both insertion orders) of a pool of user-addable convergence controllers with one overriding
     parameter each -> one instance per class, ascending control order, user parameters win.
"""

import collections
import copy
import itertools
import signal

import numpy as np

from pySDC.core.errors import ConvergenceError
from pySDC.helpers.pysdc_helper import FrozenClass

# ground truth for "declared": every (class, name) pair that `add_attr` was actually called with in this process,
# recorded independently of the list the library keeps (class -> set of names)
_DECLARED = {}
_orig_add_attr = FrozenClass.add_attr.__func__


def _recording_add_attr(cls, key, *a, **kw):
    _DECLARED.setdefault(cls, set()).add(key)
    return _orig_add_attr(cls, key, *a, **kw)


FrozenClass.add_attr = classmethod(_recording_add_attr)

# ground truth for "read-only": every name an object was told to register with readOnly=True, recorded independently of the
# sets the library keeps (kept on the object itself)
from pySDC.core.common import RegisterParams  # noqa: E402

_orig_register = RegisterParams._makeAttributeAndRegister


def _recording_register(self, *names, localVars=None, readOnly=False):
    if readOnly:
        try:
            object.__setattr__(self, '_vf_ro_declared', set(getattr(self, '_vf_ro_declared', ())) | set(names))
        except Exception:  # noqa: BLE001
            pass
    return _orig_register(self, *names, localVars=localVars, readOnly=readOnly)


RegisterParams._makeAttributeAndRegister = _recording_register
from pySDC.implementations.controller_classes.controller_nonMPI import controller_nonMPI
from pySDC.implementations.controller_classes.controller_ParaDiag_nonMPI import controller_ParaDiag_nonMPI
from pySDC.implementations.problem_classes.TestEquation_0D import testequation0d, test_equation_IMEX
from pySDC.implementations.sweeper_classes.generic_implicit import generic_implicit
from pySDC.implementations.sweeper_classes.imex_1st_order import imex_1st_order
from pySDC.implementations.sweeper_classes.ParaDiagSweepers import QDiagonalization
from pySDC.implementations.transfer_classes.TransferMesh_NoCoarse import mesh_to_mesh as IdentityTransfer
from pySDC.implementations.convergence_controller_classes.adaptivity import Adaptivity
from pySDC.implementations.convergence_controller_classes.step_size_limiter import StepSizeLimiter, StepSizeSlopeLimiter
from pySDC.implementations.convergence_controller_classes.basic_restarting import BasicRestartingNonMPI
from pySDC.implementations.convergence_controller_classes.spread_step_sizes import SpreadStepSizesBlockwiseNonMPI
from pySDC.implementations.convergence_controller_classes.estimate_embedded_error import EstimateEmbeddedError
from pySDC.implementations.convergence_controller_classes.store_uold import StoreUOld
from pySDC.implementations.convergence_controller_classes.interpolate_between_restarts import InterpolateBetweenRestarts
from pySDC.implementations.convergence_controller_classes.crash import StopAtNan
from pySDC.implementations.convergence_controller_classes.hotrod import HotRod
from pySDC.implementations.convergence_controller_classes.check_convergence import CheckConvergence

from vf import common
from vf.oracle import descmodel as dm

LEVEL = 'exploration'
TIMEOUT = 600  # seconds per case; a case that does not finish is a harness error, never a verdict


# distinguishable classes for the list-valued `sweeper_class` / `problem_class` entries
class SwA(generic_implicit):
    pass


class SwB(generic_implicit):
    pass


class SwC(generic_implicit):
    pass


class SwD(generic_implicit):
    pass


class PrA(testequation0d):
    pass


class PrB(testequation0d):
    pass


class PrC(testequation0d):
    pass


class PrD(testequation0d):
    pass


from pySDC.core.collocation import CollBase  # noqa: E402


class CoA(CollBase):
    pass


class CoB(CollBase):
    pass


class CoC(CollBase):
    pass


class CoD(CollBase):
    pass


CLASSES = {c.__name__: c for c in (SwA, SwB, SwC, SwD, PrA, PrB, PrC, PrD, CoA, CoB, CoC, CoD)}

# ------------------------------------------------------------------------------------------------
# A. grammar
# ------------------------------------------------------------------------------------------------
LAM = [(-1.0, -2.0), (-1.5, -2.5), (-0.5, -3.0), (-2.0, -0.25)]  # tuples: a python list would mean 'one entry per level'
ENTRIES = [
    ('problem_params.u0', [1.0, 2.0, 3.0, 4.0]),
    ('problem_params.lambdas', LAM),
    ('level_params.dt', [0.1, 0.05, 0.025, 0.0125]),
    ('level_params.nsweeps', None),  # valid values depend on the length: the coarsest level must sweep once
    ('level_params.restol', [1e-10, 1e-9, 1e-8, 1e-7]),
    ('sweeper_params.num_nodes', [5, 4, 3, 2]),
    ('sweeper_params.QI', ['IE', 'LU', 'IEpar', 'MIN']),
    ('sweeper_params.quad_type', ['RADAU-RIGHT', 'LOBATTO', 'GAUSS', 'RADAU-RIGHT']),
    ('sweeper_class', ['SwA', 'SwB', 'SwC', 'SwD']),
    ('problem_class', ['PrA', 'PrB', 'PrC', 'PrD']),
    ('sweeper_params.collocation_class', ['CoA', 'CoB', 'CoC', 'CoD']),  # a user-defined collocation class (documented sweeper option)
    ('space_transfer_params', [{}, {}, {}, {}]),
    ('base_transfer_params', [{'finter': False}, {'finter': True}, {'finter': False}, {'finter': True}]),
]
JUDGED = [e[0] for e in ENTRIES[:11]]  # the statement names problem, node and step-size parameters (and classes)


def entry_values(name, n):
    """list of n per-position values of an entry (n >= 1); position 0 is also the scalar value"""
    if name == 'level_params.nsweeps':
        return ([3, 2, 2][: n - 1] + [1]) if n > 1 else [1]
    vals = dict(ENTRIES)[name]
    return copy.deepcopy(vals[:n])


def materialise(name, v):
    if name == 'problem_params.lambdas':
        return np.array(v)
    if name in ('sweeper_class', 'problem_class', 'sweeper_params.collocation_class'):
        return CLASSES[v]
    return v


def make_description(shape):
    """shape: tuple of ints per ENTRIES (0 scalar, n list of length n). Returns (description, expected per level)."""
    descr = {
        'problem_params': {},
        'level_params': {},
        'sweeper_params': {},
        'step_params': {'maxiter': 2},
        'space_transfer_class': IdentityTransfer,
    }
    raw = {}
    for (name, _), n in zip(ENTRIES, shape):
        vals = entry_values(name, max(n, 1))
        raw[name] = vals if n else vals[0]
        val = [materialise(name, v) for v in vals] if n else materialise(name, vals[0])
        if '.' in name:
            sub, key = name.split('.')
            descr[sub][key] = val
        else:
            descr[name] = val
    L = dm.n_levels([n for n in shape if n])
    expected = [{name: dm.level_value(raw[name], l) for name in JUDGED} for l in range(L)]
    return descr, expected


def observe_level(Lv):
    P = Lv.prob
    return {
        'problem_params.u0': float(np.real(P.u0)) if np.ndim(P.u0) == 0 else None,
        'problem_params.lambdas': [float(x) for x in np.real(np.ravel(P.lambdas))],
        'level_params.dt': Lv.params.dt,
        'level_params.nsweeps': Lv.params.nsweeps,
        'level_params.restol': Lv.params.restol,
        'sweeper_params.num_nodes': [Lv.sweep.params.num_nodes, int(Lv.sweep.coll.num_nodes), len(Lv.u) - 1],
        'sweeper_params.QI': Lv.sweep.params.QI,
        'sweeper_params.quad_type': [Lv.sweep.params.quad_type, Lv.sweep.coll.quad_type],
        'sweeper_class': type(Lv.sweep).__name__,
        'problem_class': type(P).__name__,
        'sweeper_params.collocation_class': type(Lv.sweep.coll).__name__,
    }


def expected_level(e):
    e = dict(e)
    e['problem_params.lambdas'] = list(e['problem_params.lambdas'])
    e['sweeper_params.num_nodes'] = [e['sweeper_params.num_nodes']] * 3
    e['sweeper_params.quad_type'] = [e['sweeper_params.quad_type']] * 2
    return e


class CaseTimeout(Exception):
    pass


def _alarm(*a):
    raise CaseTimeout()


def guarded(f, *args):
    signal.signal(signal.SIGALRM, _alarm)
    signal.alarm(TIMEOUT)
    try:
        return f(*args)
    finally:
        signal.alarm(0)


def cparams(**kw):
    return {'logger_level': 90, 'dump_setup': False, **kw}


def grammar_case(shape):
    return guarded(_grammar_case, shape)


def _grammar_case(shape):
    """returns list of (signature, detail) ; empty if the description behaves as the model says"""
    shape = tuple(shape)
    out = []
    sig0 = {'part': 'grammar', 'shape': {ENTRIES[i][0]: n for i, n in enumerate(shape) if n}}
    descr, expected = make_description(shape)
    for attempt in ('first', 'second construction from the same description object'):
        try:
            ctrl = controller_nonMPI(1, cparams(), descr)
        except Exception as e:  # noqa: BLE001
            out.append(({**sig0, 'kind': 'valid_description_rejected'}, {'when': f'construction ({attempt})', 'error': f'{type(e).__name__}: {e}'[:300]}))
            return out
        levels = ctrl.MS[0].levels
        if len(levels) != len(expected):
            out.append(({**sig0, 'kind': 'number_of_levels'}, {'expected': len(expected), 'observed': len(levels), 'when': attempt}))
            return out
        for l, (Lv, e) in enumerate(zip(levels, expected)):
            obs = observe_level(Lv)
            exp = expected_level(e)
            bad = {k: {'expected': exp[k], 'observed': obs[k]} for k in exp if obs[k] != exp[k]}
            if bad:
                out.append(({**sig0, 'kind': 'level_parameters', 'level': l, 'entries': sorted(bad)}, {'mismatch': bad, 'when': attempt}))
                return out
        if attempt == 'first':
            try:
                u0 = levels[0].prob.u_exact(0.0)
                ctrl.run(u0, 0.0, levels[0].params.dt)
            except Exception as e:  # noqa: BLE001
                out.append(({**sig0, 'kind': 'valid_description_rejected'}, {'when': 'one-step run', 'error': f'{type(e).__name__}: {e}'[:300]}))
                return out
    return out


# ------------------------------------------------------------------------------------------------
# B. fault table
# ------------------------------------------------------------------------------------------------
def base_description(name):
    """returns (controller kind, num_procs, controller_params, description, n_levels)"""
    lam = np.array([-1.0, -2.0])
    d = {
        'problem_class': testequation0d,
        'problem_params': {'lambdas': lam, 'u0': 1.0},
        'sweeper_class': generic_implicit,
        'sweeper_params': {'num_nodes': 3, 'quad_type': 'RADAU-RIGHT', 'node_type': 'LEGENDRE', 'QI': 'IE', 'initial_guess': 'spread'},
        'level_params': {'dt': 0.1, 'restol': 1e-10, 'nsweeps': 1, 'residual_type': 'full_abs'},
        'step_params': {'maxiter': 2},
    }
    if name == 'sdc':
        return 'nonMPI', 1, cparams(), d, 1
    if name == 'mssdc':
        return 'nonMPI', 3, cparams(), d, 1
    if name == 'sdc_adaptive':
        d['level_params'].pop('restol')
        d['convergence_controllers'] = {Adaptivity: {'e_tol': 1e-5, 'dt_max': 0.09}, InterpolateBetweenRestarts: {}}
        return 'nonMPI', 2, cparams(mssdc_jac=False), d, 1
    if name == 'mlsdc2':
        d['sweeper_params']['num_nodes'] = [3, 2]
        d['level_params']['nsweeps'] = [2, 1]
        d['space_transfer_class'] = IdentityTransfer
        return 'nonMPI', 1, cparams(predict_type='fine_only'), d, 2
    if name == 'pfasst3':
        d['sweeper_params']['num_nodes'] = [3, 2, 2]
        d['problem_params']['u0'] = [1.0, 1.0, 1.0]
        d['space_transfer_class'] = IdentityTransfer
        return 'nonMPI', 2, cparams(predict_type='pfasst_burnin'), d, 3
    if name == 'imex_pfasst2':
        d['problem_class'] = test_equation_IMEX
        d['problem_params'] = {'lambdas_implicit': lam, 'lambdas_explicit': np.array([0.1, -0.1]), 'u0': 1.0}
        d['sweeper_class'] = imex_1st_order
        d['sweeper_params']['QE'] = 'EE'
        d['sweeper_params']['num_nodes'] = [3, 2]
        d['space_transfer_class'] = IdentityTransfer
        return 'nonMPI', 2, cparams(predict_type='pfasst_burnin'), d, 2
    if name == 'paradiag':
        d['sweeper_class'] = QDiagonalization
        d['sweeper_params'].pop('QI')
        return 'ParaDiag', 2, cparams(alpha=1e-4), d, 1
    raise KeyError(name)


BASES = ['sdc', 'mssdc', 'sdc_adaptive', 'mlsdc2', 'pfasst3', 'imex_pfasst2', 'paradiag']
READONLY = {
    'testequation0d': ['nvars', 'lambdas', 'u0', 'useGPU'],
    'test_equation_IMEX': ['nvars', 'lambdas_implicit', 'lambdas_explicit', 'u0'],
}


def fault_table(name):
    """all single faults of base `name` whose faulty entry is consulted; each fault is a JSON-able list"""
    kind, P, cp, d, L = base_description(name)
    F = []
    for k in ('problem_class', 'sweeper_class', 'sweeper_params', 'level_params'):
        F.append(['drop', k])
    F.append(['drop_sub', 'sweeper_params', 'num_nodes'])
    F.append(['drop_sub', 'level_params', 'dt'])
    positions = [None] + list(range(L)) if L > 1 else [None]
    if L > 1:
        F.append(['drop', 'space_transfer_class'])
        F.append(['cset', 'predict_type', 'bogus_predictor'])
        # several sweeps on the coarsest level
        F.append(['set', 'level_params', 'nsweeps', 2, None])
        F.append(['set', 'level_params', 'nsweeps', 2, L - 1])
        F.append(['set', 'level_params', 'nsweeps', 3, L - 1])
    for pos in positions:
        if kind == 'nonMPI':
            F.append(['set', 'level_params', 'residual_type', 'bogus_residual', pos])
            F.append(['set', 'sweeper_params', 'QI', 'BOGUS-QD', pos])
            if name == 'imex_pfasst2':
                F.append(['set', 'sweeper_params', 'QE', 'BOGUS-QD', pos])
        F.append(['set', 'sweeper_params', 'quad_type', 'BOGUS-QUAD', pos])
        F.append(['set', 'sweeper_params', 'node_type', 'BOGUS-NODES', pos])
        if pos in (None, 0):  # the predictor of the finest level is the only one that is called
            F.append(['set', 'sweeper_params', 'initial_guess', 'bogus_guess', pos])
        if P > 1 and L > 1:  # PFASST needs the right end point as node on every level
            F.append(['set', 'sweeper_params', 'quad_type', 'GAUSS', pos])
            F.append(['set', 'sweeper_params', 'quad_type', 'RADAU-LEFT', pos])
    F.append(['dset', 'dtype_u', 'mesh'])
    F.append(['dset', 'dtype_f', 'mesh'])
    if kind == 'nonMPI':
        F.append(['cset', 'predict', True])
    if kind == 'ParaDiag':
        F.append(['cdrop', 'alpha'])
    return F


def apply_fault(fault, d, cp, L):
    k = fault[0]
    if k == 'drop':
        d.pop(fault[1])
    elif k == 'drop_sub':
        d[fault[1]].pop(fault[2])
    elif k == 'set':
        _, sub, key, bad, pos = fault
        if pos is None:
            d[sub][key] = bad
        else:
            cur = d[sub].get(key)
            vals = [dm.level_value(cur, l) for l in range(L)]
            vals[pos] = bad
            d[sub][key] = vals
    elif k == 'dset':
        d[fault[1]] = fault[2]
    elif k == 'cset':
        cp[fault[1]] = fault[2]
    elif k == 'cdrop':
        cp.pop(fault[1])
    else:
        raise KeyError(k)


def build_and_run(kind, P, cp, d):
    cls = controller_nonMPI if kind == 'nonMPI' else controller_ParaDiag_nonMPI
    ctrl = cls(num_procs=P, controller_params=cp, description=d)
    Lv = ctrl.MS[0].levels[0]
    u0 = Lv.prob.u_exact(0.0)
    ctrl.run(u0, 0.0, P * Lv.params.dt)
    return ctrl


def fault_case(arg):
    return guarded(_fault_case, arg)


def _fault_case(arg):
    """arg = (base name, fault or None). Returns dict(status, violations)"""
    name, fault = arg
    kind, P, cp, d, L = base_description(name)
    res = {'base': name, 'fault': fault, 'violations': [], 'rejected_with': None}
    if fault is not None:
        apply_fault(fault, d, cp, L)
        try:
            build_and_run(kind, P, cp, d)
        except CaseTimeout:
            raise
        except Exception as e:  # noqa: BLE001 - any exception class counts as rejection
            res['rejected_with'] = type(e).__name__
            return res
        res['violations'].append(({'part': 'fault', 'base': name, 'fault': fault, 'kind': 'silently_accepted'}, {'expected': 'an exception at construction or during the first one-step run', 'observed': 'construction and run completed'}))
        return res
    # the valid base itself: must build and run (over-rejection), hierarchy as stated, frozen objects, read-only params
    try:
        ctrl = build_and_run(kind, P, cp, d)
    except CaseTimeout:
        raise
    except Exception as e:  # noqa: BLE001
        res['violations'].append(({'part': 'fault', 'base': name, 'kind': 'valid_base_rejected'}, {'error': f'{type(e).__name__}: {e}'[:300]}))
        return res
    # hierarchy of every step
    for i, S in enumerate(ctrl.MS):
        if len(S.levels) != L:
            res['violations'].append(({'part': 'fault', 'base': name, 'kind': 'number_of_levels'}, {'step': i, 'expected': L, 'observed': len(S.levels)}))
            continue
        for l, Lv in enumerate(S.levels):
            exp = {
                'num_nodes': dm.level_value(d['sweeper_params']['num_nodes'], l),
                'dt': dm.level_value(d['level_params']['dt'], l),
                'nsweeps': dm.level_value(d['level_params']['nsweeps'], l),
                'quad_type': dm.level_value(d['sweeper_params']['quad_type'], l),
            }
            obs = {'num_nodes': int(Lv.sweep.coll.num_nodes), 'dt': Lv.params.dt_initial, 'nsweeps': Lv.params.nsweeps, 'quad_type': Lv.sweep.coll.quad_type}
            if exp != obs:
                res['violations'].append(({'part': 'fault', 'base': name, 'kind': 'level_parameters', 'level': l}, {'step': i, 'expected': exp, 'observed': obs}))
    # frozen objects
    frozen = reachable_frozen(ctrl)
    res['frozen'] = len(frozen)
    res['frozen_classes'] = sorted({f'{type(o).__module__}.{type(o).__name__}'.replace('pySDC.', '') for _, o in frozen})
    for path, o in frozen:
        try:
            setattr(o, 'zz_undeclared_attribute', 1)
        except Exception:  # noqa: BLE001
            pass
        else:
            res['violations'].append(({'part': 'frozen', 'base': name, 'kind': 'undeclared_attribute_accepted', 'class': f'{type(o).__module__}.{type(o).__name__}', 'path': path}, {'expected': 'TypeError', 'observed': 'attribute was created'}))
            try:
                object.__delattr__(o, 'zz_undeclared_attribute')
            except Exception:  # noqa: BLE001
                pass
        # names that are declared for OTHER frozen classes (set at construction or added later through add_attr) are
        # undeclared for this one unless it declares them itself
        mine = set(vars(o)) | set().union(*[_DECLARED.get(c, set()) for c in type(o).__mro__])
        foreign = (set().union(*_DECLARED.values()) if _DECLARED else set()) | {k for _, other in frozen for k in vars(other) if not k.startswith('_')}
        for k in sorted(foreign - mine):
            if hasattr(type(o), k):
                continue
            res['foreign_probes'] = res.get('foreign_probes', 0) + 1
            try:
                setattr(o, k, None)
            except Exception:  # noqa: BLE001
                continue
            res['violations'].append(({'part': 'frozen', 'base': name, 'kind': 'attribute_declared_for_another_class_accepted', 'class': f'{type(o).__module__}.{type(o).__name__}', 'attribute': k}, {'path': path, 'declared_for': sorted(f'{c.__module__}.{c.__name__}' for c, ks in _DECLARED.items() if k in ks), 'expected': 'TypeError', 'observed': 'attribute was created'}))
            try:
                object.__delattr__(o, k)
            except Exception:  # noqa: BLE001
                pass
            break
        declared = [k for k in vars(o) if not k.startswith('_')] + list(getattr(type(o), 'attrs', []))
        for k in declared:
            try:
                setattr(o, k, getattr(o, k))
            except Exception as e:  # noqa: BLE001
                res['violations'].append(({'part': 'frozen', 'base': name, 'kind': 'declared_attribute_rejected', 'class': f'{type(o).__module__}.{type(o).__name__}', 'attribute': k}, {'path': path, 'error': f'{type(e).__name__}: {e}'[:200]}))
                break
    # read-only problem parameters
    nro = 0
    for i, S in enumerate(ctrl.MS):
        for l, Lv in enumerate(S.levels):
            Pb = Lv.prob
            base_cls = [c.__name__ for c in type(Pb).__mro__ if c.__name__ in READONLY][0]
            names = sorted(set(READONLY[base_cls]) | set(getattr(Pb, '_parNamesReadOnly', ())) | set(getattr(Pb, '_vf_ro_declared', ())))
            for n in names:
                nro += 1
                if n not in Pb.params:
                    res['violations'].append(({'part': 'readonly', 'base': name, 'kind': 'parameter_not_registered', 'parameter': n}, {'step': i, 'level': l, 'params': sorted(Pb.params)}))
                    continue
                old = getattr(Pb, n)
                try:
                    setattr(Pb, n, old)
                except Exception:  # noqa: BLE001
                    continue
                res['violations'].append(({'part': 'readonly', 'base': name, 'kind': 'readonly_parameter_changed', 'parameter': n}, {'step': i, 'level': l, 'expected': 'ReadOnlyError', 'observed': 'assignment accepted'}))
    res['readonly'] = nro
    return res


def reachable_frozen(root):
    """breadth-first over attributes of pySDC objects, lists, tuples and dict values; returns [(path, frozen object)]"""
    seen = set()
    out = []
    queue = collections.deque([(root, 'controller')])
    while queue:
        o, path = queue.popleft()
        if id(o) in seen:
            continue
        seen.add(id(o))
        if isinstance(o, FrozenClass):
            out.append((path, o))
        if isinstance(o, (list, tuple)):
            for i, x in enumerate(o):
                queue.append((x, f'{path}[{i}]'))
        elif isinstance(o, dict):
            for k, x in o.items():
                if isinstance(k, (str, int)):
                    queue.append((x, f'{path}[{k!r}]'))
        elif isinstance(o, (np.ndarray, type, str, bytes, int, float, complex)) or o is None:
            continue
        elif hasattr(o, '__dict__') and (type(o).__module__ or '').startswith('pySDC'):
            for k, x in vars(o).items():
                if callable(x) and not hasattr(x, '__dict__'):
                    continue
                short = k.split('__')[-1] if k.startswith('_') and '__' in k[1:] else k
                queue.append((x, f'{path}.{short}'))
    return out


# ------------------------------------------------------------------------------------------------
# C. convergence controllers
# ------------------------------------------------------------------------------------------------
# (class, parameters the user supplies, the overriding parameter that must win, documented default control order)
POOL = [
    (Adaptivity, {'e_tol': 1e-5, 'dt_max': 0.09, 'beta': 0.8}, ('beta', 0.8), -50),
    (StepSizeLimiter, {'dt_max': 0.07}, ('dt_max', 0.07), 92),
    (BasicRestartingNonMPI, {'max_restarts': 7}, ('max_restarts', 7), 95),
    (SpreadStepSizesBlockwiseNonMPI, {'overwrite_to_reach_Tend': False}, ('overwrite_to_reach_Tend', False), 100),
    (EstimateEmbeddedError, {'rel_error': True}, ('rel_error', True), -80),
    (HotRod, {'HotRod_tol': 1e2}, ('HotRod_tol', 1e2), -40),  # inside the quick pool: its dependencies are subclasses of Adaptivity's
    (StoreUOld, {'control_order': 89}, ('control_order', 89), 90),
    (InterpolateBetweenRestarts, {'control_order': 51}, ('control_order', 51), 50),
    (StopAtNan, {'thresh': 1e10}, ('thresh', 1e10), 94),
    (StepSizeSlopeLimiter, {'dt_slope_max': 3.0}, ('dt_slope_max', 3.0), 91),
]
POOLNAMES = [p[0].__name__ for p in POOL]
CALLBACKS = ('setup_status_variables', 'reset_status_variables', 'reset_buffers_nonMPI', 'pre_iteration_processing', 'post_iteration_processing', 'convergence_control', 'post_spread_processing', 'post_step_processing', 'prepare_next_block', 'prepare_next_block_nonMPI', 'post_run_processing')


def cc_case(arg):
    return guarded(_cc_case, arg)


def _cc_case(arg):
    subset, reverse, P = arg
    members = [POOL[i] for i in subset]
    if reverse:
        members = members[::-1]
    sig0 = {'part': 'convergence_controllers', 'subset': [m[0].__name__ for m in members], 'P': P}
    out = []
    kind, _, cp, d, L = base_description('sdc')
    d['level_params'].pop('restol')
    d['convergence_controllers'] = {m[0]: dict(m[1]) for m in members}
    cp['mssdc_jac'] = False
    # every class asked for through add_convergence_controller (by the description or as a dependency of another
    # controller) is recorded at the call, independently of what the library decides to do with the request
    requested = []
    _orig_add = controller_nonMPI.add_convergence_controller

    def _recording_add(self, convergence_controller, description, params=None, allow_double=False):
        requested.append(convergence_controller)
        return _orig_add(self, convergence_controller, description, params=params, allow_double=allow_double)

    controller_nonMPI.add_convergence_controller = _recording_add
    try:
        ctrl = controller_nonMPI(num_procs=P, controller_params=cp, description=d)
    except Exception as e:  # noqa: BLE001
        return [({**sig0, 'kind': 'valid_setup_rejected'}, {'when': 'construction', 'error': f'{type(e).__name__}: {e}'[:300]})]
    finally:
        del controller_nonMPI.add_convergence_controller  # the inherited method is visible again
    CC = ctrl.convergence_controllers
    types = [type(c) for c in CC]
    for need in dict.fromkeys(requested):
        if need not in types and need not in [m[0] for m in members]:
            out.append(({**sig0, 'kind': 'requested_dependency_not_instantiated', 'class': need.__name__}, {'controllers': [t.__name__ for t in types], 'requested': [t.__name__ for t in requested]}))
    dup = sorted({t.__name__ for t in types if types.count(t) > 1})
    if dup:
        out.append(({**sig0, 'kind': 'instantiated_more_than_once', 'classes': dup}, {'controllers': [t.__name__ for t in types]}))
    for need in [m[0] for m in members] + [CheckConvergence, BasicRestartingNonMPI]:
        if need not in types:
            out.append(({**sig0, 'kind': 'not_instantiated', 'class': need.__name__}, {'controllers': [t.__name__ for t in types]}))
    orders = [c.params.control_order for c in CC]
    if not dm.order_ok(list(ctrl.convergence_controller_order), orders):
        out.append(({**sig0, 'kind': 'not_in_ascending_control_order'}, {'order': [int(i) for i in ctrl.convergence_controller_order], 'control_orders': orders, 'controllers': [t.__name__ for t in types]}))
    user = {m[0]: m for m in members}
    for c in CC:
        if type(c) in user:
            for k, v in user[type(c)][1].items():
                if c.params.get(k) != v:
                    out.append(({**sig0, 'kind': 'user_parameter_not_applied', 'class': type(c).__name__, 'parameter': k}, {'expected': v, 'observed': c.params.get(k)}))
    # classes of the pool that were added automatically keep their documented default control order
    for cls, _, _, default_order in POOL:
        if cls in types and cls not in user:
            c = CC[types.index(cls)]
            if c.params.control_order != default_order:
                out.append(({**sig0, 'kind': 'default_changed', 'class': cls.__name__}, {'expected_control_order': default_order, 'observed': c.params.control_order}))
    if not out:
        # observed call order: every loop of the controller over its convergence controllers (one per callback and step)
        # visits each of them once; the control orders it meets must not decrease
        calls = {}
        n_cc = len(CC)

        def wrap(c, name):
            orig = getattr(c, name)

            def f(controller, *a, **kw):
                S = a[0] if a and hasattr(a[0], 'levels') else kw.get('S')
                import sys as _sys

                fn = _sys._getframe(1).f_code.co_filename.replace('\\', '/')
                if '/controller_classes/' not in fn and not fn.endswith('core/controller.py'):
                    return orig(controller, *a, **kw)  # one convergence controller calling its own callback: not a loop of the controller
                calls.setdefault((name, id(S) if S is not None else None), []).append(c.params.control_order)
                return orig(controller, *a, **kw)

            return f

        for c in CC:
            for name in CALLBACKS:
                if hasattr(c, name):
                    try:
                        setattr(c, name, wrap(c, name))
                    except Exception:  # noqa: BLE001
                        pass
        try:
            Lv = ctrl.MS[0].levels[0]
            ctrl.run(Lv.prob.u_exact(0.0), 0.0, 2 * P * Lv.params.dt)
        except ConvergenceError:
            pass  # a numerical outcome of the run (too many restarts), not a statement about how the setup was interpreted
        except Exception as e:  # noqa: BLE001
            out.append(({**sig0, 'kind': 'valid_setup_rejected'}, {'when': 'one-block run', 'error': f'{type(e).__name__}: {e}'[:300]}))
        for (name, _), seq in sorted(calls.items(), key=lambda kv: kv[0][0]):
            for i in range(0, len(seq) - n_cc + 1, n_cc):
                chunk = seq[i : i + n_cc]
                if sorted(chunk) == sorted(orders) and chunk != sorted(chunk):
                    out.append(({**sig0, 'kind': 'not_called_in_ascending_control_order', 'callback': name}, {'control_orders_in_call_order': chunk, 'controllers': [t.__name__ for t in types]}))
                    break
            else:
                continue
            break
    return out


# ------------------------------------------------------------------------------------------------
def _min_by(viols, keyf):
    best = {}
    for sig, det, rp in viols:
        k = keyf(sig)
        cand = (len(common.canon(rp)), common.canon(rp), sig, det, rp)
        if k not in best or cand[:2] < best[k][:2]:
            best[k] = cand
    return [(b[2], b[3], b[4]) for _, b in sorted(best.items())]


def run(rep, tier):
    rep.assumptions += [
        'which problem parameters are read-only is read from the problem classes (readOnly=True in testequation0d / test_equation_IMEX) plus whatever the object lists in _parNamesReadOnly',
        'a fault is demanded to be rejected only where the faulty entry is consulted (initial_guess on the finest level only, predict_type with several levels only, PFASST node condition with num_procs>1 and several levels only); unknown extra keys are not judged',
        'which level\'s transfer entry a level pair receives is the library\'s convention and not judged; judged (part D): class and parameters of one transfer object come from one list position, the last entry repeats, scalars are shared; the number of levels is',
    ]
    r = common.rng('c20')
    viols = []

    # A. grammar
    shapes = dm.shape_assignments(len(ENTRIES), 2 if tier == 'quick' else 3)
    order = list(shapes)
    r.shuffle(order)
    nA = len(order)
    multi = sum(1 for s in order if max(s) > 1)
    for res in common.pimap_unordered(grammar_case_wrapped, order, chunksize=max(1, nA // 256)):
        shape, out = res
        for sig, det in out:
            viols.append((sig, det, {'part': 'grammar', 'shape': list(shape)}))
    # group grammar violations by kind + entries (smallest description first)
    gv = _min_by([v for v in viols if v[0]['part'] == 'grammar'], lambda s: common.canon({k: s[k] for k in s if k in ('kind', 'entries')}))

    # B. faults
    cases = []
    for b in BASES:
        cases.append((b, None))
        for f in fault_table(b):
            cases.append((b, f))
    r.shuffle(cases)
    fres = common.pmap(fault_case, cases, chunksize=4)
    rejected = collections.Counter()
    nfrozen = nro = nforeign = 0
    fclasses = set()
    fv = []
    for res in fres:
        if res['fault'] is not None and res['rejected_with']:
            rejected[res['rejected_with']] += 1
        nfrozen += res.get('frozen', 0)
        nforeign += res.get('foreign_probes', 0)
        nro += res.get('readonly', 0)
        fclasses |= set(res.get('frozen_classes', []))
        for sig, det in res['violations']:
            fv.append((sig, det, {'part': 'fault', 'base': res['base'], 'fault': res['fault']}))
    # frozen / readonly violations: one per class (attribute) — the path of the first occurrence is in the detail
    fv = _min_by(fv, lambda s: common.canon({k: v for k, v in s.items() if k not in ('path', 'base')} if s['part'] in ('frozen', 'readonly') else s))

    # C. convergence controllers
    npool = 8 if tier == 'quick' else 10
    ccases = []
    for k in range(npool + 1):
        for subset in itertools.combinations(range(npool), k):
            for reverse in (False, True) if k > 1 else (False,):
                ccases.append((subset, reverse, 1 if (len(subset) + reverse) % 2 else 2))
    r.shuffle(ccases)
    cv = []
    for arg, out in common.pimap_unordered(cc_case_wrapped, ccases, chunksize=8):
        for sig, det in out:
            cv.append((sig, det, {'part': 'convergence_controllers', 'subset': list(arg[0]), 'reverse': arg[1], 'P': arg[2]}))
    cv = _min_by(cv, lambda s: common.canon({k: s[k] for k in s if k in ('kind', 'class', 'classes', 'parameter', 'callback')}))

    # D. transfer entries
    tcases = transfer_cases()
    tv = []
    for arg, out in zip(tcases, common.pmap(transfer_case, tcases, chunksize=4)):
        for sig, det in out:
            tv.append((sig, det, {'part': 'transfer', 'arg': list(arg)}))
    tv = _min_by(tv, lambda s: common.canon({k: s[k] for k in s if k in ('kind', 'entry')}))

    # E. read-only declarations of every importable problem class
    rcl = readonly_classes()
    rv = []
    nE = 0
    both = {}
    for cn, out in zip(rcl, common.pmap(readonly_case, rcl, chunksize=1)):
        nE += out['n']
        if out.get('both_ways'):
            both[cn] = out['both_ways']
        for sig, det in out['violations']:
            rv.append((sig, det, {'part': 'readonly_classes', 'class': cn}))
    rv = _min_by(rv, lambda s: common.canon({k: s[k] for k in s if k in ('kind', 'declared_in')}))

    for sig, det, rp in gv + fv + cv + tv + rv:
        rep.violation(sig, det, rp)

    nB = len(cases)
    nC = len(ccases)
    rep.coverage.update(
        {
            'evaluations': nA + nB + nC + nfrozen + nro + len(tcases) + nE,
            'distinct_nontrivial': multi + (nB - len(BASES)) + sum(1 for c in ccases if len(c[0]) >= 2),
            'rule': 'A: every shape assignment (scalar | list of length 1..4) of the 13 list-capable entries with at most '
            f'{2 if tier == "quick" else 3} list-valued entries, non-trivial iff some list has length >= 2 (several levels); '
            'B: every entry of the single-fault table of 7 valid bases (non-trivial: every fault; the 7 bases themselves are the over-rejection controls), '
            'every frozen object reachable from each base controller, every read-only parameter of every problem instance; '
            'C: every subset of the controller pool in both insertion orders, non-trivial iff >= 2 classes; D: 2..4 levels x every combination of scalar | list of length 1..levels for space_transfer_class, space_transfer_params, base_transfer_params; E: every importable problem class x every name it registers read-only (recorded at the registration call), and x every ordinary parameter declared read-only by a subclass. All cases are distinct by construction.',
            'samples': [
                _grammar_sample(order),
                {'fault_case': ['pfasst3', ['set', 'sweeper_params', 'quad_type', 'GAUSS', 1]], 'outcome': [r['rejected_with'] for r in fres if r['base'] == 'pfasst3' and r['fault'] == ['set', 'sweeper_params', 'quad_type', 'GAUSS', 1]]},
                {'controllers': [POOLNAMES[i] for i in ccases[0][0]], 'reverse': ccases[0][1], 'num_procs': ccases[0][2]},
            ],
            'exhaustive': True,
            'dimensions': {
                'grammar_descriptions': nA,
                'grammar_multi_level': multi,
                'fault_cases': nB - len(BASES),
                'valid_bases': len(BASES),
                'rejected_with': dict(rejected),
                'frozen_objects_probed': nfrozen,
                'attributes_of_other_frozen_classes_probed': nforeign,
                'frozen_classes': sorted(fclasses),
                'readonly_parameters_probed': nro,
                'controller_subsets': nC,
                'transfer_list_shapes': len(tcases),
                'readonly_declarations_probed': nE,
                'problem_classes_probed': len(rcl),
                'registered_both_ways': both,
                'controller_pool': POOLNAMES[:npool],
            },
        }
    )


def _grammar_sample(order):
    shape = tuple(4 if i == 2 else 2 if i == 6 else 0 for i in range(len(ENTRIES)))  # dt: 4 entries, QI: 2 entries
    assert shape in set(order)
    _, expected = make_description(shape)
    return {
        'grammar_shape': {ENTRIES[i][0]: n for i, n in enumerate(shape) if n},
        'expected_levels': len(expected),
        'expected_per_level': [{k: e[k] for k in ('level_params.dt', 'level_params.nsweeps', 'sweeper_params.num_nodes', 'sweeper_params.QI', 'sweeper_class')} for e in expected],
    }


# ------------------------------------------------------------------------------------------------
# D. the three entries that describe one level transfer come from one position of their lists
# ------------------------------------------------------------------------------------------------
class _TrA(IdentityTransfer):
    pass


class _TrB(IdentityTransfer):
    pass


class _TrC(IdentityTransfer):
    pass


class _TrD(IdentityTransfer):
    pass


TR_CLASSES = [_TrA, _TrB, _TrC, _TrD]
TR_SPACE = [{'rorder': 2, 'iorder': 2}, {'rorder': 2, 'iorder': 4}, {'rorder': 2, 'iorder': 6}, {'rorder': 2, 'iorder': 8}]
TR_BASE = [{'finter': False, 'coll_iorder': 1}, {'finter': True, 'coll_iorder': 1}, {'finter': False, 'coll_iorder': 2}, {'finter': True, 'coll_iorder': 2}]


def transfer_case(arg):
    """arg = (number of levels, length of the class list, of the space-parameter list, of the base-parameter list; 0 =
    scalar).  Which level's entry a level pair receives is the library's convention and not judged; judged are (1) a
    transfer object whose class list and parameter lists have the same length gets all three entries from ONE
    position, (2) the last pair of a hierarchy longer than a list gets that list's last entry (the last entry repeats),
    (3) a scalar entry is shared by all pairs."""
    nlev, ncl, nsp, nbp = arg
    out = []
    descr = {
        'problem_class': CLASSES['PrA'],
        'problem_params': {'u0': 1.0, 'lambdas': np.array(LAM[0])},
        'sweeper_class': CLASSES['SwA'],
        'sweeper_params': {'num_nodes': 3, 'quad_type': 'RADAU-RIGHT', 'QI': 'IE'},
        'level_params': {'dt': [0.1 / 2**i for i in range(nlev)], 'nsweeps': 1},
        'step_params': {'maxiter': 1},
        'space_transfer_class': TR_CLASSES[:ncl] if ncl else TR_CLASSES[0],
        'space_transfer_params': copy.deepcopy(TR_SPACE[:nsp]) if nsp else dict(TR_SPACE[0]),
        'base_transfer_params': copy.deepcopy(TR_BASE[:nbp]) if nbp else dict(TR_BASE[0]),
    }
    sig0 = {'part': 'transfer', 'levels': nlev, 'class_list': ncl, 'space_params_list': nsp, 'base_params_list': nbp}
    try:
        ctrl = controller_nonMPI(num_procs=1, controller_params={'logger_level': 90, 'dump_setup': False}, description=descr)
    except Exception as e:  # noqa: BLE001
        out.append(({**sig0, 'kind': 'valid_description_rejected'}, {'error': f'{type(e).__name__}: {e}'[:200]}))
        return out
    S = ctrl.MS[0]
    if len(S.levels) != nlev:
        out.append(({**sig0, 'kind': 'number_of_levels'}, {'expected': nlev, 'observed': len(S.levels)}))
        return out
    td = S._Step__transfer_dict
    seen = []
    for l in range(1, nlev):
        bt = td[(S.levels[l - 1], S.levels[l])].__self__
        st = bt.space_transfer
        ic = TR_CLASSES.index(type(st)) if type(st) in TR_CLASSES else None
        isp = next((i for i, q in enumerate(TR_SPACE) if getattr(st.params, 'iorder', None) == q['iorder']), None)
        ib = next((i for i, q in enumerate(TR_BASE) if (bool(bt.params.finter), bt.params.coll_iorder) == (q['finter'], q['coll_iorder'])), None)
        seen.append((ic, isp, ib))
        same_len = [n for n in (ncl, nsp, nbp) if n]
        idx = [i for i, n in zip((ic, isp, ib), (ncl, nsp, nbp)) if n]
        if None in (ic, isp, ib):
            out.append(({**sig0, 'kind': 'transfer_entry_not_from_description'}, {'pair': [l - 1, l], 'positions(class, space params, base params)': [ic, isp, ib]}))
        elif len(set(same_len)) == 1 and len(set(idx)) > 1:
            out.append(({**sig0, 'kind': 'transfer_entries_from_different_positions'}, {'pair': [l - 1, l], 'positions(class, space params, base params)': [ic, isp, ib]}))
        for i, n in zip((ic, isp, ib), (ncl, nsp, nbp)):
            if n == 0 and i != 0:
                out.append(({**sig0, 'kind': 'scalar_entry_not_shared'}, {'pair': [l - 1, l], 'position': i}))
    for name, n, col in (('class', ncl, 0), ('space params', nsp, 1), ('base params', nbp, 2)):
        if 0 < n < nlev and seen[-1][col] != n - 1:
            out.append(({**sig0, 'kind': 'last_entry_does_not_repeat', 'entry': name}, {'positions_per_pair': [t[col] for t in seen], 'list_length': n}))
    return out


def readonly_classes():
    from vf.env import c12_recipes as rc

    classes, _ = rc.discover()
    return sorted(n for n in classes if n in rc.VARIANTS and n not in rc.ABSTRACT)


def readonly_case(clsname):
    """Every importable problem class: (a) each name it registers with readOnly=True (recorded at the call) rejects assignment,
    also when the same name is registered as an ordinary parameter too; (b) a subclass that declares one of the parent's
    writable parameters read-only (every such parameter in turn) rejects assignment of it."""
    try:
        return guarded(_readonly_case, clsname)
    except TimeoutError:
        return {'n': 0, 'violations': [], 'skipped': 'timeout'}


def _probe(Pb, n):
    try:
        old = getattr(Pb, n)
    except Exception:  # noqa: BLE001
        return None
    try:
        setattr(Pb, n, old)
    except Exception:  # noqa: BLE001
        return True
    return False


def _readonly_case(clsname):
    from vf.env import c12_recipes as rc

    classes, _ = rc.discover()
    cls = classes[clsname]
    label, params = rc.VARIANTS[clsname]('quick')[0]
    out = {'n': 0, 'violations': [], 'both_ways': []}
    try:
        Pb = cls(**params)
    except Exception as e:  # noqa: BLE001
        out['skipped'] = f'{type(e).__name__}: {e}'[:120]
        return out
    ro = sorted(set(getattr(Pb, '_vf_ro_declared', ())))
    writable = sorted(set(Pb._parNames) - set(ro))
    for n in ro:
        out['n'] += 1
        if n in Pb._parNames:
            out['both_ways'].append(n)
        if n not in Pb.params:
            out['violations'].append(({'part': 'readonly_classes', 'kind': 'parameter_not_registered', 'class': clsname, 'parameter': n}, {'params': sorted(Pb.params)}))
        elif _probe(Pb, n) is False:
            out['violations'].append(({'part': 'readonly_classes', 'kind': 'readonly_parameter_changed', 'class': clsname, 'parameter': n}, {'variant': label, 'also_registered_as_ordinary_parameter': n in Pb._parNames, 'expected': 'ReadOnlyError', 'observed': 'assignment accepted'}))
    for n in writable:

        def __init__(self, _n=n, **kw):
            cls.__init__(self, **kw)
            self._makeAttributeAndRegister(_n, localVars={_n: getattr(self, _n)}, readOnly=True)

        Sub = type(f'{clsname}_{n}_readonly', (cls,), {'__init__': __init__})
        try:
            Q = Sub(**params)
        except Exception:  # noqa: BLE001
            continue
        out['n'] += 1
        if n not in Q.params:
            out['violations'].append(({'part': 'readonly_classes', 'kind': 'parameter_not_registered', 'class': clsname, 'parameter': n, 'declared_in': 'subclass'}, {'params': sorted(Q.params)}))
        elif _probe(Q, n) is False:
            out['violations'].append(({'part': 'readonly_classes', 'kind': 'readonly_parameter_changed', 'class': clsname, 'parameter': n, 'declared_in': 'subclass'}, {'variant': label, 'expected': 'ReadOnlyError', 'observed': 'assignment accepted: the subclass declares a parameter read-only that the parent registers as an ordinary one'}))
        # the other parameters keep their status: the parent's ordinary parameters stay writable
        for m in writable:
            if m != n and _probe(Q, m) is True:
                out['violations'].append(({'part': 'readonly_classes', 'kind': 'ordinary_parameter_rejected', 'class': clsname, 'parameter': m}, {'after_declaring_read_only': n}))
                break
    return out


def transfer_cases():
    return [(nlev, a, b, c) for nlev in (2, 3, 4) for a in range(0, nlev + 1) for b in range(0, nlev + 1) for c in range(0, nlev + 1)]


def grammar_case_wrapped(shape):
    return shape, grammar_case(shape)


def cc_case_wrapped(arg):
    return arg, cc_case(arg)


def replay(rep, case):
    part = case.get('part')
    if part == 'grammar':
        for sig, det in grammar_case(tuple(case['shape'])):
            rep.violation(sig, det, case)
    elif part == 'fault':
        f = case.get('fault')
        res = fault_case((case['base'], f))
        for sig, det in res['violations']:
            rep.violation(sig, det, case)
    elif part == 'convergence_controllers':
        for sig, det in cc_case((tuple(case['subset']), case['reverse'], case['P'])):
            rep.violation(sig, det, case)
    elif part == 'transfer':
        for sig, det in transfer_case(tuple(case['arg'])):
            rep.violation(sig, det, case)
    elif part == 'readonly_classes':
        for sig, det in readonly_case(case['class'])['violations']:
            rep.violation(sig, det, case)
    else:
        raise KeyError(part)
