"""Engine self-tests run by setup_cmd (no property verdict)."""

from vf.engine import explore

LEVEL = 'other'


class Toy:
    """3 binary choices, the third only asked if the first was 1."""

    def __call__(self, ctx):
        a = ctx.choose(2, 'a', 0)
        b = ctx.choose(3, 'b', 1)
        c = ctx.choose(2, 'c', 0) if a else 0
        return explore.Outcome([], [(a, b, c)], (a, b, c))


def run(rep, tier):
    st = explore.explore(Toy())
    assert st.executions == 3 + 6, st.executions
    st = explore.explore(Toy(), bound=0)
    assert st.executions == 1 + 2, st.executions  # b is the only costly point
    try:
        explore.run_once(Toy(), [0, 5])
        raise AssertionError('out of range choice accepted')
    except explore.ReplayDivergence:
        pass
    rep.coverage.update({'explanation': 'engine self-tests passed', 'evaluations': 12, 'distinct_nontrivial': 9, 'samples': [[0, 0], [1, 2, 1]]})


def replay(rep, case):
    pass
