"""C03 — the reported residual is the true collocation defect; stopping is sound.

Part A (E2 lattice, truth): real controller_nonMPI runs over a configuration ball; an independent recorder recomputes
u0 + dt*Q*F(U) + tau - U from the node values a level holds at every post_sweep / post_iteration / post_step callback
(own Q from exact Lagrange integration, own operator) and compares with level.status.residual and the logged records.
Part B (E1 full tree, soundness): every sequence of residual answers (below / above tolerance) a step can see, K in 0..4,
plus at most one forced flag; stopping rule, iteration budget and logged iteration count against the reference model.
"""

import itertools

import numpy as np

from pySDC.core.hooks import Hooks
from pySDC.implementations.controller_classes.controller_nonMPI import controller_nonMPI
from pySDC.implementations.problem_classes.HeatEquation_ND_FD import heatNd_unforced
from pySDC.implementations.problem_classes.TestEquation_0D import test_equation_IMEX, testequation0d
from pySDC.implementations.sweeper_classes.explicit import explicit
from pySDC.implementations.sweeper_classes.generic_implicit import generic_implicit
from pySDC.implementations.sweeper_classes.imex_1st_order import imex_1st_order
from pySDC.implementations.transfer_classes.TransferMesh import mesh_to_mesh
from pySDC.implementations.transfer_classes.TransferMesh_NoCoarse import mesh_to_mesh as IdentityTransfer
from pySDC.helpers.stats_helper import get_sorted, filter_stats

from vf import common
from vf.env import block
from vf.props import _e1

LEVEL = 'model_checking'


# ------------------------------------------------------------------------------------------------------------
# oracle pieces (no pySDC code): Q from Lagrange integration, operators
# ------------------------------------------------------------------------------------------------------------
def q_matrix(nodes):
    """(M+1)x(M+1) zero padded: Q[m+1, j+1] = int_0^{nodes[m]} l_j(s) ds for the Lagrange basis through `nodes`."""
    nodes = np.asarray(nodes, dtype=float)
    M = len(nodes)
    Q = np.zeros((M + 1, M + 1))
    for j in range(M):
        others = np.delete(nodes, j)
        p = np.poly1d(others, r=True) if M > 1 else np.poly1d([1.0])
        p = p / p(nodes[j]) if M > 1 else p
        P = p.integ()
        for m in range(M):
            Q[m + 1, j + 1] = P(nodes[m]) - P(0.0)
    return Q


def heat_matrix(nvars, nu):
    """periodic second-order centred Laplacian on [0,1) with nvars points."""
    dx = 1.0 / nvars
    A = np.zeros((nvars, nvars))
    for i in range(nvars):
        A[i, i] = -2.0
        A[i, (i + 1) % nvars] += 1.0
        A[i, (i - 1) % nvars] += 1.0
    return nu / dx**2 * A


PROBLEMS = {
    'dahlquist': dict(cls=testequation0d, params={'lambdas': np.array([-1.0 + 0.5j, -0.3, 0.2j]), 'u0': 1.0}, sweeper=generic_implicit),
    'dahlquist_expl': dict(cls=testequation0d, params={'lambdas': np.array([-1.0 + 0.5j, -0.3, 0.2j]), 'u0': 1.0}, sweeper=explicit),
    'imex': dict(cls=test_equation_IMEX, params={'lambdas_implicit': np.array([-2.0, -0.5 + 1j]), 'lambdas_explicit': np.array([0.3j, -0.1]), 'u0': 1.0}, sweeper=imex_1st_order),
    'heat': dict(cls=heatNd_unforced, params={'nvars': 8, 'nu': 0.1, 'freq': 2, 'bc': 'periodic'}, sweeper=generic_implicit),
    'vdp': dict(cls=None, params={'mu': 2.0, 'newton_tol': 1e-12, 'newton_maxiter': 50, 'u0': np.array([2.0, 0.0])}, sweeper=generic_implicit),
}


def operator_of(name, prob):
    """(F, lip): right-hand side F(U) for an array U of node values (rows), written independently of the problem's
    eval_f, and a Lipschitz-type magnitude for the rounding tolerance."""
    if name.startswith('dahlquist'):
        A = np.diag(PROBLEMS[name]['params']['lambdas'])
    elif name == 'imex':
        A = np.diag(PROBLEMS[name]['params']['lambdas_implicit'] + PROBLEMS[name]['params']['lambdas_explicit'])
    elif name == 'heat':
        n = prob.nvars[0] if hasattr(prob.nvars, '__len__') else prob.nvars
        A = heat_matrix(n, PROBLEMS[name]['params']['nu'])
    elif name == 'vdp':
        mu = PROBLEMS[name]['params']['mu']

        def F(U):
            # van der Pol: u1' = u2, u2' = mu (1 - u1^2) u2 - u1
            return np.stack([U[:, 1], mu * (1.0 - U[:, 0] ** 2) * U[:, 1] - U[:, 0]], axis=1)

        return F, 20.0 * mu
    else:
        raise KeyError(name)
    return (lambda U, A=A: U @ A.T), float(np.linalg.norm(A, np.inf))


# ------------------------------------------------------------------------------------------------------------
# recorder for part A
# ------------------------------------------------------------------------------------------------------------
REC = None


class DefectRecorder(Hooks):
    def _check(self, step, level_number, where):
        rec = REC
        if rec is None:
            return
        levels = [step.levels[level_number]] if where == 'post_sweep' else [step.levels[0]]
        for L in levels:
            if L.status.residual is None or any(u is None for u in L.u) or L.level_index not in rec['ops']:
                continue
            Ffun, lip = rec['ops'][L.level_index]
            Q = rec['Q'][L.level_index]
            M = L.sweep.coll.num_nodes
            U = np.array([np.asarray(L.u[m]).ravel() for m in range(M + 1)])
            F = Ffun(U)
            dt = L.dt
            norms = []
            scale = 0.0
            for m in range(1, M + 1):
                d = U[0] + dt * (Q[m, 1:] @ F[1:]) - U[m]
                s = np.abs(U[0]) + dt * (np.abs(Q[m, 1:]) @ np.abs(F[1:])) + np.abs(U[m])
                if L.tau[m - 1] is not None:
                    d = d + np.asarray(L.tau[m - 1]).ravel()
                    s = s + np.abs(np.asarray(L.tau[m - 1]).ravel())
                norms.append(np.max(np.abs(d)))
                scale = max(scale, np.max(s))
            rt = L.params.residual_type
            ref = max(norms) if rt.startswith('full') else norms[-1]
            if rt.endswith('rel'):
                den = np.max(np.abs(U[0]))
                ref = ref / den
                scale = scale / den
            got = L.status.residual
            tol = 200 * np.finfo(float).eps * scale * max(1.0, lip * dt) + 1e-300
            err = abs(got - ref)
            rec['n'] += 1
            rec['worst'] = max(rec['worst'], err / tol)
            if not err <= tol:
                rec['bad'].append({'where': where, 'slot': step.status.slot, 'level': L.level_index, 'iter': step.status.iter, 'stage': step.status.stage, 'reported': float(got), 'true': float(ref), 'tol': float(tol)})
            rec['seen'].append((where, step.status.slot, L.level_index, step.status.iter, L.time, float(got), float(ref), float(tol)))

    def post_sweep(self, step, level_number):
        super().post_sweep(step, level_number)
        self._check(step, level_number, 'post_sweep')

    def post_iteration(self, step, level_number):
        super().post_iteration(step, level_number)
        self._check(step, level_number, 'post_iteration')

    def post_step(self, step, level_number):
        super().post_step(step, level_number)
        self._check(step, level_number, 'post_step')


DIMS = {
    'problem': ['dahlquist', 'imex', 'heat', 'dahlquist_expl', 'vdp'],
    'residual_type': ['full_abs', 'last_abs', 'full_rel', 'last_rel'],
    'P': [1, 2, 3],
    'L': [1, 2, 3],
    'M': [3, 2, 4],
    'quad_type': ['RADAU-RIGHT', 'LOBATTO', 'GAUSS'],
    'QI': ['LU', 'IE', 'MIN-SR-S', 'TRAP'],
    'restol': [1e-6, 1e-2, 1e-11, -1.0],
    'maxiter': [6, 1, 0, 12],
    'initial_guess': ['spread', 'zero', 'copy'],
    'predict': [None, 'fine_only', 'pfasst_burnin'],
    'jac': [True, False],
    'all_to_done': [False, True],
    'nsweeps': [1, 2],
    'dt': [0.1, 0.5],
}


def ball(radius, base_over):
    base = {k: v[0] for k, v in DIMS.items()}
    base.update(base_over)
    out, seen = [], set()
    names = list(DIMS)
    for r in range(radius + 1):
        for which in itertools.combinations(names, r):
            for vals in itertools.product(*[[v for v in DIMS[d] if v != base[d]] for d in which]):
                c = dict(base)
                c.update(dict(zip(which, vals)))
                key = common.canon(c)
                if key not in seen:
                    seen.add(key)
                    out.append(c)
    return out


def legal(c):
    if c['quad_type'] == 'GAUSS' and c['P'] > 1 and c['L'] > 1:
        return False  # PFASST needs the right end point as a node (rejected by the controller; C20's business)
    if c['quad_type'] == 'LOBATTO' and (c['M'] - (c['L'] - 1)) < 2:
        return False
    if c['M'] - (c['L'] - 1) < 1:
        return False
    if c['problem'] == 'dahlquist_expl' and c['QI'] != 'LU':
        return False  # explicit sweeper has its own QE
    return True


def run_case(c):
    global REC
    spec = dict(PROBLEMS[c['problem']])
    if spec['cls'] is None:
        from pySDC.implementations.problem_classes.Van_der_Pol_implicit import vanderpol

        spec['cls'] = vanderpol
    L = c['L']
    nodes = [c['M'] - i for i in range(L)]
    sweeper_params = {'quad_type': c['quad_type'], 'num_nodes': nodes if L > 1 else nodes[0], 'initial_guess': c['initial_guess']}
    if spec['sweeper'] is explicit:
        sweeper_params['QE'] = 'EE'
    elif spec['sweeper'] is imex_1st_order:
        sweeper_params['QI'] = c['QI']
        sweeper_params['QE'] = 'EE'
    else:
        sweeper_params['QI'] = c['QI']
    level_params = {'restol': c['restol'], 'dt': c['dt'], 'residual_type': c['residual_type'], 'nsweeps': ([c['nsweeps']] * (L - 1) + [1]) if L > 1 else c['nsweeps']}
    pparams = dict(spec['params'])
    description = {
        'problem_class': spec['cls'],
        'problem_params': pparams,
        'sweeper_class': spec['sweeper'],
        'sweeper_params': sweeper_params,
        'level_params': level_params,
        'step_params': {'maxiter': c['maxiter']},
    }
    if L > 1:
        if c['problem'] == 'heat':
            pparams['nvars'] = [8, 4, 2][:L]
            description['space_transfer_class'] = mesh_to_mesh
            description['space_transfer_params'] = {'rorder': 2, 'iorder': 2, 'periodic': True}
        else:
            description['space_transfer_class'] = IdentityTransfer
    cp = {'logger_level': 90, 'dump_setup': False, 'hook_class': [DefectRecorder], 'predict_type': c['predict'], 'mssdc_jac': c['jac'], 'all_to_done': c['all_to_done']}
    rec = {'n': 0, 'worst': 0.0, 'bad': [], 'seen': [], 'ops': {}, 'Q': {}}
    try:
        ctrl = controller_nonMPI(num_procs=c['P'], controller_params=cp, description=description)
    except Exception as e:  # construction problems are C20's business; count them
        rec.pop('ops', None), rec.pop('Q', None)
        return c, 'construct:' + type(e).__name__, rec, None
    S0 = ctrl.MS[0]
    for Lv in S0.levels:
        rec['ops'][Lv.level_index] = operator_of(c['problem'], Lv.prob)
        rec['Q'][Lv.level_index] = q_matrix(Lv.sweep.coll.nodes)
    P0 = S0.levels[0].prob
    u0 = P0.u_exact(0.0)
    REC = rec
    try:
        uend, stats = ctrl.run(u0=u0, t0=0.0, Tend=c['P'] * c['dt'] * 2)
    except Exception as e:
        REC = None
        rec.pop('ops', None), rec.pop('Q', None)
        return c, 'run:' + type(e).__name__ + ':' + str(e)[:80], rec, None
    REC = None
    rec.pop('ops', None), rec.pop('Q', None)
    # logged records equal what the recorder saw at the same callback
    bad_log = []
    for typ, where in (('residual_post_iteration', 'post_iteration'), ('residual_post_step', 'post_step')):
        logged = sorted((k.time, k.process, k.iter, v) for k, v in filter_stats(stats, type=typ).items())
        seen = {}
        for w, slot, lvl, it, t, got, ref, tol in rec['seen']:
            if w == where and lvl == 0:
                seen[(t, slot, it if where == 'post_iteration' else -1)] = (ref, tol)
        for t, slot, it, v in logged:
            key = (t, slot, it)
            if key not in seen:
                bad_log.append({'type': typ, 'missing_callback_for': key})
            elif not abs(v - seen[key][0]) <= seen[key][1]:
                bad_log.append({'type': typ, 'key': key, 'logged': float(v), 'true': seen[key][0]})
    niter = [v for _, v in get_sorted(stats, type='niter', sortby='time')]
    return c, 'ok', rec, {'bad_log': bad_log, 'niter': niter}


def part_a(rep, tier):
    # (the last base: three levels with two sweeps per visit on the fine and on the MIDDLE level - the only place where a
    # level that carries a FAS correction is swept more than once on the way down and on the way up)
    bases = [{}, {'L': 2, 'predict': 'fine_only'}, {'L': 2, 'P': 3, 'predict': 'pfasst_burnin'}, {'L': 3, 'nsweeps': 2, 'predict': 'fine_only'}, {'P': 3, 'quad_type': 'LOBATTO'}]  # the last base: single-level multi-step block on a rule with the left end point as node (a later step holds a node value at the interval start that differs from the initial value it has just received)
    radius = 1 if tier == 'quick' else 2
    cases, seen = [], set()
    for b in bases:
        for c in ball(radius, b):
            if legal(c) and common.canon(c) not in seen:
                seen.add(common.canon(c))
                cases.append(c)
    common.rng('c03').shuffle(cases)
    outcomes = {}
    ncmp = 0
    worst = 0.0
    distinct = set()
    for c, oc, rec, extra in common.pimap_unordered(run_case, cases, chunksize=4):
        key = oc.split(':')[0] + (':' + oc.split(':')[1] if ':' in oc else '')
        outcomes[key] = outcomes.get(key, 0) + 1
        ncmp += rec['n']
        worst = max(worst, rec['worst'])
        if rec['n'] > 0:
            distinct.add(common.canon(c))
        if oc.startswith('run:ZeroDivisionError') and c['residual_type'].endswith('rel'):
            # a relative residual of a step whose initial value is identically zero (zero initial guess, later step of a
            # Jacobi block): the residual is undefined, the library divides by zero - a numerical failure, not a verdict
            outcomes['undefined_relative_residual(u0=0)'] = outcomes.get('undefined_relative_residual(u0=0)', 0) + 1
        elif oc.startswith('run:'):
            rep.violation({'kind': 'run_failed', 'cfg': c}, {'error': oc}, {'part': 'A', 'cfg': c})
        for b in rec['bad'][:1]:
            rep.violation({'kind': 'residual_not_true_defect', 'cfg': c, 'where': b['where'], 'level': b['level']}, b, {'part': 'A', 'cfg': c})
        if extra:
            for b in extra['bad_log'][:1]:
                rep.violation({'kind': 'logged_residual', 'cfg': c, 'type': b['type']}, b, {'part': 'A', 'cfg': c})
    rep.coverage['partA'] = {'cases': len(cases), 'radius': radius, 'bases': len(bases), 'outcomes': outcomes, 'residual_comparisons': ncmp, 'worst_err_over_tol': worst, 'dimensions': {k: len(v) for k, v in DIMS.items()}}
    rep.coverage['samples'] = rep.coverage.get('samples', []) + [cases[0]]
    return len(cases), len(distinct)


# ---------------------------------------------------------------------------------------------------------------------
# part M: the mass-matrix sweeper on several levels (imex_1st_order_mass + base_transfer_mass, numpy stand-in problem)
# ---------------------------------------------------------------------------------------------------------------------
MREC = None


class MassDefectRecorder(Hooks):
    """reported residual of a level against the defect of the equation this level holds, recomputed from u, f, tau:
    finest level  M (u0 - U_m) + dt (Q F)_m ;  lower levels (u0 arrives mass-weighted)  u0 - M U_m + dt (Q F)_m + tau_m"""

    def _rec(self, where, step, level_number):
        rec = MREC
        if rec is None:
            return
        L = step.levels[level_number]
        if L.status.residual is None:
            return
        P, Sw = L.prob, L.sweep
        M = Sw.coll.num_nodes
        Q = q_matrix(Sw.coll.nodes)
        norms, scale = [], 0.0
        for m in range(1, M + 1):
            r = np.zeros(P.nvars)
            s = np.zeros(P.nvars)
            for j in range(1, M + 1):
                fj = np.asarray(L.f[j].impl) + np.asarray(L.f[j].expl)
                r += L.dt * Q[m, j] * fj
                s += L.dt * abs(Q[m, j]) * np.abs(fj)
            if L.level_index == 0:
                r += P.M @ (np.asarray(L.u[0]) - np.asarray(L.u[m]))
                s += np.abs(P.M) @ (np.abs(np.asarray(L.u[0])) + np.abs(np.asarray(L.u[m])))
            else:
                r += np.asarray(L.u[0]) - P.M @ np.asarray(L.u[m])
                s += np.abs(np.asarray(L.u[0])) + np.abs(P.M) @ np.abs(np.asarray(L.u[m]))
            if L.tau[m - 1] is not None:
                r += np.asarray(L.tau[m - 1])
                s += np.abs(np.asarray(L.tau[m - 1]))
            norms.append(np.max(np.abs(r)))
            scale = max(scale, np.max(s))
        rt = L.params.residual_type
        ref = max(norms) if rt.startswith('full') else norms[-1]
        tol = 500 * np.finfo(float).eps * scale + 1e-300
        rec['n'] += 1
        err = abs(float(L.status.residual) - ref)
        rec['worst'] = max(rec['worst'], err / tol)
        if not err <= tol and len(rec['bad']) < 3:
            rec['bad'].append({'where': where, 'level': L.level_index, 'iter': step.status.iter, 'reported': float(L.status.residual), 'true': float(ref), 'tol': float(tol), 'carries_tau': L.tau[0] is not None})
        if where == 'post_step':
            rec['final'][L.level_index] = (float(L.status.residual), float(ref), float(scale))

    def post_sweep(self, step, level_number):
        super().post_sweep(step, level_number)
        self._rec('post_sweep', step, level_number)

    def post_step(self, step, level_number):
        super().post_step(step, level_number)
        for l in range(len(step.levels)):
            self._rec('post_step', step, l)


def mass_case(arg):
    global MREC
    from pySDC.implementations.sweeper_classes.imex_1st_order_mass import imex_1st_order_mass
    from pySDC.implementations.transfer_classes.BaseTransfer_mass import base_transfer_mass

    from vf.env.massenv import InjectionTransfer, MassHeat

    nvars, rt, qt, QI = arg
    common.silence_logging()
    description = {
        'problem_class': MassHeat,
        'problem_params': {'nvars': list(nvars), 'nu': 0.5},
        'sweeper_class': imex_1st_order_mass,
        'sweeper_params': {'quad_type': qt, 'num_nodes': 3, 'QI': QI, 'QE': 'EE'},
        'level_params': {'dt': 0.05, 'restol': 1e-11, 'nsweeps': 1, 'residual_type': rt},
        'step_params': {'maxiter': 40},
    }
    if len(nvars) > 1:
        description.update({'space_transfer_class': InjectionTransfer, 'base_transfer_class': base_transfer_mass, 'space_transfer_params': {'finest_nvars': nvars[0]}})
    else:
        description['problem_params']['nvars'] = nvars[0]
    rec = {'n': 0, 'worst': 0.0, 'bad': [], 'final': {}}
    try:
        ctrl = controller_nonMPI(num_procs=1, controller_params={'logger_level': 90, 'dump_setup': False, 'hook_class': [MassDefectRecorder]}, description=description)
        MREC = rec
        P = ctrl.MS[0].levels[0].prob
        ctrl.run(u0=P.u_exact(0.0), t0=0.0, Tend=0.1)
    except Exception as e:  # noqa: BLE001
        MREC = None
        return arg, 'raised:' + type(e).__name__ + ':' + str(e)[:120], rec
    MREC = None
    return arg, 'ok', rec


def part_mass(rep, tier):
    cases = [(nv, rt, qt, QI) for nv in ((15,), (15, 7), (31, 15, 7)) for rt in ('full_abs', 'last_abs') for qt in ('RADAU-RIGHT', 'LOBATTO') for QI in (('LU', 'IE') if tier == 'thorough' else ('LU',))]
    ncmp, worst, outcomes = 0, 0.0, {}
    for arg, oc, rec in common.pmap(mass_case, cases, chunksize=1):
        outcomes[oc.split(':')[0]] = outcomes.get(oc.split(':')[0], 0) + 1
        ncmp += rec['n']
        worst = max(worst, rec['worst'])
        cfg = {'nvars': list(arg[0]), 'residual_type': arg[1], 'quad_type': arg[2], 'QI': arg[3]}
        if oc != 'ok':
            rep.violation({'kind': 'run_failed', 'part': 'mass', 'levels': len(arg[0])}, {'error': oc, 'cfg': cfg}, {'part': 'M', 'arg': [list(arg[0])] + list(arg[1:])})
            continue
        for b in rec['bad'][:1]:
            rep.violation({'kind': 'residual_not_true_defect', 'part': 'mass', 'levels': len(arg[0]), 'level': b['level'], 'where': b['where']}, dict(b, cfg=cfg), {'part': 'M', 'arg': [list(arg[0])] + list(arg[1:])})
        # consequence: when the run has converged, the equation of every level is satisfied - the reported residual vanishes
        for lvl, (reported, true, scale) in rec['final'].items():
            if true <= 1e-9 * max(scale, 1.0) and reported > 1e-6 * max(scale, 1.0) and not rec['bad']:
                rep.violation({'kind': 'converged_but_residual_reported_large', 'part': 'mass', 'level': lvl}, {'reported': reported, 'defect': true, 'cfg': cfg}, {'part': 'M', 'arg': [list(arg[0])] + list(arg[1:])})
    rep.coverage['partM'] = {'cases': len(cases), 'outcomes': outcomes, 'residual_comparisons': ncmp, 'worst_err_over_tol': worst, 'space': 'imex_1st_order_mass (+ base_transfer_mass) on a numpy mass-matrix problem: 1, 2, 3 levels x residual type (full_abs, last_abs) x quadrature (RADAU-RIGHT, LOBATTO) x QI'}
    return len(cases)


def variants_b(Ps, Ks, Ls, forced=False, nsweeps=1):
    out = []
    for L in Ls:
        for P in Ps:
            for K in Ks:
                for atd in (False, True):
                    for jac in ((True, False) if L == 1 else (True,)):
                        out.append(block.default_cfg(P=P, K=K, L=L, nsweeps=nsweeps, predict='pfasst_burnin' if L > 1 else None, jac=jac, all_to_done=atd, forced=forced, checks=('model', 'grammar', 'protocol')))
    return out


def make(cfg):
    return block.BlockRun(cfg)


def run(rep, tier):
    rep.assumptions += [
        'part A: Q from numpy polynomial integration of the Lagrange basis through the nodes the collocation object reports; right-hand sides written independently (diagonal lambdas, periodic 2nd-order Laplacian, van der Pol); imex_1st_order_mass is not covered (needs a FEniCS mass-matrix problem)',
        'part B: residual answers scripted on the finest level in IT_CHECK; convergence at iteration 0 is admitted where the code admits it (iter > 0 or sweep > 0, sweep being initialised to 1)',
    ]
    ncases, ndistinct = part_a(rep, tier)
    part_mass(rep, tier)
    plan = []
    if tier == 'quick':
        plan.append(('B full P<=3, K in 0..3, L<=2', variants_b((1, 2, 3), (0, 1, 2, 3), (1, 2)), None))
        plan.append(('B full P<=2, K=4', variants_b((1, 2), (4,), (1, 2)), None))
        plan.append(('B forced<=1 P<=2, K in 0..2', variants_b((1, 2), (0, 1, 2), (1, 2), forced=True), 1))
        plan.append(('B full P<=3, K in 1..3, L<=2, two sweeps per iteration (an iteration is counted only if it sweeps)', variants_b((1, 2, 3), (1, 2, 3), (1, 2), nsweeps=2), None))
        plan.append(('B forced<=1, two blocks on the same steps (what a forced block leaves behind), P<=2, K in 1..2', [dict(c, nblocks=2, conv_cost=1) for c in variants_b((1, 2), (1, 2), (1,), forced=True)], 1))
        plan.append(('B residual answers incl. not-a-number (<=2 non-default answers), P<=2, K in 1..3', [dict(c, nan_answers=True, conv_cost=1) for c in variants_b((1, 2), (1, 2, 3), (1, 2))], 2))
        plan.append(('B forced<=1, a second run() on the same controller, P<=2, K in 1..2', [dict(c, second_run=0.125 * c['P'], conv_cost=1) for c in variants_b((1, 2), (1, 2), (1,), forced=True)], 1))
    else:
        plan.append(('B residual answers incl. not-a-number (<=3 non-default answers), P<=3, K in 0..3', [dict(c, nan_answers=True, conv_cost=1) for c in variants_b((1, 2, 3), (0, 1, 2, 3), (1, 2))], 3))
        plan.append(('B forced<=2, a second run() on the same controller, P<=3, K in 0..2', [dict(c, second_run=0.125 * c['P'], conv_cost=1) for c in variants_b((1, 2, 3), (0, 1, 2), (1, 2), forced=True)], 2))
        plan.append(('B full P<=3, K in 0..4, L<=2', variants_b((1, 2, 3), (0, 1, 2, 3, 4), (1, 2)), None))
        plan.append(('B forced<=1 P<=3, K in 0..3', variants_b((1, 2, 3), (0, 1, 2, 3), (1, 2), forced=True), 1))
        plan.append(('B forced<=2 P<=2, K in 0..2', variants_b((1, 2), (0, 1, 2), (1, 2), forced=True), 2))
        plan.append(('B full P<=3, K in 0..3, L<=3, two and three sweeps per iteration', variants_b((1, 2, 3), (0, 1, 2, 3), (1, 2, 3), nsweeps=2) + variants_b((1, 2, 3), (1, 2), (1, 2), nsweeps=3), None))
        plan.append(('B forced<=2, three blocks on the same steps (what a forced block leaves behind), P<=3, K in 0..2', [dict(c, nblocks=3, conv_cost=1) for c in variants_b((1, 2, 3), (0, 1, 2), (1, 2), forced=True)], 2))
    bounds = []
    for label, vs, bound in plan:
        res = _e1.explore_variants(rep, make, vs, bound=bound, label=label)
        bounds.append({'space': label, 'variants': len(vs), 'executions': sum(st.executions for _, st in res), 'deviation_bound': bound, 'capped': any(st.capped for _, st in res)})
    rep.coverage['bounds_completed'] = bounds
    rep.coverage['traces_validated_against_impl'] = rep.coverage.get('traces_validated_against_impl', 0) + ncases
    rep.coverage['exhaustive'] = not any(b['capped'] for b in bounds)
    rep.coverage['rule'] = 'A: every configuration of the deviation ball (radius in partA) around three bases, every callback of every run compared; B: every residual-answer sequence per configuration, forced flags deviation bounded'


def replay(rep, case):
    if case.get('part') == 'A':
        c, oc, rec, extra = run_case(case['cfg'])
        if oc.startswith('run:'):
            rep.violation({'kind': 'run_failed', 'cfg': c}, {'error': oc}, case)
        for b in rec['bad'][:3]:
            rep.violation({'kind': 'residual_not_true_defect', 'cfg': c, 'where': b['where'], 'level': b['level']}, b, case)
        for b in (extra or {}).get('bad_log', [])[:3]:
            rep.violation({'kind': 'logged_residual', 'cfg': c, 'type': b['type']}, b, case)
        return
    if case.get('part') == 'M':
        a = case['arg']
        arg, oc, rec = mass_case((tuple(a[0]), a[1], a[2], a[3]))
        if oc != 'ok':
            rep.violation({'kind': 'run_failed', 'part': 'mass', 'levels': len(arg[0])}, {'error': oc}, case)
        for b in rec['bad'][:1]:
            rep.violation({'kind': 'residual_not_true_defect', 'part': 'mass', 'levels': len(arg[0]), 'level': b['level'], 'where': b['where']}, b, case)
        return
    _e1.replay_case(rep, make, case)
