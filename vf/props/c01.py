"""C01 — a converged SDC / MLSDC / PFASST run returns the fine collocation solution (engine E2).

Bounded exhaustive enumeration: every configuration of the real `controller_nonMPI(...).run(u0, t0, Tend)` that differs
from one of four base configurations in at most d dimensions (d = 1 quick, d = 2 thorough). Oracle: dense solve of the
fine-level collocation system with the oracle's own quadrature matrix and own problem matrices (vf/oracle/colloc.py).
"""

import itertools
import time

import numpy as np

from vf import common
from vf.env import mlenv
from vf.env.mlenv import controller_nonMPI, LogSolution, Recorder, SWEEPERS
from vf.oracle import colloc as oc

LEVEL = 'exploration'

RESTOL = 1e-9
MAXITER = 60
C_TOL = 10.0  # the property's "small multiple of the tolerance"
C_FLOOR = 1e3  # rounding floor: C_FLOOR * eps * cond(collocation matrix) * magnitude
RHO_TARGET = 0.35
T0 = 0.0

IMPLICIT_QD = ['BE', 'BEPAR', 'CN', 'DNODES', 'DNODES-1', 'DNODES-2', 'DNODES-3', 'DNODES-4', 'DNODES-5', 'DNODES2', 'DNODES3',
               'DNODES4', 'DNODES5', 'EE', 'FB', 'FB2', 'FE', 'FLEX-JUMPER', 'FlexJumper', 'GS', 'GaussSeidel', 'IE', 'IEpar',
               'JUMPER', 'Jumper', 'LDU', 'LF', 'LU', 'LU2', 'LeapFrog', 'MIN', 'MIN-SR-FLEX', 'MIN-SR-NS', 'MIN-SR-S',
               'MIN-Speck', 'MIN3', 'MIN_GT', 'MIN_SR_FLEX', 'MIN_SR_NS', 'MIN_SR_S', 'MIN_VDHS', 'Magic_Numbers', 'PIC',
               'Picard', 'QPar', 'Qdiag', 'Qpar', 'SOE', 'TRAP', 'TRAPAR', 'VDHS', 'EXACT', 'Exact']  # fmt: skip
EXPLICIT_QD = ['EE', 'FE', 'LF', 'LeapFrog', 'PIC', 'Picard', 'SOE']

SP = ['gi:heat1d_per', 'gi:heat1d_dir', 'gi:heat1d_per4', 'gi:heat2d_per', 'gi:adv_c2', 'gi:adv_up1', 'gi:dahl1', 'gi:dahl3',
      'imex:dahl_imex', 'imex:heatf_per', 'imex:heatf_dir', 'ex:dahl3', 'ex:heat1d_per', 'ex:adv_up1', 'mi:split']  # fmt: skip


def dims(tier):
    return {
        'sp': SP,
        'QI': IMPLICIT_QD,
        'QE': EXPLICIT_QD,
        'node_type': ['LEGENDRE', 'EQUID', 'CHEBY-1', 'CHEBY-2', 'CHEBY-3', 'CHEBY-4'],
        'quad_type': ['RADAU-RIGHT', 'LOBATTO', 'GAUSS', 'RADAU-LEFT'],
        'M': [1, 2, 3, 4],
        'L': [1, 2, 3],
        'coarsen': ['nodes', 'space', 'both'],
        'P': [1, 2, 3, 4] if tier == 'quick' else [1, 2, 3, 4, 5, 6, 7, 8],
        'predict': [None, 'fine_only', 'pfasst_burnin'],
        'mssdc_jac': [True, False],
        'all_to_done': [False, True],
        'nsweeps': [1, 2, 3],
        'residual_type': ['full_abs', 'last_abs', 'full_rel', 'last_rel'],
        'initial_guess': ['spread', 'copy', 'zero', 'random'],
        'finter': [False, True],
        'do_coll_update': [False, True],
        'log_solution': [True, False],
        'dt_scale': [1.0, 0.5, 0.25],
    }


_COMMON = {'QI': 'IE', 'QE': 'EE', 'node_type': 'LEGENDRE', 'quad_type': 'RADAU-RIGHT', 'M': 3, 'L': 1, 'coarsen': 'both', 'P': 1,
           'predict': None, 'mssdc_jac': True, 'all_to_done': False, 'nsweeps': 1, 'residual_type': 'full_abs',
           'initial_guess': 'spread', 'finter': False, 'do_coll_update': False, 'log_solution': True, 'dt_scale': 1.0}  # fmt: skip
BASES = {
    'SDC': dict(_COMMON, sp='gi:heat1d_per'),
    'MLSDC': dict(_COMMON, sp='imex:heatf_per', L=2, QI='LU'),
    'PFASST': dict(_COMMON, sp='gi:heat1d_dir', L=2, P=3, QI='LU', predict='pfasst_burnin'),
    'MSSDC-GAUSS': dict(_COMMON, sp='imex:dahl_imex', quad_type='GAUSS', M=2, P=2, mssdc_jac=False),
    # single-level Jacobi multi-step SDC: every step sweeps with the predecessor's value of the previous iteration
    'MSSDC-JACOBI': dict(_COMMON, sp='gi:dahl3', M=2, P=3, mssdc_jac=True),
    'MSSDC-JACOBI-1NODE': dict(_COMMON, sp='gi:dahl1', M=1, P=4, mssdc_jac=True),
}


def canonical(cfg):
    """Dimensions that cannot influence the run for this configuration are reset to the common value, so that equal runs
    collapse to one case."""
    c = dict(cfg)
    sw = c['sp'].split(':')[0]
    if sw in ('gi', 'mi'):
        c['QE'] = _COMMON['QE']
    if sw == 'ex':
        c['QI'] = _COMMON['QI']
    if c['L'] == 1:
        c['coarsen'] = _COMMON['coarsen']
        c['predict'] = None
        c['finter'] = False
    if c['L'] > 1 or c['P'] == 1:
        c['mssdc_jac'] = True
    if c['P'] == 1:
        c['all_to_done'] = False
    return c


def ball(base, dm, d):
    names = list(dm)
    out = [dict(base)]
    for r in range(1, d + 1):
        for combo in itertools.combinations(names, r):
            alts = [[v for v in dm[n] if v != base[n]] for n in combo]
            for vals in itertools.product(*alts):
                c = dict(base)
                c.update(dict(zip(combo, vals)))
                out.append(c)
    return out


# ---------------------------------------------------------------------------------------------------------------------
def level_nodes(M, quad_type, L, coarsen):
    mn = 2 if quad_type in ('LOBATTO', 'RADAU-LEFT') else 1
    Ms = [M]
    for _ in range(1, L):
        Ms.append(max(Ms[-1] - 1, mn) if coarsen in ('nodes', 'both') else Ms[-1])
    return Ms


def nsteps_of(P):
    return 4 if P < 4 else P + 1


def predicted_reject(cfg):
    mn = 2 if cfg['quad_type'] in ('LOBATTO', 'RADAU-LEFT') else 1
    sw = cfg['sp'].split(':')[0]
    if cfg['M'] < mn:
        return 'too few nodes for the quadrature type'
    if cfg['P'] > 1 and cfg['L'] > 1 and cfg['quad_type'] not in ('LOBATTO', 'RADAU-RIGHT'):
        return 'PFASST needs the right end point as node'
    if sw != 'ex' and cfg['QI'] in ('EXACT', 'Exact'):
        return 'full matrix is not lower triangular'
    if sw == 'mi' and cfg['L'] > 1 and cfg['finter']:
        return 'identity space transfer does not know the two-component right-hand side type'
    return None


def qd_estimate(name, node_type, quad_type, M, explicit=False):
    """Preconditioner matrix for the *contraction estimate only* (choice of dt); taken from the third-party qmat package
    directly. Never enters a verdict."""
    from qmat import Q_GENERATORS
    from qmat.qdelta import QDELTA_GENERATORS

    gen = Q_GENERATORS['Collocation'](nNodes=M, nodeType=node_type, quadType=quad_type, tLeft=0.0, tRight=1.0)
    g = QDELTA_GENERATORS[name](qGen=gen, tLeft=0.0)
    k = 1 if g.isKDependent() else None
    if explicit:
        return np.asarray(g.genCoeffs(k=k, dTau=True)[0], dtype=float)
    return np.asarray(g.genCoeffs(k=k), dtype=float)


def choose_dt(cfg, setup, nodes):
    """largest dt = 2^-j (j = 1..14) whose fine-level sweep has spectral radius <= RHO_TARGET, times dt_scale"""
    sw = cfg['sp'].split(':')[0]
    M = len(nodes)
    Q, _ = oc.lagrange_Q(nodes)
    try:
        QI = qd_estimate(cfg['QI'], cfg['node_type'], cfg['quad_type'], M) if sw != 'ex' else np.zeros((M, M))
        QE = qd_estimate(cfg['QE'], cfg['node_type'], cfg['quad_type'], M, explicit=True) if sw in ('imex', 'ex') else np.zeros((M, M))
    except Exception:
        return 2.0**-6 * cfg['dt_scale'], None
    lamI, lamE = setup.eig
    if sw == 'ex':
        lamI, lamE = np.zeros_like(lamI), lamI + lamE
    chosen, rho_c = None, None
    for j in range(1, 15):
        dt = 2.0**-j
        rho = oc.sweep_spectral_radius(Q, QI, QE, lamI, lamE, dt)
        if rho <= RHO_TARGET:
            chosen, rho_c = dt, rho
            break
    if chosen is None:
        chosen, rho_c = 2.0**-14, rho
    if sw == 'mi':  # the estimate ignores the second implicit stage: one notch smaller
        chosen *= 0.5
    return chosen * cfg['dt_scale'], float(rho_c)


def build(cfg, sel):
    sw, pb = cfg['sp'].split(':')
    L = cfg['L']
    setup = mlenv.problem_setup(pb, L, cfg['coarsen'] in ('space', 'both'), sel)
    Ms = level_nodes(cfg['M'], cfg['quad_type'], L, cfg['coarsen'])
    sp = {
        'num_nodes': list(Ms),
        'node_type': cfg['node_type'],
        'quad_type': cfg['quad_type'],
        'initial_guess': cfg['initial_guess'],
        'do_coll_update': cfg['do_coll_update'],
    }
    if sw in ('gi', 'imex'):
        sp['QI'] = cfg['QI']
    if sw in ('imex', 'ex'):
        sp['QE'] = cfg['QE']
    if sw == 'mi':
        sp['Q1'] = cfg['QI']
        sp['Q2'] = cfg['QI']
    desc = {
        'problem_class': setup.cls,
        'problem_params': dict(setup.params),
        'sweeper_class': SWEEPERS[sw],
        'sweeper_params': sp,
        'level_params': {
            'dt': 2.0**-6,  # replaced below once the nodes are known
            'restol': RESTOL,
            'residual_type': cfg['residual_type'],
            'nsweeps': ([cfg['nsweeps']] * (L - 1) + [1]) if L > 1 else [cfg['nsweeps']],
        },
        'step_params': {'maxiter': MAXITER},
    }
    if L > 1:
        desc['space_transfer_class'] = setup.transfer
        desc['space_transfer_params'] = dict(setup.transfer_params)
        desc['base_transfer_params'] = {'finter': cfg['finter']}
    hooks = [Recorder] + ([LogSolution] if cfg['log_solution'] else [])
    cpar = {
        'logger_level': 90,
        'hook_class': hooks,
        'predict_type': cfg['predict'],
        'mssdc_jac': cfg['mssdc_jac'],
        'all_to_done': cfg['all_to_done'],
    }
    return setup, desc, cpar


# ZeroDivisionError is not in this list: a relative residual type divides by |u[0]|, which is zero for later steps of a
# block under initial_guess='zero' (an undefined quantity, not a wrong answer); counted as numerical failure
INTERNAL_ERRORS = (TypeError, IndexError, AttributeError, KeyError, NameError, UnboundLocalError)


def run_case(arg):
    """returns a result dict; never raises for anything the implementation does"""
    cfg, sel = arg
    res = {'cfg': cfg, 'outcome': None, 'ratio': 0.0, 'viol': [], 'info': {}}
    pred = predicted_reject(cfg)
    t_start = time.time()
    try:
        setup, desc, cpar = build(cfg, sel)
        controller = controller_nonMPI(cfg['P'], cpar, desc)
    except Exception as e:  # whatever refuses a description at construction is C20's subject; counted by error type
        res['outcome'] = 'rejected_expected' if pred else 'rejected_other'
        res['info'] = {'error': type(e).__name__, 'msg': str(e)[:120], 'predicted': pred}
        return res
    if pred:
        res['info']['predicted_reject_but_accepted'] = pred
    S0 = controller.MS[0]
    coll = S0.levels[0].sweep.coll
    nodes = np.array(coll.nodes, dtype=float)  # read from the collocation object (the property says so)
    dt, rho = choose_dt(cfg, setup, nodes)
    for S in controller.MS:
        for lvl in S.levels:
            lvl.params.dt = dt
            lvl.params.dt_initial = dt
    N = nsteps_of(cfg['P'])
    Tend = T0 + N * dt
    prob = S0.levels[0].prob
    u0 = prob.dtype_u(prob.init)
    u0[:] = setup.u0.reshape(u0.shape)
    rec = mlenv.start_recording()
    try:
        uend, stats = controller.run(u0=u0, t0=T0, Tend=Tend)
    except mlenv.PYSDC_ERRORS as e:
        mlenv.stop_recording()
        res['outcome'] = 'run_refused'
        res['info'] = {'error': type(e).__name__, 'msg': str(e)[:120]}
        return res
    except INTERNAL_ERRORS as e:
        mlenv.stop_recording()
        res['outcome'] = 'violation'
        res['viol'].append(({'kind': 'run_raised', 'error': type(e).__name__}, {'msg': str(e)[:200]}))
        return res
    except (FloatingPointError, ValueError, np.linalg.LinAlgError, RuntimeError, ZeroDivisionError) as e:
        mlenv.stop_recording()
        res['outcome'] = 'run_numerical_failure'
        res['info'] = {'error': type(e).__name__, 'msg': str(e)[:120]}
        return res
    mlenv.stop_recording()
    res['info'].update({'dt': dt, 'rho_fine_sweep': rho, 'nsteps': N, 'niter': [r['iter'] for r in rec['steps']], 'cpu_s': None})

    # ---- oracle -------------------------------------------------------------------------------------------------
    right_node = cfg['quad_type'] in ('LOBATTO', 'RADAU-RIGHT')
    end_mode = 'copy' if (right_node and not cfg['do_coll_update']) else 'quad'
    model = setup.models[0]
    step = oc.CollocationStep(model, nodes, dt, end_mode)
    rec = sorted(rec['steps'], key=lambda r: (r['n'] is None, r['n']))
    times = [T0 + n * dt for n in range(N)]
    if len(rec) != N or [r['n'] for r in rec] != list(range(N)):
        res['outcome'] = 'step_count_mismatch'  # C06's subject, not judged here
        res['info']['steps_seen'] = [(r['n'], r['time']) for r in rec]
        return res
    # the n-th started step is the step [t0 + n dt, t0 + (n+1) dt]; the time the level carries is noted, the oracle's
    # own time is used for the reference
    res['info']['level_time_differs'] = sum(1 for r, t in zip(rec, times) if abs(r['time'] - t) > 1e-12)
    logged = None
    if cfg['log_solution']:
        logged = []
        for r in rec:
            hit = [np.array(v) for k, v in stats.items() if k.type == 'u' and k.process == r['slot'] and k.iter == r['iter'] and k.time == r['time'] + r['dt']]
            logged.append(hit[-1] if hit else None)
    rel = cfg['residual_type'].endswith('rel')
    flat = lambda x: np.asarray(x).reshape(-1)  # noqa: E731
    n_unmet = 0
    worst = 0.0
    chain_ok = True
    ref_u0 = flat(setup.u0).astype(model.A.dtype if np.iscomplexobj(model.A) else setup.u0.dtype)
    chain_tol = 0.0
    prev_end_impl = flat(setup.u0)
    viol = []
    for n, r in enumerate(rec):
        t_level, r = r['time'], dict(r, time=times[n])  # premise: the level's own time; reference: the step's time
        if r['uend'] is None or any(u is None for u in r['u']):
            viol.append(({'kind': 'end_value_missing_at_post_step', 'step': n}, {}))
            chain_ok = False
            break
        U = np.array([flat(u) for u in r['u'][1:]])
        u0n = flat(r['u'][0])
        D = np.abs(step.defect(u0n, U, t_level))
        defect = float(np.max(D))
        eps_n = RESTOL * (float(np.max(np.abs(u0n))) if rel else 1.0)
        met = bool(np.isfinite(defect) and defect <= eps_n)
        # a step that stopped below the iteration budget was stopped by the tolerance: the defect (in the configured
        # residual type) of the values it holds must then be at the tolerance (factor 2 and the rounding floor as margin
        # for the difference between this oracle's Q and the library's)
        used = float(np.max(D[-1])) if cfg['residual_type'].startswith('last') else defect
        mag0 = max(1.0, float(np.max(np.abs(U))) if U.size else 1.0)
        if r['iter'] < MAXITER and not used <= 2.0 * eps_n + C_FLOOR * oc.EPS * step.cond * mag0:
            viol.append(({'kind': 'stopped_below_budget_with_defect_above_tolerance'}, {'step': n, 'iter': r['iter'], 'defect': used, 'tolerance': eps_n}))
        # oracle chain through its own end values
        Uref, end_ref = step.solve(ref_u0, r['time'])
        mag = max(1.0, float(np.max(np.abs(Uref))))
        floor = C_FLOOR * oc.EPS * step.cond * mag
        chain_tol = step.amp * chain_tol + C_TOL * step.gain_end * eps_n
        if not met:
            n_unmet += 1
            chain_ok = False
        else:
            # per step: collocation problem started from the implementation's previous end value
            _, end_loc = step.solve(prev_end_impl.astype(Uref.dtype), r['time'])
            tol_loc = C_TOL * step.gain_end * eps_n + floor
            obs = [('post_step', flat(r['uend']))]
            if logged is not None:
                if logged[n] is None:
                    viol.append(({'kind': 'no_u_record_for_step'}, {'step': n}))
                else:
                    obs.append(('stats_u', flat(logged[n])))
            for where, val in obs:
                err = float(np.max(np.abs(val - end_loc)))
                ratio = err / tol_loc if np.isfinite(err) else np.inf
                worst = max(worst, ratio)
                if not ratio <= 1.0:
                    viol.append(({'kind': 'step_value_not_collocation_solution', 'where': where}, {'step': n, 'err': err, 'tol': tol_loc, 'defect': defect, 'iter': r['iter']}))
                if chain_ok:
                    errc = float(np.max(np.abs(val - end_ref)))
                    tolc = chain_tol + floor * (n + 1)
                    rc = errc / tolc if np.isfinite(errc) else np.inf
                    worst = max(worst, rc)
                    if not rc <= 1.0:
                        viol.append(({'kind': 'run_value_not_chained_collocation_solution', 'where': where}, {'step': n, 'err': errc, 'tol': tolc}))
        prev_end_impl = flat(r['uend'])
        ref_u0 = end_ref
    if chain_ok and not viol:
        # the returned value is the last step's end value
        if uend is None:
            viol.append(({'kind': 'returned_value_missing'}, {}))
        else:
            errc = float(np.max(np.abs(flat(uend) - ref_u0)))
            tolc = chain_tol + floor * N
            rc = errc / tolc if np.isfinite(errc) else np.inf
            worst = max(worst, rc)
            if not rc <= 1.0:
                viol.append(({'kind': 'returned_value_not_collocation_solution'}, {'err': errc, 'tol': tolc}))
    res['ratio'] = worst
    res['info']['steps_premise_unmet'] = n_unmet
    res['info']['cpu_s'] = round(time.time() - t_start, 3)
    if viol:
        res['outcome'] = 'violation'
        res['viol'] = viol
    elif n_unmet == 0:
        res['outcome'] = 'judged_all_steps'
    elif n_unmet < N:
        res['outcome'] = 'judged_some_steps_premise_unmet_on_others'
    else:
        res['outcome'] = 'premise_not_met'
    return res


def signature_of(cfg, base_name, v):
    base = BASES[base_name]
    dev = {k: cfg[k] for k in cfg if cfg[k] != base[k]}
    sig = {'base': base_name, 'deviation': dev}
    sig.update(v)
    return sig


def run(rep, tier):
    d = 1 if tier == 'quick' else 2
    dm = dims(tier)
    sel = common.seed()
    rep.assumptions += [
        'oracle reads the node positions from sweep.coll.nodes and the problem parameters (nvars, nu / c, freq, order, bc, lambdas) it passed itself; quadrature matrix, weights, finite-difference matrices and forcing are assembled independently in vf/oracle/colloc.py',
        'premise "iterated to its residual tolerance" is re-checked per step with the oracle\'s own full collocation defect of the node values seen at post_step; steps failing it are counted, not judged (wrong reported residuals are C03\'s subject)',
        'qmat (third party, outside /repo) supplies preconditioner matrices for the contraction estimate that chooses dt; the estimate never enters a verdict',
        'mi:split uses a two-component linear test problem defined in vf/env/mlenv.py (environment) because pySDC ships no linear problem for the multi_implicit sweeper',
        'pySDC error classes raised at construction / run are rejections (counted); TypeError, IndexError, AttributeError, KeyError out of run() are reported; ZeroDivisionError (relative residual with a zero initial value) is counted as numerical failure',
    ]
    cases = {}
    ball_sizes = {}
    for bname, base in BASES.items():
        raw = ball(base, dm, d)
        n_new = 0
        for c in raw:
            cc = canonical(c)
            key = common.canon(cc)
            if key not in cases:
                cases[key] = (cc, bname, sum(1 for k in cc if cc[k] != base[k]))
                n_new += 1
        ball_sizes[bname] = {'radius': d, 'members': len(raw), 'distinct_new_after_canonicalisation': n_new}
    # full cross of the dimensions whose code meets in one place (what a sweeper does at its first node, what the
    # controller does to u[0] / f[0] on receive, how the end value is formed): sweeper family x quadrature type x coupling
    # x end-point mode, on the 3-step single-level base (thorough: also two levels and 2 / 4 steps)
    xbase = BASES['MSSDC-JACOBI']
    n_new = 0
    for sp in ('gi:dahl3', 'ex:dahl3', 'imex:dahl_imex', 'mi:split'):
        for qt in dm['quad_type']:
            for jac in (True, False):
                for upd in (False, True):
                    for P, L in ((3, 1),) if tier == 'quick' else ((3, 1), (2, 1), (4, 1), (3, 2)):
                        c = dict(xbase, sp=sp, quad_type=qt, mssdc_jac=jac, do_coll_update=upd, P=P, L=L, M=3)
                        if L > 1:
                            c.update(predict='pfasst_burnin', mssdc_jac=True)
                        cc = canonical(c)
                        key = common.canon(cc)
                        if key not in cases:
                            cases[key] = (cc, 'MSSDC-JACOBI', sum(1 for k in cc if cc[k] != xbase[k]))
                            n_new += 1
    ball_sizes['cross sweeper x quadrature x coupling x end-point mode'] = {'distinct_new_after_canonicalisation': n_new}
    items = list(cases.values())
    common.rng('c01-order').shuffle(items)
    budget = common.Budget(75 if tier == 'quick' else 17 * 60)
    results = []
    t0 = time.time()
    chunk = 256
    done = 0
    for i in range(0, len(items), chunk):
        if budget.over():
            break
        part = items[i : i + chunk]
        out = common.pmap(run_case, [(c, sel) for c, _, _ in part])
        results += list(zip(part, out))
        done += len(part)
    counts, per_base = {}, {}
    worst = 0.0
    best_viol = {}
    samples = []
    judged_distinct = 0
    cpu = 0.0
    rej = {}
    for (cfg, bname, ndev), r in results:
        oc_ = r['outcome']
        counts[oc_] = counts.get(oc_, 0) + 1
        per_base.setdefault(bname, {}).setdefault(oc_, 0)
        per_base[bname][oc_] += 1
        cpu += r['info'].get('cpu_s') or 0.0
        if oc_.startswith('judged'):
            judged_distinct += 1
            worst = max(worst, r['ratio'])
            if len(samples) < 4:
                samples.append({'base': bname, 'deviation': {k: cfg[k] for k in cfg if cfg[k] != BASES[bname][k]}, 'dt': r['info'].get('dt'), 'niter': r['info'].get('niter'), 'worst_err_over_tol': r['ratio']})
        if r['info'].get('predicted_reject_but_accepted'):
            rej['accepted_although_rejection_predicted'] = rej.get('accepted_although_rejection_predicted', 0) + 1
        if oc_.startswith('rejected') or oc_ == 'run_refused':
            k = f"{oc_}:{r['info'].get('error')}"
            rej[k] = rej.get(k, 0) + 1
        for v, det in r['viol']:
            sig = signature_of(cfg, bname, v)
            key = (v.get('kind'), bname)  # one minimal case per kind of failure and base configuration
            cand = (ndev, len(common.canon(sig)), sig, det, cfg)
            if key not in best_viol or cand[:2] < best_viol[key][:2]:
                best_viol[key] = cand
    # report the minimal configuration per (kind, base); at most a few per kind
    for key, (ndev, _, sig, det, cfg) in sorted(best_viol.items(), key=lambda kv: kv[1][:2]):
        rep.violation(sig, det, {'cfg': cfg, 'sel': sel})
    rep.coverage.update(
        {
            'evaluations': len(results),
            'distinct_nontrivial': judged_distinct,
            'rule': 'distinct canonical configurations (dimensions without influence reset) within Hamming distance d of a base configuration; non-trivial = the run was accepted, every judged step met the residual premise under the oracle\'s own defect and its end value was compared with the dense collocation solve',
            'exhaustive': done == len(items),
            'bounds_completed': {'radius': d, 'configurations_enumerated': len(items), 'configurations_run': done, 'time_cap_hit': budget.hit},
            'ball_sizes': ball_sizes,
            'dimensions': {k: len(v) for k, v in dm.items()},
            'outcome_counts': counts,
            'outcome_counts_per_base': per_base,
            'rejections_by_error': rej,
            'worst_err_over_tol': worst,
            'worst_headroom': (1.0 / worst) if worst > 0 else None,
            'tolerance': f'{C_TOL} * restol * ||E C^-1||_inf (propagated with max(1,||R||_inf) for the chained comparison) + {C_FLOOR} * eps * cond(C) * magnitude; restol={RESTOL}',
            'sum_of_case_wall_s': round(cpu, 1),
            'samples': samples,
        }
    )


def replay(rep, case):
    cfg = case['cfg']
    r = run_case((cfg, case.get('sel', 0)))
    for v, det in r['viol']:
        bname = min(BASES, key=lambda b: sum(1 for k in cfg if cfg[k] != BASES[b][k]))
        rep.violation(signature_of(cfg, bname, v), det, case)
    if not r['viol']:
        print('outcome:', r['outcome'], r['info'])
