"""C16 — field files round-trip bit-exactly and survive interrupted appends; block decomposition is an exact cover.

Engine E4 (vf/engine/crash.py): operation histories on the real `pySDC.helpers.fieldsIO` classes with a snapshot of
the file after every operation, every byte prefix of every append / of header creation as crash state, recovery
and continuation on each.  Oracle: vf/oracle/fieldfile.py (list-of-records model, value pools, exact-cover count).
All comparisons are on bits; there is no tolerance anywhere in this check.

Phases (each a complete enumeration of a stated finite space):
  H  operation histories over the alphabet  A (addField)  O (re-open via FieldsIO.fromFile)  P (re-open via the
     specialised class)  R (read everything through the current handle, incl. negative and out-of-range indices)
     N (second initialize, ALLOW_OVERWRITE off)  Y (second initialize with another header, ALLOW_OVERWRITE on)
  V  value sweeps: every special scalar of the pool through every dtype
  C  crash states of the (n+1)-th append for n completed records, and of header creation
  B  block decompositions, complete lattice
  L  LogToFile: resume into an existing (intact or torn) file through a real controller run
"""

import itertools
import os
import shutil

import numpy as np

from pySDC.helpers.blocks import BlockDecomposition
from pySDC.helpers.fieldsIO import DTYPES, FieldsIO

from vf import common
from vf.engine import crash
from vf.env import c16_io as io
from vf.oracle import fieldfile as model

LEVEL = 'fault_enumeration'

OPS = 'AOPRNY'
SIZES = (1, 2, 3)
BLOCK_SIZES = (1, 2, 3, 5, 8, 16, 17)
BLOCK_NPROCS = range(1, 65)
CHILD_BATCH_FILES = 3000
CHILD_BATCH_BYTES = 24 << 20


# =========================================================================================================
# spaces
# =========================================================================================================
def grids(maxdim=3):
    out = []
    for dim in range(1, maxdim + 1):
        out += [list(g) for g in itertools.product(SIZES, repeat=dim)]
    return out


def lattice(nvars, maxdim=3, cvs=(0,)):
    out = []
    for dt in sorted(DTYPES):
        for nVar in nvars:
            out.append({'cls': 'Scalar', 'dt': dt, 'nVar': nVar, 'grid': [], 'cv': 0})
            for g in grids(maxdim):
                for cv in cvs:
                    out.append({'cls': 'Rectilinear', 'dt': dt, 'nVar': nVar, 'grid': g, 'cv': cv})
    return out


def deep_configs():
    """(deepest, second) configuration lists: per dtype one Scalar and one 2-d Rectilinear file, alternating which is explored deepest"""
    a, b = [], []
    for i, dt in enumerate(sorted(DTYPES)):
        sc = {'cls': 'Scalar', 'dt': dt, 'nVar': 2, 'grid': [], 'cv': 0}
        re = {'cls': 'Rectilinear', 'dt': dt, 'nVar': 1, 'grid': [2, 3], 'cv': 0}
        a.append(sc if i % 2 == 0 else re)
        b.append(re if i % 2 == 0 else sc)
    return a, b


def all_histories(depth, prefix=''):
    """every word over OPS of length <= depth that starts with `prefix` (the empty word included if prefix == '')"""
    out = []
    for L in range(len(prefix), depth + 1):
        for tail in itertools.product(OPS, repeat=L - len(prefix)):
            out.append(prefix + ''.join(tail))
    return out


def alt_cfg(cfg):
    """the other header used by the second `initialize` (same class and dtype, different nVar)"""
    c = dict(cfg)
    c['nVar'] = cfg['nVar'] + 1
    return c


def refused_alternatives(cfg, file_size):
    """headers tried by the second `initialize` without permission: (label, configuration)"""
    big = {'cls': 'Rectilinear', 'dt': cfg['dt'], 'nVar': cfg['nVar'], 'grid': [file_size // 8 + 9], 'cv': 0}
    other = {'cls': 'Scalar', 'dt': cfg['dt'], 'nVar': cfg['nVar'], 'grid': [], 'cv': 0} if cfg['cls'] != 'Scalar' else {'cls': 'Rectilinear', 'dt': cfg['dt'], 'nVar': cfg['nVar'], 'grid': [2], 'cv': 0}
    return [('other_nVar', alt_cfg(cfg)), ('same', dict(cfg)), ('other_class', other), ('header_larger_than_file', big)]


def _cpu():
    import resource

    a, b = resource.getrusage(resource.RUSAGE_SELF), resource.getrusage(resource.RUSAGE_CHILDREN)
    return a.ru_utime + a.ru_stime + b.ru_utime + b.ru_stime


def pack(units, weight, nbins):
    """greedy balanced packing of work units into bins (order of units only changes who does what)"""
    units = sorted(units, key=weight, reverse=True)
    bins = [[0, []] for _ in range(max(1, min(nbins, len(units))))]
    for u in units:
        b = min(bins, key=lambda x: x[0])
        b[0] += weight(u)
        b[1].append(u)
    return [b[1] for b in bins if b[1]]


# =========================================================================================================
# phase H / V : histories
# =========================================================================================================
def run_history(wd, cfg, history, off, keep_as=None):
    """Run one history from scratch. Returns (failure or None, info). failure = (step, op, what, index, detail)."""
    path = os.path.join(wd, 'h.pysdc')
    crash.materialise(path, None)
    FieldsIO.ALLOW_OVERWRITE = False
    m = model.FileModel()
    info = {'labels': set(), 'outcomes': []}
    try:
        cur_cfg = cfg
        w = io.new_writer(cfg, path)
        hist = crash.WriteHistory(path)
        out, before, after = hist.do('create', w.initialize)
        if out[0] != 'ok' or after is None:
            return (-1, 'create', 'create_failed', None, {'raised': repr(out[1])}), info
        m.create(io.cfg_header(cfg), False)
        cur = w
        older = []  # handles opened earlier on the same file and still alive (at most two are kept)
        k_app = 0
        toggles = 0
        for step, op in enumerate(history):
            if op == 'A':
                rec = io.record(cur_cfg, k_app, off)
                # the memory layout of the array handed over cycles with the record number and the pool offset
                t, u = io.time_value(rec[0]), io.field_array(cur_cfg, rec[1], io.LAYOUTS[(k_app + off) % len(io.LAYOUTS)])
                out, before, after = hist.do(op, lambda: cur.addField(t, u))
                if out[0] != 'ok':
                    return (step, op, 'append_raised', None, {'raised': repr(out[1])}), info
                if crash.extension(before, after) is None:
                    return (step, op, 'append_changed_existing_bytes', None, {'size_before': len(before), 'size_after': len(after or b'')}), info
                m.append(*rec)
                k_app += 1
            elif op in 'OP':
                opener = io.open_readers(path, cur_cfg['cls'])[0 if op == 'O' else 1][1]
                out, before, after = hist.do(op, opener)
                if out[0] != 'ok':
                    return (step, op, 'reopen_raised', None, {'raised': repr(out[1])}), info
                if after != before:
                    return (step, op, 'reopen_changed_file', None, {}), info
                older = (older + [cur])[-2:]
                cur = out[1]
            elif op == 'R':
                out, before, after = hist.do(op, lambda: io.verify(cur, m.header, m.records))
                if out[0] != 'ok':
                    raise out[1]
                if out[1] is not None:
                    return (step, op, out[1][0], out[1][1], out[1][2]), info
                # every handle that is still alive reads the same file: it must report the same content
                for j, h_old in enumerate(older):
                    bad = io.verify(h_old, m.header, m.records)
                    if bad:
                        bad[2]['reader'] = f'handle opened {len(older) - j} re-open(s) earlier, still alive'
                        return (step, op, bad[0], bad[1], bad[2]), info
                if after != before:
                    return (step, op, 'read_changed_file', None, {}), info
            elif op == 'N':
                # every alternative header in turn (none may change the file, so the state is the same for each): another
                # nVar (same header size), the identical header, the other class, and a header LARGER than the whole file
                for which, acfg in refused_alternatives(cur_cfg, len(hist.last or b'')):
                    w2 = io.new_writer(acfg, path)
                    FieldsIO.ALLOW_OVERWRITE = False
                    out, before, after = hist.do(op, w2.initialize)
                    info['outcomes'].append('N:' + which + ':' + (type(out[1]).__name__ if out[0] == 'raised' else 'returned'))
                    if after != before:
                        return (step, op, 'overwritten_without_permission', None, {'new_header': which, 'size_before': len(before), 'size_after': len(after or b''), 'outcome': out[0]}), info
            elif op == 'Y':
                # alternate between the two headers so that an un-replaced file is visible
                toggles += 1
                new_cfg = alt_cfg(cfg) if toggles % 2 else cfg
                w2 = io.new_writer(new_cfg, path)
                FieldsIO.ALLOW_OVERWRITE = True
                out, before, after = hist.do(op, w2.initialize)
                FieldsIO.ALLOW_OVERWRITE = False
                if out[0] != 'ok':
                    return (step, op, 'permitted_overwrite_raised', None, {'raised': repr(out[1])}), info
                m.create(io.cfg_header(new_cfg), True)
                cur, cur_cfg = w2, new_cfg
                older = []  # handles of the replaced file are not the property's subject
            else:
                raise ValueError(op)
        # final read-back: current handle, then both re-opening routes
        last_op = history[-1] if history else 'create'
        bad = io.verify(cur, m.header, m.records)
        if bad:
            bad[2]['reader'] = 'current handle'
            return (len(history), last_op, bad[0], bad[1], bad[2]), info
        for j, h_old in enumerate(older):
            bad = io.verify(h_old, m.header, m.records)
            if bad:
                bad[2]['reader'] = f'handle opened {len(older) - j} re-open(s) earlier, still alive'
                return (len(history), last_op, bad[0], bad[1], bad[2]), info
        bad = io.verify_file(path, m.header, m.records)
        if bad:
            return (len(history), last_op, bad[0], bad[1], bad[2]), info
        if crash.snapshot(path) != hist.last:
            return (len(history), last_op, 'read_changed_file', None, {}), info
        pool = io._pool(m.header[1])
        if m.records:
            nit = len(m.records[0][1]) // len(pool[0][1])
            for k in range(k_app - len(m.records), k_app):
                for j in range(nit):
                    info['labels'].add(pool[(off + j + 5 * k) % len(pool)][0])
        if keep_as is not None:
            shutil.move(path, keep_as)
            info['child_item'] = {'mode': 'read', 'path': keep_as, 'header': m.header, 'records': list(m.records)}
        info['n_records'] = len(m.records)
        return None, info
    finally:
        FieldsIO.ALLOW_OVERWRITE = False


def history_nontrivial(h):
    return 'A' in h and any(c in h for c in 'OPNY')


def hist_chunk(args):
    """One worker job: a list of units (cfg, histories), with one scratch directory and batched fresh-process reads."""
    units, off, child_every = args
    cpu0 = _cpu()
    res = {'histories': 0, 'nontrivial': 0, 'ops': 0, 'fails': [], 'labels': {}, 'outcomes': {}, 'child_files': 0, 'child_spawns': 0, 'max_records': 0, 'sample': None}
    saved = FieldsIO.ALLOW_OVERWRITE
    with crash.Scratch('c16') as wd:
        batch, batch_bytes, meta = [], 0, []
        counter = 0

        def flush():
            nonlocal batch, batch_bytes, meta
            if not batch:
                return
            results = io.run_child(wd, batch, tag=f'read{res["child_spawns"]}')
            res['child_spawns'] += 1
            res['child_files'] += len(batch)
            for r, (cfg, h) in zip(results, meta):
                if r is not None:
                    res['fails'].append({'cfg': cfg, 'history': h, 'step': len(h), 'op': h[-1] if h else 'create', 'what': r[0], 'index': r[1], 'detail': dict(r[2], process='fresh subprocess'), 'fresh': True})
            for it in batch:
                if os.path.exists(it['path']):
                    os.unlink(it['path'])
            batch, batch_bytes, meta = [], 0, []

        for cfg, histories in units:
            seen = set()
            for h in histories:
                keep = None
                if child_every and counter % child_every == 0:
                    keep = os.path.join(wd, f'keep{counter}.pysdc')
                counter += 1
                fail, info = run_history(wd, cfg, h, off, keep_as=keep)
                res['histories'] += 1
                res['ops'] += len(h) + 1
                seen.add(h)
                for o in info['outcomes']:
                    res['outcomes'][o] = res['outcomes'].get(o, 0) + 1
                if fail:
                    res['fails'].append({'cfg': cfg, 'history': h, 'step': fail[0], 'op': fail[1], 'what': fail[2], 'index': fail[3], 'detail': fail[4], 'fresh': False})
                    continue
                res['labels'].setdefault(io.cfg_dname(cfg), set()).update(info['labels'])
                res['max_records'] = max(res['max_records'], info.get('n_records', 0))
                if 'child_item' in info:
                    batch.append(info['child_item'])
                    meta.append((cfg, h))
                    batch_bytes += os.path.getsize(keep)
                    if len(batch) >= CHILD_BATCH_FILES or batch_bytes >= CHILD_BATCH_BYTES:
                        flush()
            res['nontrivial'] += sum(1 for h in seen if history_nontrivial(h))
            if res['sample'] is None and histories:
                res['sample'] = {'phase': 'history', 'cfg': cfg, 'history': max(histories, key=lambda h: ('A' in h, len(set(h)), len(h), h))}
        flush()
    FieldsIO.ALLOW_OVERWRITE = saved
    # keep the result small: at most a few failures per (what, op, class)
    res['fails'] = _thin(res['fails'], lambda f: (f['what'], f['op'], f['cfg']['cls'], f['fresh']), lambda f: (len(f['history']), io.cfg_rank(f['cfg']), f['history']))
    res['cpu'] = _cpu() - cpu0
    return res


def _thin(fails, key, rank):
    """one representative (the simplest) per group, carrying the size of the group"""
    groups = {}
    for f in fails:
        groups.setdefault(key(f), []).append(f)
    out = []
    for fs in groups.values():
        f = dict(min(fs, key=rank))
        f['group_count'] = len(fs)
        out.append(f)
    return out


# =========================================================================================================
# phase C : crash states
# =========================================================================================================
def crash_setup(wd, cfg, n, off):
    """Write header + n records + the record that will be torn, with the real classes; return the recorded bytes."""
    path = os.path.join(wd, 'w.pysdc')
    crash.materialise(path, None)
    FieldsIO.ALLOW_OVERWRITE = False
    w = io.new_writer(cfg, path)
    hist = crash.WriteHistory(path)
    out, before, hbytes = hist.do('create', w.initialize)
    if out[0] != 'ok' or hbytes is None or before is not None:
        raise RuntimeError(f'setup: create failed {out}')
    records = []
    for k in range(n):
        rec = io.record(cfg, k, off)
        out, _, _ = hist.do('A', lambda: w.addField(io.time_value(rec[0]), io.field_array(cfg, rec[1])))
        if out[0] != 'ok':
            raise RuntimeError(f'setup: append failed {out}')
        records.append(rec)
    base = hist.last
    torn = io.record(cfg, n, off)
    out, before, after = hist.do('A', lambda: w.addField(io.time_value(torn[0]), io.field_array(cfg, torn[1])))
    delta = crash.extension(before, after)
    if out[0] != 'ok' or delta is None:
        raise RuntimeError('setup: append did not extend the file (phase H reports this)')
    new = io.record(cfg, n + 1, off)
    os.unlink(path)
    return hbytes, base, delta, records, torn, new


def child_ks(full, tier):
    """crash points additionally recovered in a fresh process: every 20th (5%) plus both ends in quick, all in thorough"""
    if tier == 'thorough':
        return None
    ks = sorted(set(range(1, full, 20)) | {0, full - 1, full})
    return [k for k in ks if 0 <= k <= full]


def crash_chunk(args):
    units, off, tier = args
    cpu0 = _cpu()
    res = {'states': 0, 'torn_states': 0, 'header_states': 0, 'child_states': 0, 'child_spawns': 0, 'groups': {}, 'outcomes': {}, 'sample': None, 'units': 0, 'max_record_bytes': 0}
    saved = FieldsIO.ALLOW_OVERWRITE
    variants = (False, True) if tier == 'thorough' else (False,)

    def absorb(cfg, n, full, r, zero_fill, fresh, header=False):
        for k, v in r['outcomes'].items():
            if not fresh:
                res['outcomes'][k] = res['outcomes'].get(k, 0) + v
        for k, phase, what, index, detail in r['fails']:
            key = (phase, what, 'new' if (index is not None and what == 'record' and index >= (n + (1 if k == full else 0))) else 'old', 0 < k < full, zero_fill, cfg['cls'], fresh, header)
            g = res['groups'].setdefault(key, {'count': 0, 'first': None})
            g['count'] += 1
            cand = (io.cfg_rank(cfg), n, k)
            if g['first'] is None or cand < g['first'][0]:
                g['first'] = (cand, {'cfg': cfg, 'n': n, 'k': k, 'full': full, 'index': index, 'detail': detail})

    with crash.Scratch('c16') as wd:
        child_items, child_meta = [], []
        for cfg, n, flags in units:
            hbytes, base, delta, records, torn, new = crash_setup(wd, cfg, n, off)
            full = len(delta)
            res['units'] += 1
            res['max_record_bytes'] = max(res['max_record_bytes'], full)
            for zf in variants:
                if 'a' in flags and not (zf and len(cfg['grid']) > 2):
                    r = io.run_append_crash_states(wd, cfg, base, delta, records, torn, new, zero_fill=zf)
                    res['states'] += r['states']
                    res['torn_states'] += r['torn']
                    absorb(cfg, n, full, r, zf, False)
                    if True:
                        child_items.append({'mode': 'append_crash', 'cfg': cfg, 'base': base, 'delta': delta, 'records': records, 'torn_record': torn, 'new_record': new, 'ks': child_ks(full, tier), 'zero_fill': zf})
                        child_meta.append((cfg, n, full, zf, False))
                if 'h' in flags:
                    r = io.run_header_crash_states(wd, cfg, hbytes, zero_fill=zf)
                    res['header_states'] += r['states']
                    absorb(cfg, 0, len(hbytes), r, zf, False, header=True)
                    child_items.append({'mode': 'header_crash', 'cfg': cfg, 'hbytes': hbytes, 'ks': child_ks(len(hbytes), tier), 'zero_fill': zf})
                    child_meta.append((cfg, 0, len(hbytes), zf, True))
            if res['sample'] is None and 'a' in flags:
                res['sample'] = {'phase': 'crash', 'cfg': cfg, 'completed_records': n, 'record_bytes': full, 'crash_points': f'k=0..{full}', 'header_bytes': len(hbytes)}
        if child_items:
            results = io.run_child(wd, child_items, tag='crash')
            res['child_spawns'] += 1
            for r, (cfg, n, full, zf, hdr) in zip(results, child_meta):
                res['child_states'] += r['states']
                absorb(cfg, n, full, r, zf, True, header=hdr)
    FieldsIO.ALLOW_OVERWRITE = saved
    res['cpu'] = _cpu() - cpu0
    return res


def crash_signature(key):
    phase, what, which, torn, zero_fill, cls, fresh, header = key
    if header:
        kind = 'torn_header' if torn else 'header_creation'
    elif phase == 'recovery':
        kind = 'torn_record_recovery' if torn else 'reopen_complete_file'
    else:
        kind = 'append_after_torn_record' if torn else 'append_after_reopen'
    if what == 'record':
        what = 'new_record_not_read_back' if which == 'new' else 'completed_record_changed'
    elif what == 'nfields':
        what = 'nfields_wrong'
    elif what == 'out_of_range_returned':
        what = 'incomplete_or_absent_record_returned'
    sig = {'kind': kind, 'what': what, 'class': cls}
    if zero_fill:
        sig['variant'] = 'zero_filled_tail'
    return sig


# =========================================================================================================
# phase B : block decomposition
# =========================================================================================================
def block_case(nProcs, grid, algo, order):
    """Returns ('ok'|'rejected', info) or ('fail', what, detail)."""
    objs, errs = [], []
    for r in range(nProcs):
        try:
            objs.append(BlockDecomposition(nProcs, list(grid), algo, r, order))
        except Exception as e:  # noqa: BLE001
            errs.append(repr(e))
    if errs:
        if len(errs) == nProcs:
            return ('rejected', errs[0])
        return ('fail', 'inconsistent_rejection', {'raised_for': len(errs), 'of': nProcs, 'error': errs[0]})
    nB = [int(x) for x in objs[0].nBlocks]
    for o in objs:
        if [int(x) for x in o.nBlocks] != nB:
            return ('fail', 'nblocks_depends_on_rank', {'a': nB, 'b': [int(x) for x in o.nBlocks]})
    if len(nB) != len(grid) or any(b < 1 for b in nB) or int(np.prod(nB)) != nProcs:
        return ('fail', 'nblocks_product', {'nBlocks': nB, 'nProcs': nProcs})
    bounds, errs = [], []
    for o in objs:
        try:
            bounds.append(o.localBounds)
        except Exception as e:  # noqa: BLE001
            errs.append(repr(e))
    if errs:
        if len(errs) == nProcs:
            return ('rejected', errs[0])
        return ('fail', 'inconsistent_rejection', {'raised_for': len(errs), 'of': nProcs, 'error': errs[0]})
    bad = model.cover_defects(list(grid), bounds)
    if bad:
        return ('fail', bad[0], dict(bad[1], nBlocks=nB))
    # one object asked for every rank in turn (the rank is a public attribute, None by default): the same blocks
    try:
        one = BlockDecomposition(nProcs, list(grid), algo, None, order)
        for r in list(range(nProcs)) + list(range(nProcs - 1, -1, -1)):
            one.gRank = r
            got = one.localBounds
            if [list(map(int, x)) for x in got] != [list(map(int, x)) for x in bounds[r]]:
                return ('fail', 'bounds_depend_on_earlier_rank_queries', {'rank': r, 'observed': [list(map(int, x)) for x in got], 'fresh_object': [list(map(int, x)) for x in bounds[r]], 'nBlocks': nB})
    except Exception as e:  # noqa: BLE001
        return ('fail', 'rank_attribute_not_usable', {'error': repr(e)[:200]})
    return ('ok', tuple(nB), sum(1 for _, nl in bounds if min(nl) == 0))


def block_chunk(gridlist):
    cpu0 = _cpu()
    res = {'cases': 0, 'ranks': 0, 'ok': 0, 'rejected': 0, 'with_empty_blocks': 0, 'nblocks_seen': set(), 'fails': [], 'nontrivial': 0}
    for grid in gridlist:
        for nProcs in BLOCK_NPROCS:
            for algo in ('Hybrid', 'ChatGPT'):
                for order in ('C', 'F'):
                    r = block_case(nProcs, grid, algo, order)
                    res['cases'] += 1
                    res['ranks'] += nProcs
                    res['nontrivial'] += nProcs >= 2
                    if r[0] == 'ok':
                        res['ok'] += 1
                        res['nblocks_seen'].add((len(grid), algo, r[1]))
                        res['with_empty_blocks'] += r[2] > 0
                    elif r[0] == 'rejected':
                        res['rejected'] += 1
                    else:
                        res['fails'].append({'nProcs': nProcs, 'grid': list(grid), 'algo': algo, 'order': order, 'what': r[1], 'detail': r[2]})
    res['fails'] = _thin(res['fails'], lambda f: (f['what'], f['algo'], f['order']), lambda f: (f['nProcs'] * int(np.prod(f['grid'])), len(f['grid']), f['nProcs'], f['grid']))
    res['cpu'] = _cpu() - cpu0
    return res


BLOCK_SIZES_3D_QUICK = (1, 2, 5, 8, 17)


def block_grids(tier):
    out = []
    for dim in (1, 2, 3):
        sizes = BLOCK_SIZES_3D_QUICK if (dim == 3 and tier == 'quick') else BLOCK_SIZES
        out += [list(g) for g in itertools.product(sizes, repeat=dim)]
    return out


# =========================================================================================================
# phase L : LogToFile resume
# =========================================================================================================
# ---------------------------------------------------------------------------------------------------------------------
# G: files whose size crosses 2**31 and 2**32 bytes.  The bulk of such a file is a hole of zero bytes (byte for byte the
# records addField(0.0, zeros) writes), created with os.truncate; real records sit at both ends and every handle kind
# (the creating one, FieldsIO.fromFile, <Class>.fromFile) reads both ends, the middle, and appends.
# ---------------------------------------------------------------------------------------------------------------------
LARGE_CASES = [(cls, dt, lim) for cls in ('Scalar', 'Rectilinear') for dt in (0, 3) for lim in (31, 32)]


def large_case(case):
    cls, dt, lim = case
    dtype = DTYPES[dt]
    rng = np.random.default_rng(1000 * lim + 10 * dt + len(cls))
    fails = []
    info = {'case': list(case)}

    def bits(a):
        return np.ascontiguousarray(a).tobytes()

    with crash.Scratch('c16') as wd:
        path = os.path.join(wd, 'large.pysdc')
        if cls == 'Scalar':
            w = io.CLASSES['Scalar'](dtype, path)
            w.setHeader(nVar=1 << 16)
            shape = (1 << 16,)
        else:
            w = io.CLASSES['Rectilinear'](dtype, path)
            coords = [np.sort(rng.random(n)) for n in (32, 32, 16)]
            w.setHeader(nVar=4, coords=coords)
            shape = (4, 32, 32, 16)
        w.initialize()

        def field():
            a = rng.standard_normal(shape)
            if np.dtype(dtype).kind == 'c':
                a = a + 1j * rng.standard_normal(shape)
            return a.astype(dtype)

        rec = w.tSize + w.fSize
        recs = {}
        for i, t in enumerate((0.25, 0.5)):
            u = field()
            w.addField(t, u)
            recs[i] = (t, u)
        nzero = ((1 << lim) - w.hSize) // rec + 2 - 2  # after two more real records the file is past the limit
        os.truncate(path, w.hSize + (2 + nzero) * rec)
        ntot = 2 + nzero
        for t in (7.5, 8.0):
            u = field()
            w.addField(t, u)
            recs[ntot] = (t, u)
            ntot += 1
        info['file_size'] = os.path.getsize(path)
        info['records'] = int(ntot)
        if not info['file_size'] > (1 << lim):
            raise RuntimeError('harness: file did not cross the limit')
        zero = np.zeros(shape, dtype=dtype)

        def check_handle(name, h):
            try:
                if h.nFields != ntot:
                    fails.append({'what': 'record_count', 'handle': name, 'detail': {'expected': ntot, 'observed': int(h.nFields)}})
                    return
                for idx in (0, 1, ntot - 2, ntot - 1, -1, -2, -ntot, ntot // 2):
                    pos = idx if idx >= 0 else ntot + idx
                    t, u = h.readField(idx)
                    wt, wu = recs.get(pos, (0.0, zero))
                    if not (t == wt and h.time(idx) == wt):
                        fails.append({'what': 'time_differs', 'handle': name, 'detail': {'index': idx, 'expected': wt, 'observed': float(t)}})
                        return
                    if not (u.shape == wu.shape and u.dtype == wu.dtype and bits(u) == bits(wu)):
                        fails.append({'what': 'field_bits_differ', 'handle': name, 'detail': {'index': idx}})
                        return
                ts = h.times
                if len(ts) != ntot or ts[0] != 0.25 or ts[-1] != recs[ntot - 1][0]:
                    fails.append({'what': 'times_differ', 'handle': name, 'detail': {'len': len(ts)}})
            except Exception as e:  # noqa: BLE001
                fails.append({'what': 'read_raised', 'handle': name, 'detail': {'error': f'{type(e).__name__}: {e}'[:200]}})

        check_handle('creating handle', w)
        check_handle('FieldsIO.fromFile', FieldsIO.fromFile(path))
        check_handle(f'{cls}.fromFile', io.CLASSES[cls].fromFile(path))
        if not fails:
            try:
                r = FieldsIO.fromFile(path)
                u = field()
                r.addField(8.5, u)
                recs[ntot] = (8.5, u)
                ntot += 1
            except Exception as e:  # noqa: BLE001
                fails.append({'what': 'append_raised', 'handle': 'FieldsIO.fromFile', 'detail': {'error': f'{type(e).__name__}: {e}'[:200]}})
            else:
                check_handle('creating handle after append through a re-opened one', w)
                check_handle('FieldsIO.fromFile after append', FieldsIO.fromFile(path))
    return case, fails, info


DT_L = 0.125
LTF_REC = 8 + 2 * 16  # bytes of one record of the two-variable complex test equation (checked at run time)


def _controller(hooks, nlam=2):
    from pySDC.implementations.controller_classes.controller_nonMPI import controller_nonMPI
    from pySDC.implementations.problem_classes.TestEquation_0D import testequation0d
    from pySDC.implementations.sweeper_classes.generic_implicit import generic_implicit

    description = {
        'level_params': {'dt': DT_L},
        'sweeper_class': generic_implicit,
        'problem_class': testequation0d,
        'sweeper_params': {'num_nodes': 1, 'quad_type': 'GAUSS'},
        'problem_params': {'u0': 1.0, 'lambdas': np.array([-1.0 + 0.5j, -0.25 - 2.0j, -0.5 + 1.0j][:nlam])},
        'step_params': {'maxiter': 1},
    }
    return controller_nonMPI(1, {'hook_class': hooks, 'logger_level': 90, 'dump_setup': False}, description)


def _make_hooks(path, allow):
    from pySDC.core.hooks import Hooks
    from pySDC.implementations.hooks.log_solution import LogToFile

    class FileHook(LogToFile):
        filename = path
        allow_overwriting = allow

    class Recorder(Hooks):
        # listed after FileHook, so each callback runs after LogToFile's: the snapshots show the file after every write
        log = []
        snaps = []

        def pre_run(self, step, level_number):
            super().pre_run(step, level_number)
            type(self).snaps.append(crash.snapshot(path))

        def post_step(self, step, level_number):
            super().post_step(step, level_number)
            L = step.levels[level_number]
            type(self).log.append((model.dbits(float(L.time + L.dt)), np.asarray(L.uend).astype(np.complex128).flatten().tobytes()))
            type(self).snaps.append(crash.snapshot(path))

    Recorder.log = []
    Recorder.snaps = []
    return FileHook, Recorder


def _ltf_run(path, t0, u0bits, nsteps, allow=False, nlam=2):
    """One controller run with LogToFile over nsteps steps from t0. Returns ('ok', initial record, step records) or ('raised', e)."""
    FileHook, Recorder = _make_hooks(path, allow)
    saved = FieldsIO.ALLOW_OVERWRITE
    try:
        c = _controller([FileHook, Recorder], nlam)
        prob = c.MS[0].levels[0].prob
        u0 = prob.u_exact(0)
        if u0bits is not None:
            u0[:] = np.frombuffer(u0bits, dtype=np.complex128).reshape(u0.shape)
        init = (model.dbits(float(t0)), np.asarray(u0).astype(np.complex128).flatten().tobytes())
        try:
            c.run(u0, t0, t0 + nsteps * DT_L)
        except Exception as e:  # noqa: BLE001
            return ('raised', e, None, None)
        return ('ok', init, list(Recorder.log), list(Recorder.snaps))
    finally:
        FieldsIO.ALLOW_OVERWRITE = saved


def ltf_case(case):
    """case = ('resume', n1, n2) | ('torn_resume', n1, n2, k) | ('rerun_t0', n1, allow).  Returns failure dict or None, info."""
    header = ('Scalar', 'complex128', 2, ())
    with crash.Scratch('c16') as wd:
        path = os.path.join(wd, 'ltf.pysdc')
        r1 = _ltf_run(path, 0.0, None, case[1])
        if r1[0] != 'ok':
            return {'what': 'first_run_raised', 'detail': {'raised': repr(r1[1])}}, {}
        recs1 = [r1[1]] + r1[2]
        if len(r1[2]) != case[1]:
            return None, {'outcome': f'unexpected number of steps in run 1: {len(r1[2])}'}
        bad = io.verify_file(path, header, recs1)
        if bad:
            return {'what': 'first_run_' + bad[0], 'index': bad[1], 'detail': bad[2]}, {}
        s1 = crash.snapshot(path)
        if case[0] == 'reload_after_replace':
            # the hook's own reader (LogToFile.load) before and after the file of that name was replaced, with
            # permission, by a run with another header (three instead of two components)
            from pySDC.implementations.hooks.log_solution import LogToFile

            saved_name = LogToFile.filename
            LogToFile.filename = path
            try:
                for i in range(len(recs1)):
                    got = LogToFile.load(i)
                    if model.dbits(got['t']) != recs1[i][0] or np.asarray(got['u']).tobytes() != recs1[i][1]:
                        return {'what': 'load_wrong_record', 'index': i, 'detail': {'phase': 'first file'}}, {}
                r2 = _ltf_run(path, 0.0, None, case[1], allow=True, nlam=3)
                if r2[0] != 'ok':
                    return {'what': 'permitted_overwrite_raised', 'detail': {'raised': repr(r2[1])}}, {}
                recs2 = [r2[1]] + r2[2]
                for i in list(range(len(recs2))) + [-1]:
                    try:
                        got = LogToFile.load(i)
                    except Exception as e:  # noqa: BLE001
                        return {'what': 'load_after_replace_raised', 'index': i, 'detail': {'raised': repr(e)[:200]}}, {}
                    if model.dbits(got['t']) != recs2[i][0] or np.asarray(got['u']).tobytes() != recs2[i][1]:
                        return {'what': 'load_wrong_record_after_file_was_replaced', 'index': i, 'detail': {'t_returned': repr(got['t']), 'shape_returned': list(np.shape(got['u'])), 'shape_stored': [3]}}, {}
                return None, {'outcome': 'hook reader follows the replaced file'}
            finally:
                LogToFile.filename = saved_name
        if case[0] == 'rerun_t0':
            r2 = _ltf_run(path, 0.0, None, 1, allow=case[2])
            s2 = crash.snapshot(path)
            if not case[2]:
                if s2 != s1:
                    return {'what': 'overwritten_without_permission', 'detail': {'outcome': r2[0]}}, {}
                return None, {'outcome': 'rerun refused: ' + (type(r2[1]).__name__ if r2[0] == 'raised' else 'no exception')}
            if r2[0] != 'ok':
                return {'what': 'permitted_overwrite_raised', 'detail': {'raised': repr(r2[1])}}, {}
            bad = io.verify_file(path, header, [r2[1]] + r2[2])
            if bad:
                return {'what': 'rerun_' + bad[0], 'index': bad[1], 'detail': bad[2]}, {}
            return None, {'outcome': 'rerun with overwriting replaced the file'}
        completed = recs1
        if case[0] == 'torn_resume':
            k = case[3]
            base = r1[3][-2]  # the file as LogToFile left it before the last step's record (recorded, not computed)
            delta = crash.extension(base, s1)
            if delta is None or r1[3][-1] != s1:
                return {'what': 'append_changed_existing_bytes', 'detail': {}}, {}
            if len(delta) != LTF_REC:
                return None, {'outcome': f'INCOMPLETE: record has {len(delta)} bytes, crash points were planned for {LTF_REC}'}
            crash.materialise(path, base + delta[:k])
            torn_now = k < len(delta)
            if torn_now:
                completed = recs1[:-1]
        # resume exactly like the repository's own test does: initial value and time from the last stored record
        from pySDC.implementations.hooks.log_solution import LogToFile

        class Loader(LogToFile):
            filename = path

        try:
            last = Loader.load(-1)
        except Exception as e:  # noqa: BLE001
            return {'what': 'load_last_raised', 'detail': {'raised': repr(e)}}, {}
        if model.dbits(last['t']) != completed[-1][0] or np.asarray(last['u']).tobytes() != completed[-1][1]:
            return {'what': 'load_last_wrong_record', 'detail': {'t': repr(last['t']), 'expected_t': completed[-1][0].hex()}}, {}
        t0 = last['t']
        if not t0 > 0:
            return None, {'outcome': 'nothing to resume from (t0 = 0)'}
        r2 = _ltf_run(path, t0, completed[-1][1], case[2])
        if r2[0] != 'ok':
            return {'what': 'resume_raised', 'detail': {'raised': repr(r2[1])}}, {}
        expected = completed + r2[2]
        bad = io.verify_file(path, header, expected)
        if bad:
            idx = bad[1]
            what = bad[0]
            if what == 'record' and idx < len(completed):
                what = 'completed_record_changed'
            elif what in ('record', 'nfields'):
                # a mis-placed record also defeats LogToFile's "time already stored?" test in post_run, so the count can be off too
                what = 'resumed_records_not_read_back'
            return {'what': what, 'index': idx, 'detail': bad[2]}, {}
        return None, {'outcome': 'resumed and read back exactly'}


def ltf_cases():
    cases = [('resume', n1, n2) for n1 in (1, 2, 3) for n2 in (1, 2)]
    cases += [('torn_resume', 2, 1, k) for k in range(0, LTF_REC + 1)]
    cases += [('torn_resume', 3, 2, k) for k in (1, 8, LTF_REC - 1)]
    cases += [('rerun_t0', 2, False), ('rerun_t0', 2, True)]
    cases += [('reload_after_replace', n) for n in (1, 2, 3)]
    return cases


def ltf_job(case):
    saved = FieldsIO.ALLOW_OVERWRITE
    try:
        fail, info = ltf_case(case)
    finally:
        FieldsIO.ALLOW_OVERWRITE = saved
    return case, fail, info


def ltf_signature(case, fail):
    torn = case[0] == 'torn_resume' and 0 < case[3] < LTF_REC
    kind = 'append_after_torn_record' if torn else {'resume': 'logtofile_resume', 'torn_resume': 'logtofile_resume', 'rerun_t0': 'logtofile_rerun', 'reload_after_replace': 'logtofile_load'}[case[0]]
    return {'kind': kind, 'what': fail['what'], 'class': 'LogToFile'}


# =========================================================================================================
# run / replay
# =========================================================================================================
class Collector:
    """violations grouped by signature; the simplest case of each group is reported, with the group's size.
    An observation made in the fresh reader process is merged into the in-process group of the same signature;
    only if the in-process check passed does it get its own signature (with "process": "fresh")."""

    def __init__(self):
        self.groups = {}

    def add(self, sig, rank, detail, replay, count=1, fresh=False):
        key = (common.canon(sig), bool(fresh))
        g = self.groups.setdefault(key, {'sig': sig, 'count': 0, 'best': None})
        g['count'] += count
        if g['best'] is None or rank < g['best'][0]:
            g['best'] = (rank, detail, replay)

    def emit(self, rep):
        out = []
        for (key, fresh), g in self.groups.items():
            if fresh and (key, False) in self.groups:
                continue
            sig = dict(g['sig'])
            detail = dict(g['best'][1])
            detail['failing_cases_with_this_signature_in_this_run'] = g['count']
            if fresh:
                sig['process'] = 'fresh'
            elif (key, True) in self.groups:
                detail['also_failing_in_fresh_process'] = self.groups[(key, True)]['count']
            out.append((g['best'][0], common.canon(sig), sig, detail, g['best'][2]))
        for _, _, sig, detail, replay in sorted(out, key=lambda x: (x[0], x[1])):
            rep.violation(sig, detail, replay)


def _tick(cov, label, t0):
    import time

    cov.setdefault('phase_wall_s', {})[label] = round(time.time() - t0, 2)
    return time.time()


def run(rep, tier):
    import time

    tick = time.time()
    off = common.seed()
    rng = common.rng('c16')
    coll = Collector()
    cov = rep.coverage
    nbins = 6 * common.NPROC
    thorough = tier == 'thorough'
    nvars = tuple(range(1, 7)) if thorough else (1, 2, 3)
    rep.assumptions += [
        'a crash leaves a byte prefix of what the interrupted call would have written (optionally zero-filled to full length); bytes written by earlier, completed calls are durable',
        'the oracle is a list-of-records model; the number of completed records of a crash state is taken from the history (which appends returned), never from a file size',
        'fresh-process reads use one new interpreter per batch of files (spawned, not forked); the crash states it recovers are materialised inside that process from the bytes the writer process produced',
        'no MPI in this sandbox: the MPI-IO branch of Rectilinear (MPI.File, setupMPI) is not exercised; block decompositions are checked as index sets only',
        'serial use: one writer at a time, no concurrent access to a file',
    ]

    # ---------------- H + V: histories ----------------
    plan = []  # (label, cfgs, depth)
    if thorough:
        plan.append(('full lattice (6 dtypes x nVar 1..6 x dims 0..3 x sizes 1..3), all histories of length <= 3', lattice(nvars), 3))
        plan.append(('full lattice with special coordinates, all histories of length <= 2', [c for c in lattice(nvars, cvs=(1,)) if c['cls'] == 'Rectilinear'], 2))
        d6 = [c for c in deep_configs()[0] if c['dt'] in (0, 3)]
        plan.append(('2 configurations (float64 Scalar nVar=2, clongdouble Rectilinear 2x3), all histories of length <= 6', d6, 6))
        plan.append(('the 10 other deep configurations (per dtype one Scalar, one 2-d Rectilinear), all histories of length <= 5', [c for c in deep_configs()[0] + deep_configs()[1] if c not in d6], 5))
        child_every = 1
    else:
        plan.append(('full lattice (6 dtypes x nVar 1..3 x dims 0..3 x sizes 1..3), all histories of length <= 2', lattice(nvars), 2))
        plan.append(('full lattice with special coordinates, all histories of length <= 1', [c for c in lattice(nvars, cvs=(1,)) if c['cls'] == 'Rectilinear'], 1))
        d5 = [c for c in deep_configs()[0] if c['dt'] in (0, 3, 5)]
        plan.append(('3 configurations (float64 Scalar nVar=2, clongdouble and complex64 Rectilinear 2x3), all histories of length <= 5', d5, 5))
        plan.append(('the 9 other deep configurations (per dtype one Scalar, one 2-d Rectilinear), all histories of length <= 4', [c for c in deep_configs()[0] + deep_configs()[1] if c not in d5], 4))
        child_every = 16
    units = []
    bounds = []
    for label, cfgs, depth in plan:
        nh = 0
        for cfg in cfgs:
            if depth >= 5:
                for op in OPS:
                    hs = all_histories(depth, op)
                    units.append((cfg, hs))
                    nh += len(hs)
                units.append((cfg, ['']))
                nh += 1
            else:
                hs = all_histories(depth)
                units.append((cfg, hs))
                nh += len(hs)
        bounds.append({'space': 'H: ' + label, 'configurations': len(cfgs), 'histories': nh, 'max_length': depth})
    # value sweeps: as many appends as the pool has entries, so every special value passes through item 0
    vcfgs = []
    for dt in sorted(DTYPES):
        vcfgs += [{'cls': 'Scalar', 'dt': dt, 'nVar': 1, 'grid': [], 'cv': 0}, {'cls': 'Scalar', 'dt': dt, 'nVar': 3, 'grid': [], 'cv': 0}, {'cls': 'Rectilinear', 'dt': dt, 'nVar': 1, 'grid': [2], 'cv': 0}]
    for cfg in vcfgs:
        m = len(io._pool(io.cfg_dname(cfg)))
        units.append((cfg, ['A' * m + 'R', 'A' * m + 'OR', 'A' * (m // 2) + 'P' + 'A' * (m - m // 2) + 'R']))
    bounds.append({'space': 'V: value sweeps (every pool value in item 0)', 'configurations': len(vcfgs), 'histories': 3 * len(vcfgs)})
    rng.shuffle(units)
    jobs = [(b, off, child_every) for b in pack(units, lambda u: sum(len(h) + 4 for h in u[1]) * (1 + io.cfg_items(u[0]) / 200), nbins)]
    H = {'histories': 0, 'nontrivial': 0, 'ops': 0, 'child_files': 0, 'child_spawns': 0, 'max_records': 0, 'cpu': 0.0}
    job_cpu = {'H+V': [], 'C': [], 'B': []}
    labels, outcomes, samples = {}, {}, []
    for r in common.pimap_unordered(hist_chunk, jobs):
        job_cpu['H+V'].append(r['cpu'])
        for k in H:
            H[k] = max(H[k], r[k]) if k == 'max_records' else H[k] + r[k]
        for d, s in r['labels'].items():
            labels.setdefault(d, set()).update(s)
        for k, v in r['outcomes'].items():
            outcomes[k] = outcomes.get(k, 0) + v
        if r['sample'] and len(samples) < 2:
            samples.append(r['sample'])
        for f in r['fails']:
            sig = {'kind': 'history', 'what': f['what'], 'op': f['op'], 'class': f['cfg']['cls']}
            detail = {'cfg': f['cfg'], 'dtype': io.cfg_dname(f['cfg']), 'history': f['history'], 'failed_at_step': f['step'], 'index': f['index'], 'observation': f['detail'], 'alphabet': 'A=addField O=FieldsIO.fromFile P=<Class>.fromFile R=read all N=initialize(no overwrite) Y=initialize(overwrite)'}
            coll.add(sig, (1, len(f['history']), io.cfg_rank(f['cfg']), f['history']), detail, {'mode': 'history', 'cfg': f['cfg'], 'history': f['history'], 'off': off, 'fresh': f['fresh']}, count=f['group_count'], fresh=f['fresh'])

    tick = _tick(cov, 'H+V', tick)

    # ---------------- C: crash states ----------------
    cl = lattice(nvars)
    cunits = []
    if thorough:
        cunits = [(c, 0, 'ah' if len(c['grid']) <= 2 else 'h') for c in cl] + [(c, 1, 'a') for c in cl if len(c['grid']) <= 2 or c['nVar'] in (1, 2, 3, 6)] + [(c, 2, 'a') for c in cl if len(c['grid']) <= 2]
        bounds.append(
            {
                'space': 'C: (dims<=2, nVar 1..6) x n in {0,1,2} and (dim 3, nVar in {1,2,3,6}) x n=1: every byte of the (n+1)-th append; for dims<=2 each state also with zero-filled tail; '
                'header creation: full lattice, every byte (+ zero-filled); every state recovered in-process and again in a fresh process',
                'configurations': len(cl),
            }
        )
    else:
        cunits = [(c, n, 'ah' if n == 0 else 'a') for c in cl if len(c['grid']) <= 2 for n in (0, 1, 2) if n < 2 or len(c['grid']) <= 1]
        cunits += [(c, 0, 'h') for c in cl if len(c['grid']) == 3] + [(c, 1, 'a') for c in cl if len(c['grid']) == 3 and c['nVar'] == 1]
        bounds.append(
            {
                'space': 'C: (dims<=2, nVar 1..3) x n in {0,1} (n=2 for dims<=1) and (dim 3, nVar 1) x n=1: every byte of the (n+1)-th append; header creation: full lattice, every byte; '
                '5% of the states (every 20th byte offset and both ends) recovered again in a fresh process',
                'configurations': len(cl),
            }
        )
    rng.shuffle(cunits)

    def cweight(u):
        return 40 + ('a' in u[2]) * io.cfg_items(u[0]) * np.dtype(DTYPES[u[0]['dt']]).itemsize

    cjobs = [(b, off, tier) for b in pack(cunits, cweight, nbins)]
    C = {'states': 0, 'torn_states': 0, 'header_states': 0, 'child_states': 0, 'child_spawns': 0, 'units': 0, 'max_record_bytes': 0, 'cpu': 0.0}
    c_outcomes = {}
    for r in common.pimap_unordered(crash_chunk, cjobs):
        job_cpu['C'].append(r['cpu'])
        for k in C:
            C[k] = max(C[k], r[k]) if k == 'max_record_bytes' else C[k] + r[k]
        for k, v in r['outcomes'].items():
            c_outcomes[k] = c_outcomes.get(k, 0) + v
        if r['sample'] and len(samples) < 4:
            samples.append(r['sample'])
        for key, g in r['groups'].items():
            sig = crash_signature(key)
            cand, first = g['first']
            cfg = first['cfg']
            detail = {
                'cfg': cfg,
                'dtype': io.cfg_dname(cfg),
                'completed_records_before_crash': first['n'],
                'crash_after_byte': first['k'],
                'bytes_of_interrupted_write': first['full'],
                'index': first['index'],
                'observation': first['detail'],
            }
            replay = {'mode': 'header_crash' if key[7] else 'append_crash', 'cfg': cfg, 'n': first['n'], 'k': first['k'], 'off': off, 'zero_fill': key[4], 'fresh': key[6]}
            coll.add(sig, (0, *cand), detail, replay, count=g['count'], fresh=key[6])

    tick = _tick(cov, 'C', tick)

    # ---------------- B: block decomposition ----------------
    bg = block_grids(tier)
    rng.shuffle(bg)
    bjobs = pack(bg, lambda g: 1 + int(np.prod(g)) / 500, 4 * common.NPROC)
    B = {'cases': 0, 'ranks': 0, 'ok': 0, 'rejected': 0, 'with_empty_blocks': 0, 'nontrivial': 0, 'cpu': 0.0}
    nblocks_seen = set()
    for r in common.pimap_unordered(block_chunk, bjobs):
        job_cpu['B'].append(r['cpu'])
        for k in B:
            B[k] += r[k]
        nblocks_seen |= r['nblocks_seen']
        for f in r['fails']:
            sig = {'kind': 'block_decomposition', 'what': f['what'], 'algo': f['algo'], 'order': f['order']}
            case = {k: f[k] for k in ('nProcs', 'grid', 'algo', 'order')}
            coll.add(sig, (3, f['nProcs'] * int(np.prod(f['grid'])), len(f['grid']), f['nProcs'], f['grid']), dict(case, observation=f['detail']), dict(case, mode='blocks'), count=f['group_count'])
    bounds.append(
        {
            'space': f'B: nProcs 1..64 x grids {list(BLOCK_SIZES)}^dim (dim 1..3' + ('' if thorough else f'; dim 3 in quick: {list(BLOCK_SIZES_3D_QUICK)}^3') + ') x algo (Hybrid, ChatGPT) x order (C, F), all ranks',
            'cases': B['cases'],
            'grids': len(bg),
        }
    )
    samples.append({'phase': 'blocks', 'nProcs': 12, 'grid': [5, 17, 3], 'algo': 'Hybrid', 'order': 'F', 'result': repr(block_case(12, [5, 17, 3], 'Hybrid', 'F'))})

    tick = _tick(cov, 'B', tick)

    # ---------------- G: files beyond 2**31 / 2**32 bytes ----------------
    G = {'cases': 0, 'largest_file_bytes': 0, 'records_in_largest_file': 0}
    for case, gf, ginfo in common.pimap_unordered(large_case, LARGE_CASES):
        G['cases'] += 1
        if ginfo['file_size'] > G['largest_file_bytes']:
            G['largest_file_bytes'], G['records_in_largest_file'] = ginfo['file_size'], ginfo['records']
        for f in gf:
            sig = {'kind': 'large_file', 'what': f['what'], 'class': case[0], 'handle': 're-opened' if 'fromFile' in f['handle'] else 'creating'}
            coll.add(sig, (4, case[2], case[1], case[0]), {'case': list(case), 'dtype': np.dtype(DTYPES[case[1]]).name, 'handle': f['handle'], 'observation': f['detail'], 'file_size_bytes': ginfo['file_size']}, {'mode': 'large', 'case': list(case)})
    bounds.append({'space': 'G: (Scalar, Rectilinear) x (' + ', '.join(np.dtype(DTYPES[d]).name for d in (0, 3)) + ') x file size just beyond 2**31 and 2**32 bytes (hole of zero records between real records at both ends): every handle kind reads first / last / middle records and times; append through a re-opened handle', 'cases': G['cases']})
    cov['large_files'] = G
    tick = _tick(cov, 'G', tick)

    # ---------------- L: LogToFile ----------------
    lcases = ltf_cases()
    L = {'cases': 0, 'failed': 0}
    l_out = {}
    for case, fail, info in common.pimap_unordered(ltf_job, lcases):
        L['cases'] += 1
        if fail:
            L['failed'] += 1
            sig = ltf_signature(case, fail)
            coll.add(sig, (2, len(case), case), {'case': list(case), 'index': fail.get('index'), 'observation': fail.get('detail'), 'meaning': "('torn_resume', n1, n2, k): run n1 steps with LogToFile, cut the file k bytes into its last record, resume for n2 steps from the last stored record"}, {'mode': 'logtofile', 'case': list(case)})
        o = info.get('outcome', 'failed' if fail else '?') if isinstance(info, dict) else '?'
        l_out[o] = l_out.get(o, 0) + 1
    bounds.append({'space': 'L: LogToFile resume (n1 x n2 steps), resume into a file torn at every byte of its last record, rerun with t0=0 with/without allow_overwriting', 'cases': L['cases']})
    samples.append({'phase': 'logtofile', 'case': list(lcases[7])})

    tick = _tick(cov, 'L', tick)
    crash.remove_base_if_empty('c16')

    # ---------------- evidence ----------------
    cov['evaluations'] = H['histories'] + C['states'] + C['header_states'] + C['child_states'] + B['cases'] + L['cases']
    cov['distinct_nontrivial'] = H['nontrivial'] + C['torn_states'] + B['nontrivial'] + sum(1 for c in lcases if c[0] != 'rerun_t0')
    cov['rule'] = (
        'H: every word over {A,O,P,R,N,Y} up to the stated length per configuration, run from an empty directory; non-trivial = contains an append and a re-open or a second initialize (distinct (configuration, word) pairs counted). '
        'C: every byte offset k of the interrupted write; non-trivial = 0 < k < length (distinct (configuration, n, k, plain / zero-filled), counted while enumerating, in-process pass only). '
        'B: every (nProcs, grid, algo, order) with all ranks; non-trivial = nProcs >= 2. L: every listed controller history; non-trivial = involves a resume. '
        'VERIF_SEED only rotates which pool value lands in which item/record and shuffles the work distribution.'
    )
    cov['samples'] = samples
    cov['bounds_completed'] = bounds
    cov['exhaustive'] = not any(k.startswith('INCOMPLETE') for k in l_out)  # every listed space is enumerated completely, no time caps
    cov['histories'] = H
    cov['history_outcomes_not_judged'] = outcomes
    cov['special_values_round_tripped'] = {d: sorted(s) for d, s in sorted(labels.items())}
    cov['crash'] = C
    cov['crash_outcomes_not_judged'] = c_outcomes
    cov['blocks'] = dict(B, distinct_nBlocks=len(nblocks_seen))
    cov['logtofile'] = dict(L, outcomes=l_out)
    cov['dimensions'] = {
        'dtypes': [np.dtype(DTYPES[k]).name for k in sorted(DTYPES)],
        'nVar': list(nvars),
        'grid_sizes': list(SIZES),
        'grid_dims': [0, 1, 2, 3],
        'ops': OPS,
        'block_sizes': list(BLOCK_SIZES),
        'block_nProcs': [BLOCK_NPROCS[0], BLOCK_NPROCS[-1]],
    }
    cov['cpu_s'] = {k: {'total': round(sum(v), 1), 'jobs': len(v), 'max_job': round(max(v), 1)} for k, v in job_cpu.items() if v}
    cov['worst_headroom'] = 'n/a: every comparison is exact equality of bytes / integers'
    cov['out_of_reach'] = ['MPI-IO branch of Rectilinear (MPI.File; mpi4py is not installed)']
    coll.emit(rep)


def replay(rep, case):
    mode = case.get('mode')
    saved = FieldsIO.ALLOW_OVERWRITE
    try:
        if mode == 'history':
            with crash.Scratch('c16') as wd:
                keep = os.path.join(wd, 'keep.pysdc') if case.get('fresh') else None
                fail, info = run_history(wd, case['cfg'], case['history'], case['off'], keep_as=keep)
                if fail:
                    rep.violation({'kind': 'history', 'what': fail[2], 'op': fail[1], 'class': case['cfg']['cls']}, {'history': case['history'], 'failed_at_step': fail[0], 'index': fail[3], 'observation': fail[4]}, case)
                elif keep:
                    r = io.run_child(wd, [info['child_item']])[0]
                    if r is not None:
                        h = case['history']
                        rep.violation({'kind': 'history', 'what': r[0], 'op': h[-1] if h else 'create', 'class': case['cfg']['cls'], 'process': 'fresh'}, {'history': h, 'index': r[1], 'observation': r[2]}, case)
        elif mode in ('append_crash', 'header_crash'):
            cfg, n, k = case['cfg'], case['n'], case['k']
            with crash.Scratch('c16') as wd:
                hbytes, base, delta, records, torn, new = crash_setup(wd, cfg, n, case['off'])
                if mode == 'append_crash':
                    item = {'mode': 'append_crash', 'cfg': cfg, 'base': base, 'delta': delta, 'records': records, 'torn_record': torn, 'new_record': new, 'ks': [k], 'zero_fill': case.get('zero_fill', False)}
                    full = len(delta)
                else:
                    item = {'mode': 'header_crash', 'cfg': cfg, 'hbytes': hbytes, 'ks': [k], 'zero_fill': case.get('zero_fill', False)}
                    full = len(hbytes)
                if case.get('fresh'):
                    r = io.run_child(wd, [item])[0]
                elif mode == 'append_crash':
                    r = io.run_append_crash_states(wd, cfg, base, delta, records, torn, new, ks=[k], zero_fill=case.get('zero_fill', False))
                else:
                    r = io.run_header_crash_states(wd, cfg, hbytes, ks=[k], zero_fill=case.get('zero_fill', False))
                for kk, phase, what, index, detail in r['fails']:
                    key = (phase, what, 'new' if (index is not None and what == 'record' and index >= (n + (1 if kk == full else 0))) else 'old', 0 < kk < full, case.get('zero_fill', False), cfg['cls'], bool(case.get('fresh')), mode == 'header_crash')
                    sig = crash_signature(key)
                    if case.get('fresh'):
                        sig['process'] = 'fresh'
                    rep.violation(sig, {'cfg': cfg, 'completed_records_before_crash': n, 'crash_after_byte': kk, 'bytes_of_interrupted_write': full, 'index': index, 'observation': detail}, case)
        elif mode == 'blocks':
            r = block_case(case['nProcs'], case['grid'], case['algo'], case['order'])
            if r[0] == 'fail':
                rep.violation({'kind': 'block_decomposition', 'what': r[1], 'algo': case['algo'], 'order': case['order']}, dict(case, observation=r[2]), case)
        elif mode == 'logtofile':
            c = tuple(case['case'])
            fail, info = ltf_case(c)
            if fail:
                rep.violation(ltf_signature(c, fail), {'case': list(c), 'index': fail.get('index'), 'observation': fail.get('detail')}, case)
        elif mode == 'large':
            c, gf, ginfo = large_case(tuple(case['case']))
            for f in gf:
                rep.violation({'kind': 'large_file', 'what': f['what'], 'class': c[0], 'handle': 're-opened' if 'fromFile' in f['handle'] else 'creating'}, {'case': list(c), 'handle': f['handle'], 'observation': f['detail'], 'file_size_bytes': ginfo['file_size']}, case)
        else:
            raise ValueError(f'unknown replay mode {mode!r}')
    finally:
        FieldsIO.ALLOW_OVERWRITE = saved
        crash.remove_base_if_empty('c16')
