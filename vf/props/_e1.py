"""Shared driver for the E1 (choice-tree) properties: explore a list of harness configurations, merge the
explorer counters into the evidence, and register violations with their minimal replay."""

import time

from vf import common
from vf.engine import explore


def explore_variants(rep, make_harness, variants, bound=None, time_cap=None, label='', probe=True):
    """variants: list of cfg dicts. Returns list of (cfg, Stats)."""
    results = []
    best = {}  # signature -> (ndev, len, detail, replay)
    nprobe = 0
    import sys
    import time as _time

    harnesses = [make_harness(cfg) for cfg in variants]
    _t0 = _time.time()
    stats = explore.explore_many(harnesses, bound=bound, time_cap=time_cap)
    print(f'[{rep.pid}] {label}: {len(variants)} configurations, bound {bound}, {sum(st.executions for st in stats)} executions, {_time.time() - _t0:.0f}s', file=sys.stderr, flush=True)
    for cfg, h, st in zip(variants, harnesses, stats):
        explore.evidence_from(st, rep, prefix=f'{label}:{common.short_hash(cfg)}')
        results.append((cfg, st))
        rep.coverage['distinct_outcomes'] = rep.coverage.get('distinct_outcomes', 0) + len(st.outcomes)
        for sig, det, choices in st.violations:
            nd = sum(1 for c in choices if c)
            key = common.canon(sig)
            cand = (nd, len(choices), det, {'cfg': cfg, 'choices': choices}, sig)
            if key not in best or cand[:2] < best[key][:2]:
                best[key] = cand
        if probe and nprobe < 2 and st.samples:
            # determinism: the same schedule twice gives identical observations
            for smp in st.samples[-1:]:
                if not explore.determinism_probe(h, smp['choices']):
                    rep.violation({'kind': 'nondeterministic_harness', 'cfg': cfg}, {'choices': smp['choices']})
            nprobe += 1
    for key, (nd, ln, det, replay, sig) in sorted(best.items(), key=lambda kv: kv[1][:2]):
        # a violation is replayed once more before it is reported
        h = make_harness(replay['cfg'])
        out, _ = explore.run_once(h, replay['choices'])
        again = [s for s, _ in out.violations if common.canon(s) == key]
        det = dict(det)
        det['reproduced_on_replay'] = bool(again)
        det['choices'] = replay['choices']
        rep.violation(sig, det, replay)
    return results


def replay_case(rep, make_harness, case):
    cfg = case['cfg']
    if 'checks' in cfg:
        cfg['checks'] = tuple(cfg['checks'])
    h = make_harness(cfg)
    out, ctx = explore.run_once(h, case['choices'])
    for sig, det in out.violations:
        rep.violation(sig, det, case)
    return out
