"""C14 — statistics are a faithful, uniquely keyed record of the run.

Part A (E1): every history explored for the restart / step-size harness (C09), the convergence-pattern harness (C07)
and partially filled last blocks (C06) is run with all shipped logging hooks; the statistics are compared with the
independent recorder's ground truth.  Part B (E2, exhaustive): filter/sort helpers on all synthetic statistics
dictionaries with <= 3 entries over a two-valued key alphabet, against a brute-force reference.
"""

import itertools

from vf import common
from vf.env import block
from vf.props import _e1, c09

LEVEL = 'model_checking'

HOOKS = [
    'pySDC.implementations.hooks.log_solution.LogSolution',
    'pySDC.implementations.hooks.log_work.LogWork',
    'pySDC.implementations.hooks.log_work.LogSDCIterations',
    'pySDC.implementations.hooks.log_step_size.LogStepSize',
    'pySDC.implementations.hooks.log_errors.LogGlobalErrorPostStep',
    'pySDC.implementations.hooks.log_errors.LogLocalErrorPostStep',
    'pySDC.implementations.hooks.log_errors.LogGlobalErrorPostRun',
    # a subclass of a hook that a convergence controller adds later on its own (registration of related hook classes)
    'pySDC.implementations.hooks.log_embedded_error_estimate.LogEmbeddedErrorEstimatePostIter',
    'vf.env.block.DiagnosticHook',  # environment, not under test: causes work outside the steps
]
POST = ('vf.props._hist:check_stats',)


def make(cfg):
    return block.BlockRun(cfg)


# ---- part B: helpers ------------------------------------------------------------------------------------
def _helpers(rep, tier):
    from pySDC.core.hooks import Entry
    from pySDC.helpers.stats_helper import filter_stats, get_list_of_types, get_sorted, sort_stats

    fields = ['process', 'time', 'level', 'iter', 'type']
    # values whose numeric order differs from their lexicographic order (2 < 10 but '10' < '2')
    alpha = {'process': [2, 10], 'time': [2.0, 10.0], 'level': [0, 1], 'iter': [2, 10], 'type': ['a', 'b']}
    keys = [Entry(process=p, process_sweeper=0, time=t, level=l, iter=i, sweep=1, type=ty, num_restarts=0) for p, t, l, i, ty in itertools.product(*[alpha[f] for f in fields])]
    nmax = 3 if tier == 'thorough' else 2
    # queries: every assignment of {unset, v0, v1} to at most two key fields (thorough: three)
    qmax = 3 if tier == 'thorough' else 2
    queries = [{}]
    for r in range(1, qmax + 1):
        for which in itertools.combinations(fields, r):
            for vals in itertools.product(*[alpha[f] for f in which]):
                queries.append(dict(zip(which, vals)))
    n = 0
    nontrivial = 0
    for r in range(0, nmax + 1):
        for ks in itertools.combinations(keys, r):
            stats = {k: idx for idx, k in enumerate(ks)}
            for q in queries:
                n += 1
                want = {k: v for k, v in stats.items() if all(getattr(k, f) == val for f, val in q.items())}
                got = filter_stats(stats, **q)
                if got != want:
                    rep.violation({'kind': 'filter_stats', 'query': q, 'n': r}, {'keys': [tuple(k) for k in ks], 'got': len(got), 'want': len(want)}, {'helper': 'filter', 'keys': [list(k) for k in ks], 'query': q})
                if 0 < len(want) < len(stats):
                    nontrivial += 1
                for sortby in ('time', 'iter', 'process'):
                    w = sorted([(getattr(k, sortby), v) for k, v in want.items()], key=lambda x: x[0])
                    g = get_sorted(stats, sortby=sortby, **q)
                    # ascending in the key; ties may come in any order
                    if [x[0] for x in g] != [x[0] for x in w] or sorted(g) != sorted(w):
                        rep.violation({'kind': 'get_sorted', 'query': q, 'sortby': sortby}, {'got': g, 'want': w}, {'helper': 'sorted', 'keys': [list(k) for k in ks], 'query': q, 'sortby': sortby})
                    if sort_stats(want, sortby) != g and sorted(sort_stats(want, sortby)) != sorted(g):
                        rep.violation({'kind': 'sort_stats', 'sortby': sortby}, {'got': sort_stats(want, sortby), 'want': g})
            types = get_list_of_types(stats)
            if sorted(types) != sorted({k.type for k in ks}) or len(types) != len(set(types)):
                rep.violation({'kind': 'get_list_of_types'}, {'got': types})
    # ordering over a signed alphabet: keys below, at and above zero (runs that start at a negative time, the -1
    # placeholders DefaultHooks writes for level / iter / sweep next to real values 0, 1, ...), every ordered selection
    # of <= nsel values, i.e. every insertion order of every subset
    signed = {'time': [-0.5, -0.25, 0.0, 0.25, 10.0], 'iter': [-1, 0, 1, 2, 10], 'level': [-1, 0, 1, 2, 10], 'process': [-1, 0, 1, 2, 10], 'sweep': [-1, 0, 1, 2, 10], 'num_restarts': [-1, 0, 1, 2, 10]}
    nsel = 5 if tier == 'thorough' else 3
    nsort = 0
    base_key = dict(process=0, process_sweeper=0, time=0.0, level=0, iter=0, sweep=0, type='a', num_restarts=0)
    for field, vals in signed.items():
        for r in range(1, nsel + 1):
            for sel in itertools.permutations(vals, r):
                stats = {Entry(**dict(base_key, **{field: v})): float(i) for i, v in enumerate(sel)}
                want = sorted([(v, float(i)) for i, v in enumerate(sel)])
                nsort += 1
                for name, got in (('get_sorted', get_sorted(stats, sortby=field)), ('sort_stats', sort_stats(stats, field)), ('get_sorted+filter', get_sorted(stats, type='a', sortby=field))):
                    if list(got) != want:
                        rep.violation({'kind': 'not_ascending', 'helper': name, 'sortby': field}, {'keys_in_insertion_order': list(sel), 'got': [list(x) for x in got], 'want': [list(x) for x in want]}, {'helper': 'signed', 'field': field, 'sel': list(sel)})
    rep.coverage['helper_signed_orderings'] = nsort
    rep.coverage['helper_evaluations'] = n
    rep.coverage['helper_nontrivial_filters'] = nontrivial


def run(rep, tier):
    rep.assumptions += [
        'ground truth = independent recorder hook (time, slot, iteration, restart flag, restarts_in_a_row, dt, uend bits, eval_f calls counted by the problem itself) at pre_step/post_step',
        'hooks under test: Default, LogRestarts, LogEmbeddedErrorEstimate (auto), ' + ', '.join(h.rsplit('.', 1)[1] for h in HOOKS),
    ]
    plan = []
    base_ball = [c for c in c09.ball(1) if c['limiter'] in ('none', 'rel_min_slope') and c['tend'] != 'inside_first']
    if tier == 'quick':
        plan.append(('estimate scripts <=2 deviations (4-letter alphabet), ball radius 1', [c09.to_cfg(c, est_n=4, hook_classes=HOOKS, post_checks=POST) for c in base_ball], 2))
        plan.append(('direct restart requests (unchanged dt), P=2, <=3', [c09.cfg(P=2, adaptive=None, restart_script=True, hook_classes=HOOKS, post_checks=POST, restarting={'max_restarts': m, 'restart_from_first_step': ff, 'crash_after_max_restarts': False}) for m in (1, 2) for ff in (False, True)], 3))
        plan.append(('direct restart requests (unchanged dt), P=3, <=2', [c09.cfg(P=3, adaptive=None, restart_script=True, hook_classes=HOOKS, post_checks=POST, restarting={'max_restarts': m, 'restart_from_first_step': ff, 'crash_after_max_restarts': False}) for m in (1, 2) for ff in (False, True)], 2))
        plan.append(('convergence patterns, P<=3, K<=2, L<=2 incl. partially filled last block', [block.default_cfg(P=P, K=K, L=L, predict='pfasst_burnin' if L > 1 else None, Tend=0.125 * (P + 1), hook_classes=HOOKS, post_checks=POST, checks=('grammar',), max_blocks=3) for P in (1, 2, 3) for K in (1, 2) for L in (1, 2)], None))
        plan.append(('the same, run started at a negative time with a step boundary exactly at 0', [block.default_cfg(P=P, K=1, L=L, predict='pfasst_burnin' if L > 1 else None, t0=-0.25, Tend=-0.25 + 0.125 * (P + 1), hook_classes=HOOKS, post_checks=POST, checks=('grammar',), max_blocks=3) for P in (1, 2, 3) for L in (1, 2)], None))
        plan.append(('runs that end at a negative time, and a second (shorter) run() on the same controller', [block.default_cfg(P=P, K=1, L=1, t0=-0.75, Tend=-0.75 + 0.125 * (P + 1), hook_classes=HOOKS, post_checks=POST, checks=('grammar',), max_blocks=3) for P in (1, 2, 3)] + [block.default_cfg(P=P, K=1, L=1, Tend=0.125 * (2 * P), second_run=0.125, hook_classes=HOOKS, post_checks=POST, checks=('grammar',), max_blocks=3) for P in (1, 2)], None))
    else:
        plan.append(('estimate scripts <=2 deviations (4-letter alphabet), ball radius 1 incl P=4', [c09.to_cfg(c, est_n=4, hook_classes=HOOKS, post_checks=POST) for c in c09.ball(1, Ps=(1, 2, 3, 4)) if c['tend'] != 'inside_first'], 2))
        plan.append(('estimate scripts <=2 deviations (all six letters), base with P in 2..3', [c09.to_cfg(dict(c09.ball(0)[0], P=P), hook_classes=HOOKS, post_checks=POST) for P in (2, 3)], 2))
        plan.append(('estimate scripts <=3 deviations (4-letter alphabet), base', [c09.to_cfg(c, est_n=4, hook_classes=HOOKS, post_checks=POST) for c in c09.ball(0)], 3))
        plan.append(('direct restart requests (unchanged dt), P in 2..3, <=4', [c09.cfg(P=P, adaptive=None, restart_script=True, hook_classes=HOOKS, post_checks=POST, restarting={'max_restarts': m, 'restart_from_first_step': ff, 'crash_after_max_restarts': False}) for P in (2, 3) for m in (1, 2, 3) for ff in (False, True)], 4))
        plan.append(('direct restart requests (unchanged dt), P=4, <=3', [c09.cfg(P=4, adaptive=None, restart_script=True, hook_classes=HOOKS, post_checks=POST, restarting={'max_restarts': m, 'restart_from_first_step': ff, 'crash_after_max_restarts': False}) for m in (1, 2) for ff in (False, True)], 3))
        plan.append(('convergence patterns, P<=3, K<=3, L<=3 incl. partially filled last block', [block.default_cfg(P=P, K=K, L=L, predict='pfasst_burnin' if L > 1 else None, Tend=0.125 * (P + 1), hook_classes=HOOKS, post_checks=POST, checks=('grammar',), max_blocks=3) for P in (1, 2, 3) for K in (1, 2, 3) for L in (1, 2, 3)], None))
        plan.append(('the same, run started at a negative time with a step boundary exactly at 0', [block.default_cfg(P=P, K=K, L=L, predict='pfasst_burnin' if L > 1 else None, t0=-0.25, Tend=-0.25 + 0.125 * (P + 1), hook_classes=HOOKS, post_checks=POST, checks=('grammar',), max_blocks=3) for P in (1, 2, 3) for K in (1, 2) for L in (1, 2)], None))
    bounds = []
    for label, vs, bound in plan:
        res = _e1.explore_variants(rep, make, vs, bound=bound, label=label)
        bounds.append({'space': label, 'variants': len(vs), 'executions': sum(st.executions for _, st in res), 'deviation_bound': bound, 'capped': any(st.capped for _, st in res)})
    _helpers(rep, tier)
    rep.coverage['bounds_completed'] = bounds
    rep.coverage['exhaustive'] = not any(b['capped'] for b in bounds)
    rep.coverage['rule'] = 'part A: every environment script within the deviation bound per configuration; part B: every statistics dictionary with <= N entries over a 2-valued key alphabet x every filter query x every sort key; every ordered selection of <= 3 (thorough 5) keys from a 5-valued signed alphabet (negative, zero, positive) per sort field'


def replay(rep, case):
    if 'helper' in case:
        _helpers(rep, 'thorough')
        return
    case['cfg']['debug'] = True
    _e1.replay_case(rep, make, case)
