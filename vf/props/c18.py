"""C18 — finite-difference stencils and matrices are exact to their stated order.

Technique: bounded exhaustive enumeration (engine E2).  The alphabet is the lattice
    derivative x order x layout (named or user offset set) x grid size x boundary kind per side x boundary treatment
    per side x Neumann closure order x interval (-> dx) x dimension,
every member is built with the real `get_finite_difference_stencil` / `get_finite_difference_matrix` /
`get_1d_grid`, and judged by the exact-arithmetic reference model `vf.oracle.fd`:

* stencil weights: converted exactly to Fractions, all moment conditions sum_i w_i s_i**j = j![j==d], j < exactness
  degree, are evaluated without rounding;
* matrices, row by row in index space on the monomial basis ((x-x_r)/dx)**k (integers (j-r)**k), including the
  boundary vector through its unit responses (the map data -> b is linear; a generic pair of data checks that) —
  this decides the row for every polynomial of the degree; interior and periodic rows additionally must have no
  entry outside the (wrapped) stencil columns, which together with n moment conditions pins the n weights;
* N-D matrices against the Kronecker sum (built by index arithmetic) of the 1D matrix, N-D boundary vector against the
  Kronecker sum of the 1D one (same scalar datum on every face) and on the constant function;
* grids against exact rational spacing.

VERIF_SEED only permutes the work order and picks the generic boundary data from a fixed pool.
"""

import itertools

import numpy as np
import scipy.sparse as sp

from pySDC.helpers.problem_helper import (
    get_1d_grid,
    get_finite_difference_matrix,
    get_finite_difference_stencil,
)
from vf import common
from vf.oracle import fd

LEVEL = 'exploration'

EPS = fd.EPS
# moment defects: the weights come from LU solves with partial pivoting of n x n Taylor systems (n <= 17 incl. the
# `reduce` closures); the defect of equation j is bounded by gamma_3n * growth * (|L||U||w|)_j, which is row-wise
# ~ sum_i |a_ji w_i| for well scaled rows and norm-wise ~ amax * sum_i |w_i| in general.  The scale used is the sum
# of both (in moment form: sum_i |w_i s_i**j| + j! * amax * sum_i |w_i|, amax from vf.oracle.fd.taylor_amax); C_MOM
# stands for gamma_3n * growth and also covers the float evaluation of the row sums and the scaling by
# dx**derivative.
C_MOM = 1.0e3
# pure re-association / scaling differences (Kronecker sums, linearity of b in the data, grids)
C_ULP = 32.0

INTERVALS = [(0.0, 1.0), (-3.0, 5.0), (2.0, 2.5)]
DATA_POOL = [(1.5, -2.0), (-2.0, 1.5), (0.75, 3.0), (-1.25, -0.5), (2.5, 0.375)]
BC_KIND = {'dirichlet': 'dirichlet', 'dirichlet-zero': 'dirichlet', 'neumann': 'neumann', 'neumann-zero': 'neumann'}


# =========================================================================================================
# calling the code under test
# =========================================================================================================
def _stencil_args(case):
    if 'steps' in case:
        st = [int(v) for v in case['steps']]
        form = case.get('form', 'array')
        if form == 'reversed':
            st = st[::-1]
        elif form == 'rotated':
            st = st[1:] + st[:1]
        return {'steps': st if form == 'list' else np.array(st)}
    return {'order': case['order'], 'stencil_type': case['type']}


def _impl_stencil(case):
    return get_finite_difference_stencil(derivative=case['derivative'], **_stencil_args(case))


def _is_user(case):
    return 'steps' in case


def _exactness(case, n):
    """Degree bound claimed for the stencil itself: n user offsets -> n; named -> derivative + order."""
    return n if _is_user(case) else case['derivative'] + case['order']


def _res(evals=0, ratio=0.0, outcome='ok', viol=None, extra=None):
    return {'evals': evals, 'ratio': float(ratio), 'outcome': outcome, 'viol': viol, 'extra': extra or {}}


def _viol(symptom, **detail):
    return {'symptom': symptom, 'detail': detail}


# =========================================================================================================
# sub-check S: stencils
# =========================================================================================================
def check_stencil(case):
    der = case['derivative']
    claimed = _is_user(case) or case['type'] != 'center' or fd.center_claimed(der, case['order'])
    try:
        coeff, steps = _impl_stencil(case)
    except Exception as e:  # noqa
        if not claimed:
            return _res(1, 0.0, 'unclaimed_raises')
        return _res(1, np.inf, 'raises', _viol('raises', exception=type(e).__name__, message=str(e)[:200]))
    if not claimed:
        return _res(1, 0.0, 'unclaimed_returns')
    steps_i = [int(round(float(s))) for s in steps]
    if any(float(s) != float(si) for s, si in zip(steps, steps_i)) or len(coeff) != len(steps):
        return _res(1, np.inf, 'bad', _viol('offsets_not_integer', steps=list(map(float, steps))))
    if any(b <= a for a, b in zip(steps_i, steps_i[1:])):
        return _res(1, np.inf, 'bad', _viol('offsets_not_sorted', steps=steps_i))
    if _is_user(case):
        if steps_i != sorted(int(v) for v in case['steps']):
            return _res(1, np.inf, 'bad', _viol('offsets_changed', steps=steps_i))
    elif not fd.layout_ok(case['type'], steps_i):
        return _res(1, np.inf, 'bad', _viol('layout', steps=steps_i))
    if not np.all(np.isfinite(coeff)):
        return _res(1, np.inf, 'bad', _viol('nonfinite_weights', weights=list(map(float, coeff))))
    upto = _exactness(case, len(steps_i))
    mom = fd.moment_residuals(coeff, steps_i, der, upto)
    worst, at = 0.0, None
    for j, (res, scale) in enumerate(mom):
        ratio = res / (C_MOM * EPS * scale) if scale > 0 else (0.0 if res == 0 else np.inf)
        if ratio > worst:
            worst, at = ratio, j
    if worst > 1.0:
        W = fd.exact_weights(steps_i, der) if len(steps_i) > der else None
        return _res(
            len(mom),
            worst,
            'bad',
            _viol(
                'moment',
                power=at,
                defect=mom[at][0],
                scale=mom[at][1],
                weights=list(map(float, coeff)),
                offsets=steps_i,
                exact_weights=[str(w) for w in W] if W else None,
            ),
        )
    return _res(len(mom), worst, 'ok', extra={'n': len(steps_i)})


# =========================================================================================================
# helpers for the matrix sub-checks
# =========================================================================================================
def _offsets_for(case):
    """Integer offsets of the stencil the matrix is said to apply.  Named layouts: read from the stencil routine
    (data the property calls 'that stencil'; layout and weights of it are judged in sub-check S)."""
    if _is_user(case):
        return sorted(int(v) for v in case['steps'])
    _, steps = get_finite_difference_stencil(derivative=case['derivative'], order=case['order'], stencil_type=case['type'])
    return [int(s) for s in steps]


def _matrix_call(case, dim, dx, bc, bc_params):
    kw = dict(derivative=case['derivative'], order=case.get('order', 2), dx=dx, size=case['size'], dim=dim, bc=bc)
    kw.update(_stencil_args(case) if _is_user(case) else {'stencil_type': case['type']})
    if bc_params is not None:
        kw['bc_params'] = bc_params
    import copy

    before = copy.deepcopy(kw)
    A, b = get_finite_difference_matrix(**kw)
    # the same request made again after another request (another derivative on the same grid) must give the same answer
    # bit for bit (the routine writes the merged defaults back into the caller's bc_params list; the property does not
    # forbid that, so every call gets its own copy of the request)
    try:
        get_finite_difference_matrix(**dict(copy.deepcopy(before), derivative=1 if case['derivative'] != 1 else 2))
    except Exception:  # noqa: BLE001  (judged where that request is the case)
        pass
    A2, b2 = get_finite_difference_matrix(**copy.deepcopy(before))
    if A2.shape != A.shape or (A2 != A).nnz != 0 or not np.array_equal(np.asarray(b2, dtype=float), np.asarray(b, dtype=float)):
        raise ArgumentsModified('the same request made a second time (after another request) returned another operator')
    return A, np.asarray(b, dtype=float)


class ArgumentsModified(Exception):
    pass


def _same_args(a, b):
    if type(a) is not type(b):
        return False
    if isinstance(a, dict):
        return a.keys() == b.keys() and all(_same_args(a[k], b[k]) for k in a)
    if isinstance(a, (list, tuple)):
        return len(a) == len(b) and all(_same_args(x, y) for x, y in zip(a, b))
    if isinstance(a, np.ndarray):
        return a.shape == b.shape and bool(np.all(a == b))
    return a == b


def _kron_compare(A_nd, A1_dense, dim):
    """max over entries of |A_nd - kronsum(A1)| / (C_ULP eps kronsum(|A1|)); entries outside the reference support must
    be exactly zero."""
    n = A1_dense.shape[0] ** dim
    r, c, v = fd.kron_sum_triplets(A1_dense, dim)
    ref = sp.coo_matrix((v, (r, c)), shape=(n, n)).tocsr()
    aref = sp.coo_matrix((np.abs(v), (r, c)), shape=(n, n)).tocsr()
    if A_nd.shape != (n, n):
        return np.inf, {'shape': list(A_nd.shape)}
    diff = abs(sp.csr_matrix(A_nd) - ref).tocoo()
    worst, where = 0.0, None
    if diff.nnz:
        tol = np.asarray(aref[diff.row, diff.col]).ravel() * C_ULP * EPS
        with np.errstate(divide='ignore', invalid='ignore'):
            ratio = np.where(diff.data == 0, 0.0, np.where(tol > 0, diff.data / np.where(tol > 0, tol, 1.0), np.inf))
        k = int(np.argmax(ratio))
        worst = float(ratio[k])
        where = {'row': int(diff.row[k]), 'col': int(diff.col[k]), 'abs_diff': float(diff.data[k])}
    return worst, where


def _support_violation(A1, rows, offsets, size, periodic):
    for r in rows:
        allowed = {(r + s) % size if periodic else r + s for s in offsets}
        bad = [int(j) for j in np.nonzero(A1[r])[0] if int(j) not in allowed]
        if bad:
            return {'row': int(r), 'columns_outside_stencil': bad, 'row_values': A1[r].tolist()}
    return None


# =========================================================================================================
# sub-check P: periodic matrices
# =========================================================================================================
def check_periodic(case):
    der, size, dim = case['derivative'], case['size'], case.get('dim', 1)
    left, right = case['interval']
    offsets = _offsets_for(case)
    dx, _ = get_1d_grid(size, 'periodic', left, right)
    try:
        A, b = _matrix_call(case, 1, dx, 'periodic', None)
        And = _matrix_call(case, dim, dx, 'periodic', None) if dim > 1 else None
    except Exception as e:  # noqa
        return _res(1, np.inf, 'raises', _viol('raises', exception=type(e).__name__, message=str(e)[:200]))
    evals = 0
    A1 = A.toarray() * dx**der
    if A1.shape != (size, size) or b.shape != (size,):
        return _res(1, np.inf, 'bad', _viol('shape', A=list(A1.shape), b=list(b.shape)))
    if np.any(b != 0):
        return _res(1, np.inf, 'bad', _viol('periodic_b_nonzero', b=b.tolist()))
    sv = _support_violation(A1, range(size), offsets, size, True)
    if sv:
        R, _ = fd.periodic_reference(offsets, der, size)
        sv['expected_row0'] = R[0].tolist()
        sv['observed_row0'] = A1[0].tolist()
        return _res(size, np.inf, 'bad', _viol('wrong_matrix', **sv))
    D = fd.wrapped_offsets(offsets, size)
    deg = _exactness(case, len(offsets))
    floor = fd.taylor_amax(offsets) * np.abs(A1).sum(axis=1)
    worst, at = 0.0, None
    for k in range(deg):
        terms = A1 * (D**k if k else np.ones_like(D))
        tgt = float(fd.factorial(k)) if k == der else 0.0
        res = np.abs(terms.sum(axis=1) - tgt)
        scale = np.abs(terms).sum(axis=1) + tgt + fd.factorial(k) * floor
        with np.errstate(divide='ignore', invalid='ignore'):
            ratio = np.where(res == 0, 0.0, res / (C_MOM * EPS * np.where(scale > 0, scale, np.nan)))
        ratio = np.where(np.isnan(ratio), np.inf, ratio)
        evals += size
        r = int(np.argmax(ratio))
        if ratio[r] > worst:
            worst, at = float(ratio[r]), {'row': r, 'power': k, 'defect': float(res[r]), 'scale': float(scale[r])}
    if worst > 1.0:
        R, _ = fd.periodic_reference(offsets, der, size)
        at.update(expected_row=R[at['row']].tolist(), observed_row=A1[at['row']].tolist())
        return _res(evals, worst, 'bad', _viol('wrong_matrix', **at))
    if dim > 1:
        And, bnd = And
        if bnd.shape != (size**dim,) or np.any(bnd != 0):
            return _res(evals, np.inf, 'bad', _viol('periodic_b_nonzero', dim=dim))
        kr, where = _kron_compare(And, A.toarray(), dim)
        evals += size**dim
        worst = max(worst, kr)
        if kr > 1.0:
            return _res(evals, kr, 'bad', _viol('kronecker', **(where or {})))
    return _res(evals, worst, 'ok', extra={'n': len(offsets)})


# =========================================================================================================
# sub-check B: Dirichlet / Neumann / mixed, both treatments
# =========================================================================================================
def _bc_params(case, vl, vr):
    out = []
    for s, v in ((0, vl), (1, vr)):
        p = {'val': v, 'reduce': bool(case['reduce'][s])}
        if case.get('norder') and case['norder'][s] is not None:
            p['neumann_bc_order'] = int(case['norder'][s])
        out.append(p)
    return out


def _bc_params_sparse(case, vl, vr):
    """the same boundary data with every key that has its documented default left out (val = 0, reduce = False,
    neumann_bc_order = order): another spelling of the same request"""
    order = case.get('order', 2)
    out = []
    for p in _bc_params(case, vl, vr):
        q = dict(p)
        if q.get('val') == 0.0:
            q.pop('val')
        if q.get('reduce') is False:
            q.pop('reduce')
        if q.get('neumann_bc_order') == order:
            q.pop('neumann_bc_order')
        out.append(q)
    return out


def check_bounded(case):
    der, order, size, dim = case['derivative'], case.get('order', 2), case['size'], case.get('dim', 1)
    left, right = case['interval']
    names = list(case['bc'])
    kinds = [BC_KIND[n] for n in names]
    reduce = [bool(v) for v in case['reduce']]
    nord = [(case['norder'][s] if case.get('norder') and case['norder'][s] is not None else order) for s in (0, 1)]
    offsets = _offsets_for(case)
    vl, vr = case.get('vals', DATA_POOL[0])
    dx, _ = get_1d_grid(size, names[0] if names[0] == names[1] else 'dirichlet', left, right)
    bc_arg = names[0] if (case.get('bcform') == 'str' and names[0] == names[1]) else tuple(names)
    fits = fd.closure_fits(offsets, der, order, size, kinds, reduce, nord)

    def call(a, c, d=1):
        return _matrix_call(case, d, dx, bc_arg, _bc_params(case, a, c))

    if not fits:
        try:
            call(vl, vr)
            return _res(1, 0.0, 'nofit_returns')
        except Exception:  # noqa
            return _res(1, 0.0, 'nofit_raises')
    try:
        A0, b0 = call(0.0, 0.0)
        AL, bL = call(1.0, 0.0)
        AR, bR = call(0.0, 1.0)
        AG, bG = call(vl, vr)
        # the sparse spelling of the same per-side data must give the same operator and boundary vector, bit for bit
        for (a, c), (Aref, bref) in (((0.0, 0.0), (A0, b0)), ((1.0, 0.0), (AL, bL)), ((0.0, 1.0), (AR, bR)), ((vl, vr), (AG, bG))):
            As, bs = _matrix_call(case, 1, dx, bc_arg, _bc_params_sparse(case, a, c))
            if As.shape != Aref.shape or (As != Aref).nnz != 0 or bs.shape != bref.shape or np.any(bs != bref):
                return _res(5, np.inf, 'bad', _viol('per_side_parameters_depend_on_spelling', data=[a, c], full=_bc_params(case, a, c), sparse=_bc_params_sparse(case, a, c)))
        if case.get('default_params'):
            # zero-data aliases called without bc_params at all (shifted treatment, default Neumann order)
            AD, bD = _matrix_call(case, 1, dx, bc_arg, None)
    except Exception as e:  # noqa
        return _res(1, np.inf, 'raises', _viol('raises', exception=type(e).__name__, message=str(e)[:200]))
    dxp = dx**der
    A1 = A0.toarray() * dxp
    if A1.shape != (size, size) or any(v.shape != (size,) for v in (b0, bL, bR, bG)):
        return _res(1, np.inf, 'bad', _viol('shape', A=list(A1.shape)))
    if np.any(b0 != 0):
        return _res(1, np.inf, 'bad', _viol('b_nonzero_for_zero_data', b=b0.tolist()))
    worst = 0.0
    evals = 0
    # A does not depend on the data; b is linear in it
    aA = np.abs(A0.toarray())
    for Ax in (AL, AR, AG) + ((AD,) if case.get('default_params') else ()):
        d = np.abs(Ax.toarray() - A0.toarray())
        if np.any(d > C_ULP * EPS * aA):
            return _res(4, np.inf, 'bad', _viol('matrix_depends_on_data'))
    if case.get('default_params') and np.any(bD != 0):
        return _res(4, np.inf, 'bad', _viol('b_nonzero_for_zero_data', b=bD.tolist()))
    lin = np.abs(bG - (vl * bL + vr * bR))
    lin_scale = np.abs(vl * bL) + np.abs(vr * bR)
    if np.any(lin > C_ULP * EPS * lin_scale):
        r = int(np.argmax(lin - C_ULP * EPS * lin_scale))
        return _res(4, np.inf, 'bad', _viol('b_not_linear_in_data', row=r, b=float(bG[r]), bL=float(bL[r]), bR=float(bR[r]), vals=[vl, vr]))
    with np.errstate(divide='ignore', invalid='ignore'):
        q = np.where(lin == 0, 0.0, lin / (C_ULP * EPS * np.where(lin_scale > 0, lin_scale, 1.0)))
    worst = max(worst, float(q.max()))
    # interior rows: the stencil and nothing else, no boundary contribution
    interior = fd.interior_rows(offsets, size)
    sv = _support_violation(A1, interior, offsets, size, False)
    if sv:
        return _res(size, np.inf, 'bad', _viol('interior_row_not_the_stencil', **sv))
    if any(bL[r] != 0 or bR[r] != 0 for r in interior):
        return _res(size, np.inf, 'bad', _viol('boundary_vector_touches_interior_row'))
    deg, side = fd.closure_degrees(offsets, _exactness(case, len(offsets)), der, order, size, kinds, reduce, nord)
    (res, scale, r, k), n_eval = fd.row_moments(A1, bL * dxp, bR * dxp, dxp, der, range(size), deg, kinds, 1.0 / dx)
    evals += n_eval
    ratio = res / (C_MOM * EPS * scale) if scale > 0 else (0.0 if res == 0 else np.inf)
    worst = max(worst, ratio)
    if ratio > 1.0:
        return _res(
            evals,
            ratio,
            'bad',
            _viol(
                'row_not_exact',
                row=int(r),
                closure_side=side[r],
                power=int(k),
                required_degree_below=int(deg[r]),
                defect=res,
                scale=scale,
                row_values=A1[r].tolist(),
                bL=float(bL[r] * dxp),
                bR=float(bR[r] * dxp),
            ),
        )
    n_closure = sum(1 for s in side if s is not None)
    first_order_reduce = bool(der >= 3 and any(reduce))
    if dim > 1:
        try:
            And, bnd = call(vl, vr, dim)
        except Exception as e:  # noqa
            return _res(evals, np.inf, 'raises', _viol('raises', exception=type(e).__name__, message=str(e)[:200], dim=dim))
        kr, where = _kron_compare(And, AG.toarray(), dim)
        evals += size**dim
        worst = max(worst, kr)
        if kr > 1.0:
            return _res(evals, kr, 'bad', _viol('kronecker', **(where or {})))
        bref = fd.kron_sum_vector(bG, dim)
        bscale = fd.kron_sum_vector(np.abs(bG), dim)
        db = np.abs(bnd - bref) if bnd.shape == bref.shape else None
        if db is None or np.any(db > C_ULP * EPS * bscale):
            det = {'dim': dim, 'vals': [vl, vr]}
            if db is not None:
                i = int(np.argmax(db))
                det.update(entry=i, observed=float(bnd[i]), expected=float(bref[i]), entries_wrong=int(np.sum(db > C_ULP * EPS * bscale)))
                if kinds == ['dirichlet', 'dirichlet']:
                    # simplest witness: the constant function c with datum c on both sides must have derivative 0
                    Ac, bc_ = call(1.0, 1.0, dim)
                    defect = Ac @ np.ones(size**dim) + bc_
                    det['constant_function_defect_max'] = float(np.max(np.abs(defect)) * dxp)
            return _res(evals, np.inf, 'bad', _viol('nd_boundary_vector', **det))
    return _res(evals, worst, 'ok', extra={'n': len(offsets), 'closure_rows': n_closure, 'first_order_reduce': first_order_reduce})


# =========================================================================================================
# sub-check G: grids
# =========================================================================================================
def check_grid(case):
    size, bc = case['size'], case['bc']
    left, right = case['interval']
    try:
        dx, x = get_1d_grid(size, bc, left, right)
    except Exception as e:  # noqa
        return _res(1, np.inf, 'raises', _viol('raises', exception=type(e).__name__, message=str(e)[:200]))
    dxr, xr = fd.grid_ref(size, bc == 'periodic', left, right)
    x = np.asarray(x, dtype=float)
    if x.shape != (size,):
        return _res(1, np.inf, 'bad', _viol('grid_shape', shape=list(x.shape)))
    scale = max(abs(left), abs(right)) + (right - left)
    err = max([abs(float(fd.Fraction(float(a)) - b)) for a, b in zip(x, xr)] + [abs(float(fd.Fraction(float(dx)) - dxr))])
    ratio = err / (C_ULP * EPS * scale)
    if ratio > 1.0:
        return _res(size + 1, ratio, 'bad', _viol('grid', dx=float(dx), dx_expected=float(dxr), x=x.tolist()[:6]))
    return _res(size + 1, ratio, 'ok')


# =========================================================================================================
# sub-check F: the consumer GenericNDimFinDiff (matrix = coeff * helper matrix; eval_f applies it)
# =========================================================================================================
def check_problem(case):
    from pySDC.implementations.problem_classes.generic_ND_FD import GenericNDimFinDiff

    der, order, typ, bc = case['derivative'], case['order'], case['type'], case['bc']
    nv, dim, coeff = case['nvars'], case['dim'], case['coeff']
    try:
        P = GenericNDimFinDiff(nvars=(nv,) * dim if dim > 1 else nv, coeff=coeff, derivative=der, freq=2, stencil_type=typ, order=order, bc=bc)
    except Exception as e:  # noqa
        return _res(1, np.inf, 'raises', _viol('raises', exception=type(e).__name__, message=str(e)[:200]))
    offsets = _offsets_for(case)
    periodic = bc == 'periodic'
    dxr, xr = fd.grid_ref(nv, periodic, 0.0, 1.0)
    dx = float(dxr)
    if np.max(np.abs(np.asarray(P.xvalues) - np.array([float(v) for v in xr]))) > C_ULP * EPS:
        return _res(1, np.inf, 'bad', _viol('problem_grid'))
    A = sp.csr_matrix(P.A)
    n = nv**dim
    if A.shape != (n, n):
        return _res(1, np.inf, 'bad', _viol('shape', A=list(A.shape)))
    # 1D factor recovered from the first block row/column structure: rows of the last axis with the other indices 0
    # -> compare the whole N-D matrix with the Kronecker sum of the reference 1D operator on the judged rows
    W = [float(w) for w in fd.exact_weights(offsets, der)]
    R1 = np.zeros((nv, nv))
    M1 = np.zeros((nv, nv))
    judged = range(nv) if periodic else fd.interior_rows(offsets, nv)
    for r in judged:
        for s, w in zip(offsets, W):
            R1[r, (r + s) % nv if periodic else r + s] += w
            M1[r, (r + s) % nv if periodic else r + s] = 1.0
    ref = fd.kron_sum_dense(R1, dim) * (coeff / dx**der)
    # tolerance scale: the largest weight on every stencil position (the Skeel figure is relative to max|W|)
    aref = fd.kron_sum_dense(M1 * max(abs(w) for w in W), dim) * abs(coeff / dx**der)
    # rows of the N-D matrix all of whose 1D factors are judged rows
    idx = np.array(list(itertools.product(list(judged), repeat=dim)))
    rows = idx @ (nv ** np.arange(dim - 1, -1, -1))
    # forward-error scale of the float weights: condition of the Taylor system (Skeel), computed exactly
    skeel = _skeel(offsets, der)
    Ad = A.toarray()
    err = np.abs(Ad[rows] - ref[rows])
    tol = C_MOM * EPS * skeel * np.maximum(aref[rows], 0)
    bad = err > np.where(tol > 0, tol, 0)
    if np.any(bad):
        i, j = np.argwhere(bad)[0]
        return _res(len(rows), np.inf, 'bad', _viol('problem_matrix', row=int(rows[i]), col=int(j), observed=float(Ad[rows][i, j]), expected=float(ref[rows][i, j])))
    with np.errstate(divide='ignore', invalid='ignore'):
        q = np.where(err == 0, 0.0, err / np.where(tol > 0, tol, 1.0))
    worst = float(q.max()) if q.size else 0.0
    # eval_f on every basis vector is the matrix column
    evals = len(rows)
    for k in range(n):
        u = P.u_init
        u[:] = 0.0
        u.flat[k] = 1.0
        f = np.asarray(P.eval_f(u, 0.0)).reshape(-1)
        col = Ad[:, k]
        if np.any(np.abs(f - col) > C_ULP * EPS * np.abs(col)):
            return _res(evals, np.inf, 'bad', _viol('eval_f_not_matrix_column', column=k))
        evals += 1
    return _res(evals, worst, 'ok', extra={'n': len(offsets)})


_SKEEL = {}


def _skeel(offsets, der):
    """max_i (|T^-1| |T| |W|)_i / max|W| for the Taylor system T of the offsets, evaluated exactly: how much the
    forward error of a backward-stable solve may exceed eps relative to the largest weight."""
    key = (tuple(offsets), der)
    if key not in _SKEEL:
        n = len(offsets)
        W = fd.exact_weights(offsets, der)
        cols = []
        for i in range(n):
            # column i of T^-1 = weights solving T w = e_i  (rows j of T: s**j / j!)
            M = [[fd.Fraction(int(s)) ** j / fd.factorial(j) for s in offsets] for j in range(n)]
            cols.append(_solve(M, [fd.Fraction(1 if j == i else 0) for j in range(n)]))
        T = [[abs(fd.Fraction(int(s)) ** j / fd.factorial(j)) for s in offsets] for j in range(n)]
        TW = [sum(T[j][i] * abs(W[i]) for i in range(n)) for j in range(n)]
        E = [sum(abs(cols[j][i]) * TW[j] for j in range(n)) for i in range(n)]
        _SKEEL[key] = float(max(E) / max(abs(w) for w in W))
    return _SKEEL[key]


def _solve(M, rhs):
    n = len(rhs)
    M = [row[:] + [rhs[i]] for i, row in enumerate(M)]
    for c in range(n):
        p = next(r for r in range(c, n) if M[r][c] != 0)
        M[c], M[p] = M[p], M[c]
        piv = M[c][c]
        M[c] = [v / piv for v in M[c]]
        for r in range(n):
            if r != c and M[r][c] != 0:
                f = M[r][c]
                M[r] = [a - f * b for a, b in zip(M[r], M[c])]
    return [M[r][n] for r in range(n)]


# =========================================================================================================
# dispatch, grouping, reporting
# =========================================================================================================
CHECKS = {'stencil': check_stencil, 'periodic': check_periodic, 'bounded': check_bounded, 'grid': check_grid, 'problem': check_problem}


def check_case(case):
    return CHECKS[case['kind']](case)


def _work(case):
    r = check_case(case)
    return case, r


def _ident(case):
    """The case without seed-chosen generic data (identity of the configuration; used for signatures)."""
    return {k: v for k, v in case.items() if k != 'vals'}


def _complexity(case):
    offs = case.get('steps')
    n = len(offs) if offs is not None else case.get('derivative', 0) + case.get('order', 0)
    reach = max(abs(int(v)) for v in offs) if offs is not None else 0
    flags = sum(bool(v) for v in case.get('reduce', ())) + sum(v is not None for v in (case.get('norder') or ()))
    return (
        case.get('dim', 1),
        n,
        reach,
        case.get('size', 0),
        case.get('derivative', 0),
        flags,
        0 if case.get('interval') in (None, list(INTERVALS[0]), INTERVALS[0]) else 1,
        common.canon(_ident(case)),
    )


def _group(case, viol):
    """One group per distinct cause: sub-check, symptom, kind of stencil source, boundary kinds, treatment, dimension."""
    g = [case['kind'], viol['symptom'], 'user' if _is_user(case) else 'named']
    if viol['symptom'] == 'raises':
        g.append(viol['detail'].get('exception'))
    if viol['symptom'] == 'nd_boundary_vector':
        return common.canon(g[:2])
    if case['kind'] == 'bounded':
        g += [tuple(BC_KIND[n] for n in case['bc']), tuple(bool(v) for v in case['reduce']), case.get('dim', 1) > 1]
        if viol['symptom'] == 'row_not_exact':
            g.append(viol['detail'].get('closure_side') is None)
    if case['kind'] == 'periodic':
        g.append(case.get('dim', 1) > 1 and viol['symptom'] == 'kronecker')
    return common.canon(g)


def _signature(case, viol):
    sig = {'check': case['kind'], 'symptom': viol['symptom']}
    if viol['symptom'] == 'raises':
        sig['exception'] = viol['detail'].get('exception')
    sig.update({k: v for k, v in _ident(case).items() if k != 'kind'})
    return sig


# ---- the enumerated spaces ------------------------------------------------------------------------------
def _named(orders, types=fd.STENCIL_TYPES, ders=(1, 2, 3, 4), claimed_only=True):
    out = []
    for d in ders:
        for o in orders:
            for t in types:
                if claimed_only and t == 'center' and not fd.center_claimed(d, o):
                    continue
                out.append({'derivative': d, 'order': o, 'type': t})
    return out


def _named_width(st):
    d, o, t = st['derivative'], st['order'], st['type']
    return o + d - ((d + 1) % 2 if t == 'center' else 0)


def _user(radius, max_size, ders=(1, 2, 3, 4)):
    out = []
    for offs in fd.offset_sets(radius, max_size):
        for d in ders:
            if len(offs) > d:
                out.append({'derivative': d, 'steps': list(offs)})
    return out


def _width(st):
    """Stencil width = number of grid points spanned by the offsets together with the evaluation point (offset 0);
    from this size upwards every offset wraps around a periodic grid at most once."""
    if 'steps' in st:
        return max(max(st['steps']), 0) - min(min(st['steps']), 0) + 1
    return _named_width(st)


def build_space(tier):
    quick = tier == 'quick'
    cases = []
    # S: stencils
    for st in _named(range(1, 9), claimed_only=False):
        cases.append(dict(kind='stencil', **st))
    for st in _user(4 if quick else 5, 7 if quick else 8):
        cases.append(dict(kind='stencil', **st))
    for st in _user(2 if quick else 3, 5 if quick else 6):
        for form in ('list', 'reversed', 'rotated'):
            cases.append(dict(kind='stencil', form=form, **st))
    # P: periodic
    for st in _named(range(1, 9)):
        w = _width(st)
        for size in range(max(w, 2), max(w, 2) + 5):
            for iv in INTERVALS if (not quick or size == w) else INTERVALS[:1]:
                cases.append(dict(kind='periodic', size=size, interval=list(iv), dim=1, **st))
    for st in _user(3 if quick else 4, 5 if quick else 7):
        w = _width(st)
        for size in (range(w, w + 5) if not quick else (w, w + 1, w + 4)):
            for iv in INTERVALS[:1] if quick else INTERVALS[:2]:
                cases.append(dict(kind='periodic', size=size, interval=list(iv), dim=1, order=2, **st))
    for form in ('list', 'reversed'):
        for st in _user(2, 4):
            w = _width(st)
            cases.append(dict(kind='periodic', size=w + 1, interval=list(INTERVALS[1]), dim=1, order=2, form=form, **st))
    for dim, cap in ((2, 200 if quick else 400), (3, 600 if quick else 2200)):
        for st in _named((1, 2, 3, 4) if quick else range(1, 9)):
            w = max(_width(st), 2)
            for size in (w, w + 1):
                if size**dim <= cap:
                    cases.append(dict(kind='periodic', size=size, interval=list(INTERVALS[1]), dim=dim, **st))
        for st in _user(2, 4):
            w = _width(st)
            if (w + 1) ** dim <= cap:
                cases.append(dict(kind='periodic', size=w + 1, interval=list(INTERVALS[2]), dim=dim, order=2, **st))
    # B: bounded
    bcs = [('dirichlet', 'dirichlet'), ('neumann', 'neumann'), ('dirichlet', 'neumann'), ('neumann', 'dirichlet')]
    orders = (1, 2, 3, 4, 6) if quick else range(1, 9)
    for st in _named(orders):
        w = max(_width(st), 2)
        sizes = (w, w + 1, w + 4) if quick else tuple(range(w, w + 5))
        for bc in bcs:
            has_n = 'neumann' in bc
            for red in ((0, 0), (1, 1)) if quick else ((0, 0), (1, 1), (1, 0), (0, 1)):
                # explicit Neumann closure orders below, at and ABOVE the interior order (3 > order for order 1, 2; 5 for 3, 4)
                nords = [None] + ([(1, 1), (3, 3)] if has_n else []) + ([(2, 2), (4, 1), (5, 5), (5, 2)] if has_n and not quick else [])
                for no in nords:
                    for k, size in enumerate(sizes + ((2 * w,) if any(red) else ())):
                        ivs = INTERVALS if (not quick and k == 0) else [INTERVALS[(size + st['order']) % 3]]
                        for iv in ivs:
                            cases.append(dict(kind='bounded', size=size, interval=list(iv), dim=1, bc=list(bc), reduce=list(red), norder=list(no) if no else None, **st))
    # aliases '-zero', bc passed as one string, default bc_params
    for st in _named((2, 4) if quick else (1, 2, 3, 4, 6, 8), types=('center', 'upwind')):
        w = max(_width(st), 2)
        for bc in (('dirichlet-zero', 'dirichlet-zero'), ('neumann-zero', 'neumann-zero'), ('dirichlet-zero', 'neumann-zero'), ('dirichlet', 'dirichlet'), ('neumann', 'neumann')):
            cases.append(dict(kind='bounded', size=w + 2, interval=list(INTERVALS[1]), dim=1, bc=list(bc), reduce=[0, 0], norder=None, bcform='str', default_params=True, **st))
    # user offsets with bounded boundaries (closure of the given order)
    for st in _user(2 if quick else 3, 4 if quick else 5):
        w = _width(st)
        for o in (2, 4):
            for bc in bcs[:1] + bcs[2:3] if quick else bcs:
                for size in (max(w, o + st['derivative']), max(w, o + st['derivative']) + 2):
                    cases.append(dict(kind='bounded', size=size, interval=list(INTERVALS[size % 3]), dim=1, bc=list(bc), reduce=[0, 0], norder=None, order=o, **st))
    # N-D bounded
    for dim, cap in ((2, 150 if quick else 400), (3, 520 if quick else 2200)):
        for st in _named((1, 2, 4) if quick else (1, 2, 3, 4, 6)):
            w = max(_width(st), 2)
            for bc in bcs:
                for red in ((0, 0), (1, 1)):
                    for size in (w, w + 1):
                        if size**dim <= cap:
                            cases.append(dict(kind='bounded', size=size, interval=list(INTERVALS[(size + dim) % 3]), dim=dim, bc=list(bc), reduce=list(red), norder=None, **st))
    # G: grids
    for size in range(1, 65):
        for bc in ('periodic', 'dirichlet', 'neumann', 'dirichlet-zero', 'neumann-zero'):
            for iv in INTERVALS + [(0.1, 0.7)]:
                cases.append(dict(kind='grid', size=size, bc=bc, interval=list(iv)))
    # F: consumer class
    for dim, nvs in ((1, (8, 16)), (2, (8,)), (3, (4,) if quick else (4, 6))):
        for d in (1, 2):
            for o in (2, 4):
                for t in ('center', 'upwind', 'forward'):
                    for nv in nvs:
                        if nv >= o + d:
                            cases.append(dict(kind='problem', nvars=nv, dim=dim, derivative=d, order=o, type=t, bc='periodic', coeff=-0.75))
    for dim, nv in ((1, 15), (2, 7)):
        for d in (1, 2):
            for o in (2, 4):
                cases.append(dict(kind='problem', nvars=nv, dim=dim, derivative=d, order=o, type='center', bc='dirichlet-zero', coeff=2.5))
    return cases


def run(rep, tier):
    rep.assumptions += [
        'offsets of the named layouts are read from get_finite_difference_stencil (the property speaks of "that stencil"); their layout and weights are judged separately in exact arithmetic',
        'the 1D matrix returned for dim=1 with the same arguments is the data for the Kronecker-sum reference of dim=2,3 (it is itself judged row by row)',
        'uniform grid: row r is judged in index space on the monomials ((x-x_r)/dx)**k; dx comes from get_1d_grid, which is compared with exact rational spacing',
        'reduce treatment: a closure row at distance m from the boundary is held to the documented centred stencil of order 2m for derivative 1,2 and only to consistency (degree <= derivative) for derivative 3,4 where no centred stencil fits next to the boundary',
        'configurations whose closure stencil needs more unknowns than the grid has are counted (nofit_*), not judged',
        'cupy=True back end not reachable',
    ]
    cases = build_space(tier)
    rnd = common.rng('c18')
    for c in cases:
        if c['kind'] == 'bounded':
            c['vals'] = list(rnd.choice(DATA_POOL))
    rnd.shuffle(cases)
    results = common.pmap(_work, cases, chunksize=8)

    outcomes, per_kind, worst = {}, {}, {}
    distinct = set()
    evals = row_evals = 0
    best = {}
    samples = {}
    first_order_reduce = 0
    for case, r in results:
        k = case['kind']
        per_kind[k] = per_kind.get(k, 0) + 1
        outcomes[f"{k}:{r['outcome']}"] = outcomes.get(f"{k}:{r['outcome']}", 0) + 1
        evals += 1
        row_evals += r['evals']
        if r['outcome'] == 'ok':
            if r['ratio'] > worst.get(k, (0.0, None))[0] or k not in worst:
                worst[k] = (r['ratio'], _ident(case))
            if k == 'grid' or r['extra'].get('n', 0) >= 2:
                distinct.add(common.canon(_ident(case)))
            if r['extra'].get('first_order_reduce'):
                first_order_reduce += 1
            if k not in samples or _complexity(case) > _complexity(samples[k][0]):
                samples[k] = (case, r)
        if r['viol']:
            g = _group(case, r['viol'])
            cand = (_complexity(case), case, r)
            if g not in best or cand[0] < best[g][0]:
                best[g] = cand
    for g in sorted(best, key=lambda g: best[g][0]):
        _, case, r = best[g]
        n_same = sum(1 for c2, r2 in results if r2['viol'] and _group(c2, r2['viol']) == g)
        detail = dict(r['viol']['detail'])
        detail['cases_failing_with_this_cause'] = n_same
        detail['err_over_tol'] = r['ratio']
        rep.violation(_signature(case, r['viol']), detail, case)

    ok_ratios = [v[0] for v in worst.values()]
    rep.coverage.update(
        {
            'evaluations': evals,
            'row_and_moment_evaluations': row_evals,
            'distinct_nontrivial': len(distinct),
            'rule': 'one evaluation = one configuration (derivative, order, layout or offset set, size, boundary kinds, treatment, Neumann order, interval, dim) built by the real routines and judged by the oracle; distinct = distinct configuration dicts (generic data excluded); non-trivial = judged ok-or-bad (not unclaimed / nofit) with a stencil of >= 2 points (grids always)',
            'exhaustive': True,
            'cases_per_subcheck': per_kind,
            'outcomes': outcomes,
            'worst_err_over_tol': max(ok_ratios) if ok_ratios else None,
            'worst_headroom': (1.0 / max(ok_ratios)) if ok_ratios and max(ok_ratios) > 0 else None,
            'worst_err_over_tol_per_subcheck': {k: {'ratio': v[0], 'case': v[1]} for k, v in worst.items()},
            'tolerances': {'C_MOM': C_MOM, 'C_ULP': C_ULP, 'form': 'err <= C * 2**-52 * sum|terms|'},
            'reduce_closure_only_first_order_cases': first_order_reduce,
            'dimensions': {
                'derivative': [1, 2, 3, 4],
                'order': list(range(1, 9)),
                'layouts': list(fd.STENCIL_TYPES) + ['user offsets'],
                'boundaries': ['periodic', 'dirichlet', 'neumann', 'mixed', 'dirichlet-zero', 'neumann-zero'],
                'treatments': ['shifted', 'reduce'],
                'dims': [1, 2, 3],
                'intervals': INTERVALS,
            },
            'samples': [{'case': _ident(c), 'outcome': r['outcome'], 'err_over_tol': r['ratio']} for c, r in samples.values()],
        }
    )


def replay(rep, case):
    r = check_case(case)
    if r['viol']:
        detail = dict(r['viol']['detail'])
        detail['err_over_tol'] = r['ratio']
        rep.violation(_signature(case, r['viol']), detail, case)
