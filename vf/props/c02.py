"""C02 — one sweep of any sweeper equals one preconditioned Picard iteration built from its matrices (engine E2).

Enumerated: sweeper class x preconditioner name(s) x node family x M x operator x dt x tau x sweep index k, and for
each configuration a *basis* of the input space (unit vectors in every (node, dof) slot of U_old, of u0, of tau, the
zero input, two sums).  Oracle: vf/oracle/sdc.py (dense Kronecker-form models, own Q from Lagrange integration on the
reported nodes, preconditioner coefficients straight from qmat).  The runners for the individual sweeper families live
in this module (first order / multi-implicit) and in _c02_more.py-style sections further down.
"""

import collections
import itertools
import time

import numpy as np

import pySDC  # noqa: F401  (workers inherit the import)
from pySDC.implementations.problem_classes.TestEquation_0D import testequation0d, test_equation_IMEX
from pySDC.implementations.problem_classes.HeatEquation_ND_FD import heatNd_unforced, heatNd_forced
from pySDC.implementations.sweeper_classes.generic_implicit import generic_implicit
from pySDC.implementations.sweeper_classes.explicit import explicit
from pySDC.implementations.sweeper_classes.imex_1st_order import imex_1st_order
from pySDC.implementations.sweeper_classes.imex_1st_order_mass import imex_1st_order_mass
from pySDC.implementations.sweeper_classes.multi_implicit import multi_implicit

from vf import common
from vf.env import stubs
from vf.env import sweepharness as H
from vf.oracle import sdc as O

LEVEL = 'exploration'

C_TOL = 2000.0  # |impl - ref| <= C_TOL * eps * scale(oracle)
C_MAT = 64.0  # stored matrices vs padded qmat coefficients: C_MAT * eps * max|coeff|
C_Q = 200.0  # coll.Qmat / weights vs own Lagrange integration
EPS = O.EPS
NPOOL = 3

NODE_TYPES = ['LEGENDRE', 'EQUID', 'CHEBY-1', 'CHEBY-2', 'CHEBY-3', 'CHEBY-4']
QUAD_TYPES = ['GAUSS', 'LOBATTO', 'RADAU-LEFT', 'RADAU-RIGHT']
DTS = [1e-3, 0.1, 1.0, 7.5]
T0S = [0.3, 1.7, 0.45]

# ---- generic data pools (VERIF_SEED picks the pool, never the space) -------------------------------------------------
LAMBDAS = [
    np.array([-1.0 + 0j, 0.5 + 2.0j, -3.0 - 1.0j]),
    np.array([-0.5 + 0j, 2.0j, -2.0 + 1.5j]),
    np.array([-2.0 + 0j, -0.25 - 3.0j, 0.75 + 0.5j]),
]
LAMBDAS_E = [
    np.array([0.3 + 1.0j, -0.7 + 0j, 1.0j]),
    np.array([-0.2 - 1.5j, 0.4 + 0j, 0.5 + 0.5j]),
    np.array([1.5j, -0.6 + 0.2j, 0.3 + 0j]),
]
DENSE_A = [
    np.array([[-1.0, 2.0, 0.0], [0.0, -0.5, 1.5], [0.3, 0.0, -2.0]]),
    np.array([[-0.7, 0.0, 1.8], [1.1, -1.2, 0.0], [0.0, 0.4, -0.3]]),
    np.array([[0.2, -1.6, 0.0], [0.9, -1.0, 0.5], [0.0, 2.2, -1.4]]),
]
DENSE_B = [
    np.array([[0.1, -0.4, 0.6], [0.0, 0.3, 0.0], [-0.8, 0.0, -0.2]]),
    np.array([[-0.3, 0.5, 0.0], [0.0, 0.2, -0.9], [0.7, 0.0, 0.1]]),
    np.array([[0.0, 0.6, -0.5], [-0.4, -0.1, 0.0], [0.0, 0.8, 0.25]]),
]
FORCE = [
    np.array([[0.3, -0.2, 0.5], [1.0, 0.4, -0.7], [-0.6, 0.9, 0.2]]),
    np.array([[-0.5, 0.1, 0.8], [0.2, -1.1, 0.3], [0.4, 0.6, -0.9]]),
    np.array([[0.7, 0.7, -0.1], [-0.3, 0.5, 1.2], [0.9, -0.8, 0.4]]),
]
FORCE2 = [f[::-1] * 0.7 + 0.1 for f in FORCE]
MASS = [
    np.array([[2.0, 0.5, 0.0], [0.5, 2.0, 0.5], [0.0, 0.5, 2.0]]),
    np.array([[1.5, -0.3, 0.0], [0.2, 1.0, 0.4], [0.0, 0.1, 2.5]]),
    np.array([[3.0, 1.0, 0.5], [0.0, 2.0, -0.5], [0.5, 0.0, 1.0]]),
]
SUMW = [
    (np.array([0.8, -1.3, 0.6, 1.1, -0.4, 0.9, -0.7, 0.5, 1.2]), np.array([-0.6, 0.4, 1.5, -0.9, 0.7, -1.1, 0.3, 0.8, -0.5])),
    (np.array([1.1, 0.7, -0.9, 0.4, 1.3, -0.6, 0.8, -1.2, 0.5]), np.array([0.5, -1.4, 0.3, 1.0, -0.8, 0.6, -0.4, 1.2, 0.9])),
    (np.array([-0.7, 1.2, 0.5, -1.0, 0.9, 0.3, 1.4, -0.5, 0.6]), np.array([0.9, 0.6, -1.1, 0.8, -0.3, 1.3, -0.7, 0.4, -1.0])),
]


def pool():
    return common.seed() % NPOOL


# ---- problems for the first-order families --------------------------------------------------------------------------
def make_problem(kind, op, p):
    """kind in {'single','imex','mass','multi'}; returns (class, params, components, n, dtype, mass matrix or None)."""
    if kind == 'single':
        if op == 'scalars':
            return testequation0d, {'lambdas': LAMBDAS[p], 'u0': 1.0}, [None], 3, complex, None
        if op == 'dense3':
            return stubs.LinearDense, {'A': DENSE_A[p], 'g': FORCE[p]}, [None], 3, float, None
        if op == 'heat3':
            return heatNd_unforced, {'nvars': 3, 'nu': 0.1 * (p + 1), 'freq': 2, 'bc': 'dirichlet-zero'}, [None], 3, float, None
    if kind == 'imex':
        if op == 'scalars':
            return test_equation_IMEX, {'lambdas_implicit': LAMBDAS[p], 'lambdas_explicit': LAMBDAS_E[p], 'u0': 1.0}, ['impl', 'expl'], 3, complex, None
        if op == 'dense3':
            return stubs.LinearDenseIMEX, {'AI': DENSE_A[p], 'AE': DENSE_B[p], 'gI': FORCE[p], 'gE': FORCE2[p]}, ['impl', 'expl'], 3, float, None
        if op == 'heat3':
            return heatNd_forced, {'nvars': 3, 'nu': 0.1 * (p + 1), 'freq': 2, 'bc': 'dirichlet-zero'}, ['impl', 'expl'], 3, float, None
    if kind == 'mass':
        if op == 'dense3':
            return stubs.LinearMassIMEX, {'Mass': MASS[p], 'AI': DENSE_A[p], 'AE': DENSE_B[p], 'gI': FORCE[p], 'gE': FORCE2[p]}, ['impl', 'expl'], 3, float, MASS[p]
        if op == 'scalars':
            return (
                stubs.LinearMassIMEX,
                {'Mass': np.diag([2.0, 0.5 + 0.5j, 1.5]), 'AI': np.diag(LAMBDAS[p]), 'AE': np.diag(LAMBDAS_E[p]), 'dtype': 'complex128'},
                ['impl', 'expl'],
                3,
                complex,
                np.diag([2.0, 0.5 + 0.5j, 1.5]),
            )
    if kind == 'multi':
        if op == 'dense3':
            return stubs.LinearMulti, {'A1': DENSE_A[p], 'A2': DENSE_B[p], 'g1': FORCE[p], 'g2': FORCE2[p]}, ['comp1', 'comp2'], 3, float, None
        if op == 'scalars':
            return stubs.LinearMulti, {'A1': np.diag(LAMBDAS[p]), 'A2': np.diag(LAMBDAS_E[p]), 'dtype': 'complex128'}, ['comp1', 'comp2'], 3, complex, None
    raise KeyError((kind, op))


FIRST_ORDER = {
    'generic_implicit': dict(cls=generic_implicit, kind='single', slots=[('QI', False)], attrs=['QI']),
    'explicit': dict(cls=explicit, kind='single', slots=[('QE', True)], attrs=['QE']),
    'imex_1st_order': dict(cls=imex_1st_order, kind='imex', slots=[('QI', False), ('QE', True)], attrs=['QI', 'QE']),
    'imex_1st_order_mass': dict(cls=imex_1st_order_mass, kind='mass', slots=[('QI', False), ('QE', True)], attrs=['QI', 'QE']),
    'multi_implicit': dict(cls=multi_implicit, kind='multi', slots=[('Q1', False), ('Q2', False)], attrs=['Q1', 'Q2']),
}


# ======================================================================================================================
# result bookkeeping
# ======================================================================================================================
class Res:
    def __init__(self):
        self.evals = 0
        self.cases = 0
        self.outcomes = collections.Counter()
        self.worst = 0.0
        self.worst_where = None
        self.viols = []
        self.nontrivial = 0
        self.samples = []
        self.checked_keys = 0

    def merge(self, o):
        self.evals += o.evals
        self.cases += o.cases
        self.outcomes.update(o.outcomes)
        if o.worst > self.worst:
            self.worst, self.worst_where = o.worst, o.worst_where
        self.viols += o.viols
        self.nontrivial += o.nontrivial
        if len(self.samples) < 6:
            self.samples += o.samples[: 6 - len(self.samples)]


def case_sig(cfg, check, extra=None):
    s = {k: cfg[k] for k in ('sweeper', 'names', 'node_type', 'quad_type', 'M') if k in cfg}
    s['check'] = check
    if cfg.get('k') is not None:
        s['k'] = cfg['k']
    if extra:
        s.update(extra)
    return s


def cmp(res, cfg, check, got, ref, scale, probe=None, c=C_TOL, floor=0.0):
    """One float comparison |got - ref| <= c eps scale + floor; records worst ratio and (first per check) violation."""
    got = np.asarray(got)
    ref = np.asarray(ref)
    res.evals += 1
    if got.shape != ref.shape:
        err, ratio = float('inf'), float('inf')
    else:
        d = np.abs(got - ref)
        err = float(np.max(d)) if d.size else 0.0
        tol = c * EPS * scale + floor
        if not np.isfinite(err):
            ratio = float('inf')
        elif err == 0.0:
            ratio = 0.0
        else:
            ratio = err / tol if tol > 0 else float('inf')
    if not (ratio <= 1.0):
        key = (check,)
        if key not in cfg['_seen']:
            cfg['_seen'].add(key)
            pub = {k: v for k, v in cfg.items() if not k.startswith('_')}
            res.viols.append(
                {
                    'group': (cfg['sweeper'], check, cfg.get('k') is not None),
                    'gens': tuple(sorted((k, O.qd_class_of(v)) for k, v in cfg.get('names', {}).items())),
                    'order': (cfg['M'], NODE_TYPES.index(cfg['node_type']) if cfg.get('node_type') in NODE_TYPES else 0, QUAD_TYPES.index(cfg['quad_type']) if cfg.get('quad_type') in QUAD_TYPES else 0, str(cfg.get('op')), cfg.get('dt', 0.0), bool(cfg.get('tau')), cfg.get('k') or 0, str(sorted(cfg.get('names', {}).items()))),
                    'cfg': pub,
                    'check': check,
                    'detail': {'err': err, 'tol': c * EPS * scale + floor, 'scale': scale, 'probe': probe, 'expected': ref if ref.size <= 12 else ref.reshape(-1)[:12], 'observed': got if got.size <= 12 else got.reshape(-1)[:12]},
                }
            )
    elif ratio > res.worst:
        res.worst = ratio
        res.worst_where = {**{k: v for k, v in cfg.items() if not k.startswith('_')}, 'check': check}
    return ratio <= 1.0


def flag(res, cfg, check, detail):
    key = (check,)
    res.evals += 1
    if key in cfg['_seen']:
        return
    cfg['_seen'].add(key)
    pub = {k: v for k, v in cfg.items() if not k.startswith('_')}
    res.viols.append(
        {
            'group': (cfg['sweeper'], check, cfg.get('k') is not None),
                    'gens': tuple(sorted((k, O.qd_class_of(v)) for k, v in cfg.get('names', {}).items())),
            'order': (cfg.get('M', 0), NODE_TYPES.index(cfg['node_type']) if cfg.get('node_type') in NODE_TYPES else 0, QUAD_TYPES.index(cfg['quad_type']) if cfg.get('quad_type') in QUAD_TYPES else 0, str(cfg.get('op')), cfg.get('dt', 0.0), bool(cfg.get('tau')), cfg.get('k') or 0, str(sorted(cfg.get('names', {}).items()))),
            'cfg': pub,
            'check': check,
            'detail': detail,
        }
    )


# ======================================================================================================================
# probes: a basis of the input space
# ======================================================================================================================
def basis_probes(M, n, with_tau, dtype, p, blocks=('uold', 'u0', 'tau')):
    """yields (label, Ufull (M+1, n), tau (M, n) | None).  Unit vectors in every (node, dof) slot of U_old, of u0 and of
    tau, the zero input, two sums (the second with complex weights for complex problems)."""
    z = np.zeros((M + 1, n), dtype=dtype)
    zt = np.zeros((M, n), dtype=dtype) if with_tau else None
    out = [('zero', z.copy(), None if zt is None else zt.copy())]
    allv = []
    if 'uold' in blocks:
        for m in range(1, M + 1):
            for i in range(n):
                U = z.copy()
                U[m, i] = 1.0
                out.append((f'uold[{m},{i}]', U, None if zt is None else zt.copy()))
                allv.append((U, None if zt is None else zt.copy()))
    if 'u0' in blocks:
        for i in range(n):
            U = z.copy()
            U[0, i] = 1.0
            out.append((f'u0[{i}]', U, None if zt is None else zt.copy()))
            allv.append((U, None if zt is None else zt.copy()))
    if with_tau and 'tau' in blocks:
        for m in range(M):
            for i in range(n):
                T = zt.copy()
                T[m, i] = 1.0
                out.append((f'tau[{m},{i}]', z.copy(), T))
                allv.append((z.copy(), T))
    for si, wts in enumerate(SUMW[p]):
        U = z.copy()
        T = None if zt is None else zt.copy()
        for j, (Uj, Tj) in enumerate(allv):
            wj = wts[j % len(wts)] * (1.0 + 0.1 * (j // len(wts)))
            if si == 1 and dtype is complex:
                wj = wj * (0.6 + 0.8j) ** j
            U = U + wj * Uj
            if T is not None:
                T = T + wj * Tj
        out.append((f'sum{si}', U, T))
    return out


# ======================================================================================================================
# coefficient layer: outcome taxonomy + stored matrices
# ======================================================================================================================
def oracle_slots(slots, names, node_type, quad_type, M, k):
    """per slot the qmat coefficients; overall predicted outcome."""
    info = {}
    status = 'ok'
    for slot, expl in slots:
        c = O.qd_coeffs(names[slot], node_type, quad_type, M, k)
        info[slot] = c
        if c['status'] == 'unavailable':
            status = 'unavailable'
        elif c['status'] == 'nonfinite' and status == 'ok':
            status = 'nonfinite'
    if status == 'ok':
        for slot, expl in slots:
            if O.predicted_rejection(info[slot]['QD'], expl):
                status = 'rejected'
    return status, info


def padded(info, slot, expl):
    c = info[slot]
    return O.pad(c['QD'], c['dtau'] if expl else None)


def construct(res, cfg, spec, pc, pp, sweeper_params, dt, t0, predicted):
    """build the Level; classify the outcome against the oracle's prediction.  Returns (S, L) or None."""
    try:
        S, L = H.build_level(pc, pp, spec['cls'], sweeper_params, dt, t0)
    except AssertionError as e:
        if predicted == 'rejected':
            res.outcomes['rejected_by_contract(predicted)'] += 1
        elif predicted == 'nonfinite':
            res.outcomes['degenerate_nonfinite'] += 1
        elif predicted == 'unavailable':
            res.outcomes['generator_unavailable'] += 1
        else:
            flag(res, cfg, 'outcome.unpredicted_rejection', {'error': str(e)[:300], 'predicted': predicted})
        return None
    except Exception as e:
        if predicted == 'unavailable':
            res.outcomes['generator_unavailable'] += 1
        elif predicted == 'nonfinite':
            res.outcomes['degenerate_nonfinite'] += 1
        else:
            flag(res, cfg, 'outcome.unpredicted_error', {'error': f'{type(e).__name__}: {str(e)[:300]}', 'predicted': predicted})
        return None
    if predicted == 'nonfinite':
        res.outcomes['degenerate_nonfinite'] += 1
        return None
    if predicted in ('rejected', 'unavailable'):
        flag(res, cfg, 'outcome.unpredicted_acceptance', {'predicted': predicted})
        return None
    return S, L


def check_stored(res, cfg, sweep, spec, info):
    ok = True
    for (slot, expl), attr in zip(spec['slots'], spec['attrs']):
        ref = padded(info, slot, expl)
        got = np.asarray(getattr(sweep, attr))
        ok &= cmp(res, cfg, f'stored_matrix.{attr}', got, ref, max(float(np.max(np.abs(ref))), 1.0), c=C_MAT)
    return ok


def check_Q(res, cfg, coll, Q, w):
    sc = O.q_compare_scale(coll.nodes)
    a = cmp(res, cfg, 'coll.Qmat', np.asarray(coll.Qmat)[1:, 1:], Q, sc, c=C_Q)
    b = cmp(res, cfg, 'coll.weights', np.asarray(coll.weights), w, sc, c=C_Q)
    z = cmp(res, cfg, 'coll.Qmat.pad', np.concatenate([np.asarray(coll.Qmat)[0, :], np.asarray(coll.Qmat)[:, 0]]), np.zeros(2 * len(w) + 2), 1.0, c=0.0)
    return a and b and z


# ======================================================================================================================
# runner: first-order families (generic_implicit, explicit, imex_1st_order, imex_1st_order_mass, multi_implicit)
# ======================================================================================================================
def run_first_order_case(res, cfg):
    """cfg: sweeper, names, node_type, quad_type, M, op, dt, tau, k, pool."""
    cfg['_seen'] = set()
    spec = FIRST_ORDER[cfg['sweeper']]
    p = cfg['pool']
    M, dt, k = cfg['M'], cfg['dt'], cfg['k']
    t0 = T0S[p]
    res.cases += 1
    predicted0, info0 = oracle_slots(spec['slots'], cfg['names'], cfg['node_type'], cfg['quad_type'], M, None)
    pc, pp, comps, n, dtype, mass = make_problem(spec['kind'], cfg['op'], p)
    base = {'num_nodes': M, 'node_type': cfg['node_type'], 'quad_type': cfg['quad_type'], **cfg['names']}
    built = construct(res, cfg, spec, pc, pp, {**base, 'do_coll_update': False}, dt, t0, predicted0)
    if built is None:
        return
    S, L = built
    sweep, P, coll = L.sweep, L.prob, L.sweep.coll
    info = info0
    if not check_stored(res, cfg, sweep, spec, info0):
        return
    if k is not None:
        # exactly as controller it_fine does before the k-th sweep
        predicted, info = oracle_slots(spec['slots'], cfg['names'], cfg['node_type'], cfg['quad_type'], M, k)
        try:
            sweep.updateVariableCoeffs(k)
        except Exception as e:
            if predicted == 'ok':
                flag(res, cfg, 'updateVariableCoeffs.error', {'error': f'{type(e).__name__}: {str(e)[:300]}'})
            else:
                res.outcomes['kdep_' + predicted] += 1
            return
        if predicted != 'ok':
            res.outcomes['kdep_' + predicted] += 1
            return
        if not check_stored(res, cfg, sweep, spec, info):
            return
    nodes = np.array(coll.nodes, dtype=float)
    Q, w = O.lagrange_Q(nodes)
    if not check_Q(res, cfg, coll, Q, w):
        return
    if cfg.get('coeff_only'):
        res.outcomes['coefficients_checked'] += 1
        return
    # second level constructed with do_coll_update=True for the quadrature end point
    LB = None
    if cfg['sweeper'] != 'imex_1st_order_mass':
        try:
            SB, LB = H.build_level(pc, pp, spec['cls'], {**base, 'do_coll_update': True}, dt, t0)
            if k is not None:
                LB.sweep.updateVariableCoeffs(k)
        except Exception as e:
            flag(res, cfg, 'outcome.coll_update_level', {'error': f'{type(e).__name__}: {str(e)[:300]}'})
            return
    splits = [O.Split(A, g) for A, g in H.probe_splits(P, comps, n, (t0,))]
    QDs = [padded(info, slot, expl) for slot, expl in spec['slots']]
    right = bool(coll.right_is_node)
    # (nearly) singular node systems I - dt*QD[m,m]*A_s: the sweep is then not a well-conditioned function of its inputs
    # (values of 1e17 and a legitimate relative spread of cond*eps); counted, not judged, like the singular DAE systems
    eye = np.eye(n)
    for QD, sp_ in zip(QDs, splits):
        for d in np.diag(QD)[1:]:
            if d != 0 and np.linalg.cond((mass if mass is not None else eye) - dt * d * sp_.A) > 1e8:
                res.outcomes['ill_conditioned_node_system'] += 1
                return
    res.outcomes['checked'] += 1
    nontriv = any(np.any(np.abs(O.pad(Q) - QD) > 0) for QD in QDs)
    res.nontrivial += int(nontriv)
    probes = basis_probes(M, n, cfg['tau'], dtype, p)
    for label, Ufull, tau in probes:
        try:
            if cfg['sweeper'] == 'multi_implicit':
                ref = O.sweep_multi_implicit(nodes, Q, QDs[0], QDs[1], splits[0], splits[1], dt, t0, Ufull, tau)
            else:
                ref = O.sweep_first_order(nodes, Q, QDs, splits, dt, t0, Ufull, tau, mass=mass)
        except np.linalg.LinAlgError:
            res.outcomes['singular_system_probe'] += 1
            continue
        times = [t0] + [t0 + dt * c for c in nodes]
        Fold_sum = sum(s.F(Ufull, times) for s in splits)[1:]
        H.write_state(L, P, Ufull, nodes, tau)
        # integrate() on the arbitrary node values
        iref, isc = O.integrate_first_order(Q, Fold_sum, dt)
        got = np.array([H.rd(v) for v in sweep.integrate()])
        cmp(res, cfg, 'integrate', got, iref, isc, label)
        # the sweep
        sweep.update_nodes()
        Unew = H.read_u(L, M)
        cmp(res, cfg, 'update_nodes.u0_untouched', Unew[0], Ufull[0], 0.0, label, floor=0.0)
        cmp(res, cfg, 'update_nodes.u', Unew[1:], ref['U'][1:], ref['scale'], label)
        for comp, Fr in zip(comps, ref['F']):
            Fn = H.read_f(L, M, comp)
            cmp(res, cfg, 'update_nodes.f' + ('' if comp is None else '.' + comp), Fn[1:], Fr[1:], ref['fscale'], label)
        # integrate() on the new values
        Fnew_sum = sum(ref['F'])[1:]
        iref, isc = O.integrate_first_order(Q, Fnew_sum, dt)
        got = np.array([H.rd(v) for v in sweep.integrate()])
        cmp(res, cfg, 'integrate.after_sweep', got, iref, max(isc, abs(dt) * float(np.max(np.sum(np.abs(Q), axis=1))) * ref['fscale']), label)
        # end point, configured do_coll_update=False
        eq, esc = O.end_point_quadrature(w, ref['U'][0], Fnew_sum, dt, None if tau is None else tau[-1])
        if cfg['sweeper'] == 'imex_1st_order_mass' and not right:
            # documented contract of the mass sweeper: u_M = u_end is required, anything else raises NotImplementedError
            try:
                sweep.compute_end_point()
                flag(res, cfg, 'end_point.mass_contract', {'expected': 'NotImplementedError', 'observed': 'returned'})
            except NotImplementedError:
                res.evals += 1
            continue
        sweep.compute_end_point()
        esc = max(esc, abs(dt) * float(np.sum(np.abs(w))) * ref['fscale'])
        if right:
            cmp(res, cfg, 'end_point.copy', H.rd(L.uend), ref['U'][-1], ref['scale'], label)
        else:
            cmp(res, cfg, 'end_point.forced_quadrature', H.rd(L.uend), eq, esc, label)
        # end point, configured do_coll_update=True (level B gets the same state)
        if LB is not None:
            for m in range(M + 1):
                LB.u[m] = L.u[m]
                LB.f[m] = L.f[m]
            for m in range(M):
                LB.tau[m] = L.tau[m]
            LB.sweep.compute_end_point()
            cmp(res, cfg, 'end_point.quadrature', H.rd(LB.uend), eq, esc, label)
        elif not right:
            pass
    # the same sweeper object on a later step with another step size (what a step-size controller does between steps): the
    # sweep is the matrix iteration for the step size the level has NOW
    if probes and cfg['sweeper'] != 'multi_implicit':
        label, Ufull, tau = probes[min(1, len(probes) - 1)]
        dt2 = 0.5 * dt
        H.set_dt(L, dt2)
        try:
            ref2 = O.sweep_first_order(nodes, Q, QDs, splits, dt2, t0, Ufull, tau, mass=mass)
            H.write_state(L, P, Ufull, nodes, tau)
            sweep.update_nodes()
            cmp(res, cfg, 'update_nodes.u.after_step_size_change', H.read_u(L, M)[1:], ref2['U'][1:], ref2['scale'], label)
        except np.linalg.LinAlgError:
            res.outcomes['singular_system_probe'] += 1
        finally:
            H.set_dt(L, dt)
    if len(res.samples) < 2:
        res.samples.append({**{k_: v for k_, v in cfg.items() if not k_.startswith('_')}, 'probes': [pr[0] for pr in probes][:8] + ['...'], 'n_probes': len(probes)})


def run_first_order_unit(unit):
    common.silence_logging()
    res = Res()
    for k in unit['ks']:
        first = True
        for op, dt, tau in itertools.product(unit['ops'], unit['dts'], unit['taus']):
            cfg = {kk: unit[kk] for kk in ('family', 'sweeper', 'names', 'node_type', 'quad_type', 'M', 'pool')}
            cfg.update(op=op, dt=dt, tau=tau, k=k)
            before = res.outcomes['checked']
            nv = len(res.viols)
            snap = (res.worst, res.worst_where)
            try:
                run_first_order_case(res, cfg)
            except Exception as e:  # a crash inside the code under test on a legal input is a finding, not a checker crash
                import traceback

                cfg.setdefault('_seen', set())
                flag(res, cfg, 'exception', {'error': f'{type(e).__name__}: {str(e)[:300]}', 'trace': traceback.format_exc()[-900:]})
            if len(res.viols) > nv:
                res.worst, res.worst_where = snap
            if first and res.outcomes['checked'] == before and len(res.viols) == nv:
                # construction-level outcome (rejected / unavailable / degenerate): it does not depend on operator, dt, tau
                break
            first = False
    return res


RUNNERS = {'first_order': run_first_order_unit}
CASE_RUNNERS = {'first_order': run_first_order_case}


# ======================================================================================================================
# runner: Runge-Kutta sweepers (stage form from the class tableau attributes)
# ======================================================================================================================
import pySDC.implementations.sweeper_classes.Runge_Kutta as RKmod  # noqa: E402


def rk_classes():
    out = {}
    for name in sorted(dir(RKmod)):
        obj = getattr(RKmod, name)
        if isinstance(obj, type) and issubclass(obj, RKmod.RungeKutta) and obj not in (RKmod.RungeKutta, RKmod.RungeKuttaIMEX) and obj.__module__ == RKmod.__name__:
            out[name] = obj
    return out


def tableau_of(cls):
    """Stage data read from the class attributes (their correctness is C04's business)."""
    imex = issubclass(cls, RKmod.RungeKuttaIMEX)
    c = np.asarray(cls.nodes, dtype=float)
    A = np.asarray(cls.matrix, dtype=float)
    w = np.asarray(cls.weights, dtype=float)
    embedded = w.ndim == 2
    b = w[0] if embedded else w
    b2 = w[1] if embedded else None
    tab = {'c': c, 'A': [A], 'b': [b], 'b2': [b2], 'embedded': embedded, 'imex': imex}
    if imex:
        AE = np.asarray(cls.matrix_explicit, dtype=float)
        wE = cls.weights_explicit if cls.weights_explicit is not None else cls.weights
        wE = np.asarray(wE, dtype=float)
        tab['A'].append(AE)
        tab['b'].append(wE[0] if wE.ndim == 2 else wE)
        tab['b2'].append(wE[1] if wE.ndim == 2 else None)
    # stiff accuracy: exact -> last stage; merely close -> either form is accepted
    tab['gsa_exact'] = all(np.array_equal(Ai[-1], bi) for Ai, bi in zip(tab['A'], tab['b']))
    tab['gsa_close'] = all(np.allclose(Ai[-1], bi) for Ai, bi in zip(tab['A'], tab['b']))
    return tab


def run_rk_case(res, cfg):
    cfg['_seen'] = set()
    cls = rk_classes()[cfg['sweeper']]
    tab = tableau_of(cls)
    p, dt = cfg['pool'], cfg['dt']
    t0 = T0S[p]
    res.cases += 1
    pc, pp, comps, n, dtype, _ = make_problem('imex' if tab['imex'] else 'single', cfg['op'], p)
    try:
        S, L = H.build_level(pc, pp, cls, {}, dt, t0)
    except Exception as e:
        flag(res, cfg, 'outcome.construction', {'error': f'{type(e).__name__}: {str(e)[:300]}'})
        return
    sweep, P, coll = L.sweep, L.prob, L.sweep.coll
    Sn = len(tab['c'])
    cmp(res, cfg, 'stored.nodes', np.asarray(coll.nodes, dtype=float), np.concatenate([[0.0], tab['c']]), 1.0, c=0.0)
    cmp(res, cfg, 'stored_matrix.QI', np.asarray(sweep.QI, dtype=float), O.pad(tab['A'][0]), 1.0, c=0.0)
    if tab['imex']:
        cmp(res, cfg, 'stored_matrix.QE', np.asarray(sweep.QE, dtype=float), O.pad(tab['A'][1]), 1.0, c=0.0)
    splits = [O.Split(A, g) for A, g in H.probe_splits(P, comps, n, (t0,))]
    res.outcomes['checked'] += 1
    res.nontrivial += 1
    M = Sn
    probes = basis_probes(M, n, False, dtype, p, blocks=('u0',))
    junk = SUMW[p][0]
    for label, Ufull, _tau in probes:
        u0 = Ufull[0]
        ref = O.rk_stages(tab['c'], tab['A'], splits, dt, t0, u0)
        # arbitrary (junk) node values and f values for the sum probes: an RK sweep must not depend on them
        Uw = np.array(Ufull, dtype=dtype)
        if label.startswith('sum'):
            for m in range(1, M + 1):
                Uw[m] = [junk[(m + i) % len(junk)] for i in range(n)]
        H.write_state(L, P, Uw, tab['c'], None)
        L.status.sweep = 1
        sweep.update_nodes()
        Unew = H.read_u(L, M)
        cmp(res, cfg, 'update_nodes.u0_untouched', Unew[0], u0, 0.0, label)
        cmp(res, cfg, 'update_nodes.u', Unew[1:], ref['U'], ref['scale'], label)
        skip_last_f = (tab['gsa_close']) and not tab['embedded']
        for comp, Fr in zip(comps, ref['F']):
            Fn = np.array([H.comp_of(L.f[m], comp) for m in range(1, M + 1)])
            hi = M - 1 if skip_last_f else M
            cmp(res, cfg, 'update_nodes.f' + ('' if comp is None else '.' + comp), Fn[:hi], Fr[:hi], ref['fscale'], label)
        # end point
        sweep.compute_end_point()
        ew, esc = O.rk_combine(u0, tab['b'], ref['F'], dt)
        esc = max(esc, ref['scale'])
        got = H.rd(L.uend)
        if tab['gsa_exact']:
            cmp(res, cfg, 'end_point.last_stage', got, ref['U'][-1], ref['scale'], label)
        elif tab['gsa_close']:
            # weights and last row agree only approximately: either documented form is accepted
            r1 = float(np.max(np.abs(got - ref['U'][-1]))) / (C_TOL * EPS * ref['scale'])
            r2 = float(np.max(np.abs(got - ew))) / (C_TOL * EPS * esc)
            res.evals += 1
            if not (min(r1, r2) <= 1.0):
                cmp(res, cfg, 'end_point.last_stage_or_weights', got, ew, esc, label)
            res.worst = max(res.worst, min(r1, r2))
        else:
            cmp(res, cfg, 'end_point.weights', got, ew, esc, label)
        if tab['embedded']:
            e2, e2sc = O.rk_combine(u0, tab['b2'], ref['F'], dt)
            cmp(res, cfg, 'end_point.u_secondary', H.rd(sweep.u_secondary), e2, max(e2sc, ref['scale']), label)
        # integrate(): dt * (A (x) I) F  (IMEX: both tableaux) — only meaningful when every f was evaluated
        if not skip_last_f:
            iref = sum(dt * Ai @ Fi for Ai, Fi in zip(tab['A'], ref['F']))
            isc = float(np.max(sum(abs(dt) * np.abs(Ai) @ np.abs(Fi) for Ai, Fi in zip(tab['A'], ref['F'])), initial=0.0)) + abs(dt) * ref['fscale'] * float(np.max(np.sum(np.abs(tab['A'][0]), axis=1)))
            gotI = np.array([H.rd(v) for v in sweep.integrate()])
            cmp(res, cfg, 'integrate.after_sweep', gotI, iref, max(isc, 1e-300), label)
    if len(res.samples) < 2:
        res.samples.append({**{k_: v for k_, v in cfg.items() if not k_.startswith('_')}, 'stages': Sn, 'n_probes': len(probes)})


def run_generic_unit(unit):
    """unit: family, list of cases (cfg dicts); runs them with the family's case runner."""
    common.silence_logging()
    res = Res()
    runner = CASE_RUNNERS[unit['family']]
    for cfg in unit['cases']:
        cfg = dict(cfg)
        snap = (res.worst, res.worst_where, len(res.viols))
        try:
            runner(res, cfg)
        except Exception as e:
            import traceback

            cfg.setdefault('_seen', set())
            flag(res, cfg, 'exception', {'error': f'{type(e).__name__}: {str(e)[:300]}', 'trace': traceback.format_exc()[-900:]})
        if len(res.viols) > snap[2]:
            # headroom is a statement about the cases that agree with the oracle; a failing case does not feed it
            res.worst, res.worst_where = snap[0], snap[1]
    return res


CASE_RUNNERS['rk'] = run_rk_case


# ======================================================================================================================
# runner: second-order sweepers  (verlet on harmonic_oscillator / dense stub;  boris_2nd_order on the Penning trap)
# ======================================================================================================================
from pySDC.implementations.sweeper_classes.verlet import verlet  # noqa: E402
from pySDC.implementations.sweeper_classes.boris_2nd_order import boris_2nd_order  # noqa: E402
from pySDC.implementations.problem_classes.HarmonicOscillator import harmonic_oscillator  # noqa: E402
from pySDC.implementations.problem_classes.PenningTrap_3D import penningtrap  # noqa: E402

SPRING = [1.0, 2.5, 0.6]
DENSE_K = [-(a @ a.T) * 0.5 + np.triu(a, 1) * 0.3 for a in DENSE_A]  # non-symmetric, mostly restoring
OMEGAS = [(25.0, 4.9), (10.0, 2.0), (4.0, 1.5)]  # (omega_B, omega_E)


def make_problem_2nd(op, p):
    if op == 'harmonic':
        return harmonic_oscillator, {'k': SPRING[p], 'mu': 0.0, 'u0': np.array([1.0, 0.0])}, 1
    if op == 'dense2nd':
        return stubs.LinearSecondOrder, {'K': DENSE_K[p], 'g': FORCE[p]}, 3
    if op == 'penning':
        u0 = np.array([[10, 0, 0], [100, 0, 100], [1], [1]], dtype=object)
        return penningtrap, {'omega_B': OMEGAS[p][0], 'omega_E': OMEGAS[p][1], 'u0': u0, 'nparts': 1, 'sig': 0.1}, 3
    raise KeyError(op)


def probe_second_order(P, n, t0):
    z = np.zeros(n)
    f0 = H.rd(P.eval_f(H.mk_part(P, z, z), t0))
    K = np.zeros((n, n))
    D = np.zeros((n, n))
    for i in range(n):
        e = np.zeros(n)
        e[i] = 1.0
        K[:, i] = H.rd(P.eval_f(H.mk_part(P, e, z), t0)) - f0
        D[:, i] = H.rd(P.eval_f(H.mk_part(P, z, e), t0)) - f0

    def g(t):
        return H.rd(P.eval_f(H.mk_part(P, z, z), t))

    return K, D, g


def probes_2nd(M, n, with_tau, p):
    """basis in X_old, V_old, x0, v0, tau_x, tau_v + zero + two sums; items (label, X, V, TX, TV)."""
    zX = np.zeros((M + 1, n))
    zT = np.zeros((M, n)) if with_tau else None
    cp = lambda a: None if a is None else a.copy()  # noqa: E731
    out = [('zero', zX.copy(), zX.copy(), cp(zT), cp(zT))]
    allv = []
    for which in ('x', 'v'):
        for m in range(0, M + 1):
            for i in range(n):
                X, V = zX.copy(), zX.copy()
                (X if which == 'x' else V)[m, i] = 1.0
                lab = f"{which}{'0' if m == 0 else 'old'}[{m},{i}]"
                out.append((lab, X, V, cp(zT), cp(zT)))
                allv.append((X, V, cp(zT), cp(zT)))
    if with_tau:
        for which in ('x', 'v'):
            for m in range(M):
                for i in range(n):
                    TX, TV = zT.copy(), zT.copy()
                    (TX if which == 'x' else TV)[m, i] = 1.0
                    out.append((f'tau_{which}[{m},{i}]', zX.copy(), zX.copy(), TX, TV))
                    allv.append((zX.copy(), zX.copy(), TX, TV))
    for si, wts in enumerate(SUMW[p]):
        X, V, TX, TV = zX.copy(), zX.copy(), cp(zT), cp(zT)
        for j, (Xj, Vj, TXj, TVj) in enumerate(allv):
            wj = wts[j % len(wts)] * (1.0 + 0.1 * (j // len(wts)))
            X += wj * Xj
            V += wj * Vj
            if with_tau:
                TX += wj * TXj
                TV += wj * TVj
        out.append((f'sum{si}', X, V, TX, TV))
    return out


SECOND_SLOTS = [('QI', False), ('QE', True)]


def run_verlet_case(res, cfg):
    cfg['_seen'] = set()
    p, M, dt = cfg['pool'], cfg['M'], cfg['dt']
    t0 = T0S[p]
    res.cases += 1
    spec = {'cls': verlet, 'slots': SECOND_SLOTS}
    predicted, info = oracle_slots(SECOND_SLOTS, cfg['names'], cfg['node_type'], cfg['quad_type'], M, None)
    pc, pp, n = make_problem_2nd(cfg['op'], p)
    base = {'num_nodes': M, 'node_type': cfg['node_type'], 'quad_type': cfg['quad_type'], **cfg['names']}
    built = construct(res, cfg, spec, pc, pp, {**base, 'do_coll_update': False}, dt, t0, predicted)
    if built is None:
        return
    S, L = built
    sweep, P, coll = L.sweep, L.prob, L.sweep.coll
    nodes = np.array(coll.nodes, dtype=float)
    Q, w = O.lagrange_Q(nodes)
    if not check_Q(res, cfg, coll, Q, w):
        return
    if cfg.get('k') is not None:
        # exactly as controller it_fine does before the k-th sweep
        predicted, info = oracle_slots(SECOND_SLOTS, cfg['names'], cfg['node_type'], cfg['quad_type'], M, cfg['k'])
        sweep.updateVariableCoeffs(cfg['k'])
    QIf, QEf = padded(info, 'QI', False), padded(info, 'QE', True)
    sympl = cfg['node_type'] == 'LEGENDRE' and cfg['quad_type'] == 'LOBATTO'
    QT, Qx, QQ = O.verlet_matrices(Q, QIf, QEf, symplectic_lobatto=sympl, w=w)
    if not np.all(np.isfinite(QQ)):
        res.outcomes['degenerate_nonfinite'] += 1
        return
    ok = cmp(res, cfg, 'stored_matrix.QT', np.asarray(sweep.QT), QT, max(float(np.max(np.abs(QT))), 1.0), c=C_MAT)
    ok = ok and cmp(res, cfg, 'stored_matrix.Qx', np.asarray(sweep.Qx), Qx, max(float(np.max(np.abs(Qx))), 1.0), c=C_MAT)
    ok = ok and cmp(res, cfg, 'stored_matrix.QQ', np.asarray(sweep.QQ), QQ, O.q_compare_scale(nodes) * max(float(np.max(np.abs(QQ))), 1.0) * (10.0 if sympl else 1.0), c=C_Q)
    if not ok:
        return
    try:
        SB, LB = H.build_level(pc, pp, verlet, {**base, 'do_coll_update': True}, dt, t0)
    except Exception as e:
        flag(res, cfg, 'outcome.coll_update_level', {'error': f'{type(e).__name__}: {str(e)[:300]}'})
        return
    K, D, g = probe_second_order(P, n, t0)
    if np.any(D != 0):
        res.outcomes['velocity_dependent_force_not_covered'] += 1
        return
    right = bool(coll.right_is_node)
    res.outcomes['checked'] += 1
    res.nontrivial += 1
    probes = probes_2nd(M, n, cfg['tau'], p)
    sp = O.Split(K, g)
    times = [t0] + [t0 + dt * c for c in nodes]
    for label, X, V, TX, TV in probes:
        ref = O.sweep_verlet(nodes, Q, QT, Qx, QQ, K, sp.g1, dt, t0, X, V, TX, TV)
        H.write_state_part(L, P, X, V, nodes, TX, TV)
        Fold = sp.F(X, times)[1:]
        ip, iv, sp_, sv_ = O.integrate_verlet(Q, QQ, Fold, V[0], dt)
        got = sweep.integrate()
        cmp(res, cfg, 'integrate.pos', np.array([H.rd(v.pos) for v in got]), ip, sp_, label)
        cmp(res, cfg, 'integrate.vel', np.array([H.rd(v.vel) for v in got]), iv, sv_, label)
        sweep.update_nodes()
        Xn, Vn = H.read_part(L, M)
        cmp(res, cfg, 'update_nodes.u0_untouched', np.concatenate([Xn[0], Vn[0]]), np.concatenate([X[0], V[0]]), 0.0, label)
        cmp(res, cfg, 'update_nodes.pos', Xn[1:], ref['X'][1:], ref['scale_x'], label)
        cmp(res, cfg, 'update_nodes.vel', Vn[1:], ref['V'][1:], ref['scale_v'], label)
        Fn = np.array([H.rd(L.f[m]) for m in range(1, M + 1)])
        cmp(res, cfg, 'update_nodes.f', Fn, ref['F'][1:], ref['fscale'], label)
        xe, ve, sxe, sve = O.end_point_verlet(Q, w, X[0], V[0], ref['F'][1:], dt, None if TX is None else TX[-1], None if TV is None else TV[-1])
        sxe = max(sxe, dt * dt * float(np.sum(np.abs(w @ Q))) * ref['fscale'])
        sve = max(sve, abs(dt) * float(np.sum(np.abs(w))) * ref['fscale'])
        sweep.compute_end_point()
        if right:
            cmp(res, cfg, 'end_point.copy', np.concatenate([H.rd(L.uend.pos), H.rd(L.uend.vel)]), np.concatenate([ref['X'][-1], ref['V'][-1]]), max(ref['scale_x'], ref['scale_v']), label)
        else:
            cmp(res, cfg, 'end_point.forced_quadrature.pos', H.rd(L.uend.pos), xe, sxe, label)
            cmp(res, cfg, 'end_point.forced_quadrature.vel', H.rd(L.uend.vel), ve, sve, label)
        for m in range(M + 1):
            LB.u[m], LB.f[m] = L.u[m], L.f[m]
        for m in range(M):
            LB.tau[m] = L.tau[m]
        LB.sweep.compute_end_point()
        cmp(res, cfg, 'end_point.quadrature.pos', H.rd(LB.uend.pos), xe, sxe, label)
        cmp(res, cfg, 'end_point.quadrature.vel', H.rd(LB.uend.vel), ve, sve, label)
    if len(res.samples) < 2:
        res.samples.append({**{k_: v for k_, v in cfg.items() if not k_.startswith('_')}, 'n_probes': len(probes)})


def run_boris_case(res, cfg):
    cfg['_seen'] = set()
    p, M, dt = cfg['pool'], cfg['M'], cfg['dt']
    t0 = T0S[p]
    res.cases += 1
    spec = {'cls': boris_2nd_order, 'slots': SECOND_SLOTS}
    predicted, info = oracle_slots(SECOND_SLOTS, cfg['names'], cfg['node_type'], cfg['quad_type'], M, None)
    pc, pp, n = make_problem_2nd('penning', p)
    base = {'num_nodes': M, 'node_type': cfg['node_type'], 'quad_type': cfg['quad_type'], **cfg['names']}
    built = construct(res, cfg, spec, pc, pp, base, dt, t0, predicted)
    if built is None:
        return
    S, L = built
    sweep, P, coll = L.sweep, L.prob, L.sweep.coll
    nodes = np.array(coll.nodes, dtype=float)
    Q, w = O.lagrange_Q(nodes)
    if not check_Q(res, cfg, coll, Q, w):
        return
    QIf, QEf = padded(info, 'QI', False), padded(info, 'QE', True)
    mats = O.boris_matrices(Q, QIf, QEf)
    ok = True
    for nm in ('S', 'ST', 'SQ', 'Sx', 'QQ', 'QT', 'Qx', 'QI'):
        sc = max(float(np.max(np.abs(mats[nm]))), 1.0) * (O.q_compare_scale(nodes) if nm in ('S', 'SQ', 'QQ') else 1.0)
        ok &= cmp(res, cfg, f'stored_matrix.{nm}', np.asarray(getattr(sweep, nm)), mats[nm], sc, c=C_Q if nm in ('S', 'SQ', 'QQ') else C_MAT)
    if not ok:
        return
    # the velocity line of the sweeper is a trapezoidal Boris solve with step dt*QI[m+1,m+1]; this is the matrix form
    # with ST only if ST[m+1,m] = ST[m+1,m+1] = QI[m+1,m+1]/2 and the rest of the ST row vanishes (true for IE/EE)
    ST = mats['ST']
    consistent = True
    for m in range(M):
        row = ST[m + 1].copy()
        h2 = QIf[m + 1, m + 1] / 2
        consistent &= abs(row[m + 1] - h2) <= 1e-14 and abs(row[m] - h2) <= 1e-14
        row[m + 1] = 0
        row[m] = 0
        consistent &= bool(np.all(np.abs(row) <= 1e-14))
    if not consistent:
        res.outcomes['boris_velocity_form_not_defined_by_ST'] += 1
        return
    oB, oE = OMEGAS[p]
    Emat = oE**2 * np.diag([1.0, 1.0, -2.0])
    Bvec = np.array([0.0, 0.0, oB])
    res.outcomes['checked'] += 1
    res.nontrivial += 1
    probes = probes_2nd(M, n, cfg['tau'], p)
    C = O.cross_matrix(Bvec)
    for label, X, V, TX, TV in probes:
        ref = O.sweep_boris(nodes, mats, Emat, Bvec, 1.0, dt, X, V, TX, TV)
        H.write_state_part(L, P, X, V, nodes, TX, TV)
        Fold = (X @ Emat.T + V @ C.T)[1:]
        ip, iv, sp_, sv_ = O.integrate_verlet(Q, mats['QQ'], Fold, V[0], dt)
        got = sweep.integrate()
        cmp(res, cfg, 'integrate.pos', np.array([H.rd(v.pos) for v in got]), ip, sp_, label)
        cmp(res, cfg, 'integrate.vel', np.array([H.rd(v.vel) for v in got]), iv, sv_, label)
        sweep.update_nodes()
        Xn, Vn = H.read_part(L, M)
        cmp(res, cfg, 'update_nodes.u0_untouched', np.concatenate([Xn[0], Vn[0]]), np.concatenate([X[0], V[0]]), 0.0, label)
        cmp(res, cfg, 'update_nodes.pos', Xn[1:], ref['X'][1:], ref['scale'], label)
        cmp(res, cfg, 'update_nodes.vel', Vn[1:], ref['V'][1:], ref['scale'], label)
        En = np.array([H.rd(L.f[m].elec) for m in range(1, M + 1)])
        emax = float(np.max(np.abs(Emat)))
        cmp(res, cfg, 'update_nodes.f.elec', En, ref['Efield'][1:], ref['scale'] * 3 * emax, label)
        Fnew = (ref['X'] @ Emat.T + ref['V'] @ C.T)[1:]
        fsc = ref['scale'] * 3 * (emax + oB)
        xe, ve, sxe, sve = O.end_point_verlet(Q, w, X[0], V[0], Fnew, dt, None if TX is None else TX[-1], None if TV is None else TV[-1])
        sxe = max(sxe, dt * dt * float(np.sum(np.abs(w @ Q))) * fsc)
        sve = max(sve, abs(dt) * float(np.sum(np.abs(w))) * fsc)
        sweep.compute_end_point()
        cmp(res, cfg, 'end_point.quadrature.pos', H.rd(L.uend.pos), xe, sxe, label)
        cmp(res, cfg, 'end_point.quadrature.vel', H.rd(L.uend.vel), ve, sve, label)
    if len(res.samples) < 2:
        res.samples.append({**{k_: v for k_, v in cfg.items() if not k_.startswith('_')}, 'n_probes': len(probes)})


CASE_RUNNERS['verlet'] = run_verlet_case
CASE_RUNNERS['boris'] = run_boris_case


# ======================================================================================================================
# runner: DAE project sweepers on a stub linear constant-coefficient DAE  E u' = A u + g(t)
# ======================================================================================================================
from pySDC.core.errors import ParameterError  # noqa: E402
from pySDC.projects.DAE.sweepers.fullyImplicitDAE import FullyImplicitDAE  # noqa: E402
from pySDC.projects.DAE.sweepers.semiImplicitDAE import SemiImplicitDAE  # noqa: E402
import pySDC.projects.DAE.sweepers.rungeKuttaDAE as RKDAEmod  # noqa: E402

# flattened order (diff_0, diff_1, alg_0, alg_1)
DAE_A = [
    np.array([[-1.0, 0.5, 0.8, 0.0], [0.3, -2.0, 0.0, 1.1], [0.7, 0.0, -1.5, 0.4], [0.0, -0.6, 0.2, 2.0]]),
    np.array([[-0.4, 1.2, 0.0, 0.9], [0.0, -1.1, 0.6, 0.0], [0.5, 0.3, 1.8, -0.2], [-0.9, 0.0, 0.1, -1.3]]),
    np.array([[0.2, -0.8, 1.0, 0.3], [0.6, -0.9, 0.0, -0.7], [0.0, 1.4, -2.2, 0.5], [0.8, 0.0, -0.3, 1.6]]),
]
DAE_E = {
    'semi_explicit': np.diag([1.0, 1.0, 0.0, 0.0]),
    'singular_coupled': np.array([[1.0, 0.5, 0.0, 0.0], [0.0, 1.0, 0.3, 0.0], [0.0, 0.0, 1.0, 0.0], [0.0, 0.0, 0.0, 0.0]]),
    'regular': np.array([[2.0, 0.5, 0.0, 0.0], [0.0, 1.0, 0.3, 0.0], [0.2, 0.0, 1.5, 0.0], [0.0, 0.0, 0.4, 1.0]]),
}
DAE_G = [np.array([[0.3, -0.2, 0.5, 0.1], [1.0, 0.4, -0.7, 0.2], [-0.6, 0.9, 0.2, -0.3]]) * s for s in (1.0, -0.8, 0.6)]


def dae_probes(M, N, p, blocks):
    """basis over (u0 (N), dU_old (M x N)) restricted to `blocks` index lists; items (label, u0, dU)."""
    z0, zd = np.zeros(N), np.zeros((M, N))
    out = [('zero', z0.copy(), zd.copy())]
    allv = []
    for i in blocks['u0']:
        u = z0.copy()
        u[i] = 1.0
        out.append((f'u0[{i}]', u, zd.copy()))
        allv.append((u, zd.copy()))
    for m in range(M):
        for i in blocks['du']:
            d = zd.copy()
            d[m, i] = 1.0
            out.append((f'du_old[{m + 1},{i}]', z0.copy(), d))
            allv.append((z0.copy(), d))
    for si, wts in enumerate(SUMW[p]):
        u, d = z0.copy(), zd.copy()
        for j, (uj, dj) in enumerate(allv):
            wj = wts[j % len(wts)] * (1.0 + 0.1 * (j // len(wts)))
            u += wj * uj
            d += wj * dj
        out.append((f'sum{si}', u, d))
    return out


def mk_dae(P, vec):
    me = P.dtype_u(P.init)
    me[:] = np.asarray(vec, dtype=float).reshape(me.shape)
    return me


def run_dae_case(res, cfg):
    cfg['_seen'] = set()
    p, M, dt = cfg['pool'], cfg['M'], cfg['dt']
    t0 = T0S[p]
    res.cases += 1
    semi = cfg['sweeper'] == 'SemiImplicitDAE'
    cls = SemiImplicitDAE if semi else FullyImplicitDAE
    spec = {'cls': cls, 'slots': [('QI', False)]}
    predicted, info = oracle_slots(spec['slots'], cfg['names'], cfg['node_type'], cfg['quad_type'], M, None)
    E = DAE_E[cfg['op']]
    A, G = DAE_A[p], DAE_G[p]
    pp = {'E': E, 'A': A, 'g': G, 'nvars': 2}
    sp_params = {'num_nodes': M, 'node_type': cfg['node_type'], 'quad_type': cfg['quad_type'], **cfg['names']}
    left = cfg['quad_type'] in ('LOBATTO', 'RADAU-LEFT')
    if left and predicted == 'ok':
        # documented contract: quadrature types containing the left end point are refused with ParameterError
        try:
            H.build_level(stubs.LinearDAE, pp, cls, sp_params, dt, t0)
            flag(res, cfg, 'outcome.left_node_accepted', {'expected': 'ParameterError'})
        except ParameterError:
            res.outcomes['rejected_quadrature_type(documented)'] += 1
        return
    built = construct(res, cfg, spec, stubs.LinearDAE, pp, sp_params, dt, t0, predicted)
    if built is None:
        return
    S, L = built
    sweep, P, coll = L.sweep, L.prob, L.sweep.coll
    if not check_stored(res, cfg, sweep, {'slots': spec['slots'], 'attrs': ['QI']}, info):
        return
    nodes = np.array(coll.nodes, dtype=float)
    Q, w = O.lagrange_Q(nodes)
    if not check_Q(res, cfg, coll, Q, w):
        return
    QDf = padded(info, 'QI', False)
    N = 4
    g = lambda t: G[0] + G[1] * t + G[2] * t * t  # noqa: E731
    # singular node systems (zero diagonal of QD with singular E) are outside the sweeper's domain
    dmin = float(np.min(np.abs(np.diag(QDf)[1:])))
    for d in np.diag(QDf)[1:]:
        Jm = E - dt * d * A if not semi else np.block([[np.eye(2) - dt * d * A[:2, :2], -A[:2, 2:]], [-dt * d * A[2:, :2], -A[2:, 2:]]])
        if np.linalg.cond(Jm) > 1e10:
            res.outcomes['singular_node_system'] += 1
            return
    right = bool(coll.right_is_node)
    res.outcomes['checked'] += 1
    res.nontrivial += 1
    blocks = {'u0': [0, 1] if semi else [0, 1, 2, 3], 'du': [0, 1] if semi else [0, 1, 2, 3]}
    probes = dae_probes(M, N, p, blocks)
    junk = SUMW[p][1]
    for label, u0, dU in probes:
        L.u[0] = mk_dae(P, u0)
        L.f[0] = mk_dae(P, np.zeros(N))
        for m in range(1, M + 1):
            L.u[m] = mk_dae(P, [junk[(m + i) % len(junk)] for i in range(N)] if label.startswith('sum') else np.zeros(N))
            L.f[m] = mk_dae(P, dU[m - 1])
            L.tau[m - 1] = None
        L.status.unlocked = True
        if semi:
            ref = O.sweep_dae_semi_implicit(nodes, Q, QDf, A[:2, :2], A[:2, 2:], A[2:, :2], A[2:, 2:], lambda t: g(t)[:2], lambda t: g(t)[2:], dt, t0, u0[:2], dU[:, :2])
            gotI = np.array([H.rd(v.diff) for v in sweep.integrate()])
            iref, isc = O.integrate_first_order(Q, dU[:, :2], dt)
            cmp(res, cfg, 'integrate.diff', gotI, iref, isc, label)
            sweep.update_nodes()
            cmp(res, cfg, 'update_nodes.u0_untouched', H.rd(L.u[0]), u0, 0.0, label)
            cmp(res, cfg, 'update_nodes.f.diff', np.array([H.rd(L.f[m].diff) for m in range(1, M + 1)]), ref['dY'], ref['scale'], label)
            cmp(res, cfg, 'update_nodes.u.alg', np.array([H.rd(L.u[m].alg) for m in range(1, M + 1)]), ref['Z'], ref['scale'], label)
            cmp(res, cfg, 'update_nodes.u.diff', np.array([H.rd(L.u[m].diff) for m in range(1, M + 1)]), ref['Y'], ref['scale_y'], label)
            last = np.concatenate([ref['Y'][-1], ref['Z'][-1]])
            lsc = max(ref['scale'], ref['scale_y'])
        else:
            ref = O.sweep_dae_fully_implicit(nodes, Q, QDf, E, A, g, dt, t0, u0, dU)
            gotI = np.array([H.rd(v) for v in sweep.integrate()])
            iref, isc = O.integrate_first_order(Q, dU, dt)
            cmp(res, cfg, 'integrate', gotI, iref, isc, label)
            sweep.update_nodes()
            cmp(res, cfg, 'update_nodes.u0_untouched', H.rd(L.u[0]), u0, 0.0, label)
            cmp(res, cfg, 'update_nodes.f', np.array([H.rd(L.f[m]) for m in range(1, M + 1)]), ref['dU'], ref['scale_du'], label)
            cmp(res, cfg, 'update_nodes.u', np.array([H.rd(L.u[m]) for m in range(1, M + 1)]), ref['U'], ref['scale_u'], label)
            last = ref['U'][-1]
            lsc = ref['scale_u']
        if right:
            sweep.compute_end_point()
            cmp(res, cfg, 'end_point.copy', H.rd(L.uend), last, lsc, label)
        else:
            try:
                sweep.compute_end_point()
                flag(res, cfg, 'end_point.contract', {'expected': 'NotImplementedError (documented: needs right node)'})
            except NotImplementedError:
                res.evals += 1
    if len(res.samples) < 2:
        res.samples.append({**{k_: v for k_, v in cfg.items() if not k_.startswith('_')}, 'n_probes': len(probes)})


def rk_dae_classes():
    out = {}
    for name in sorted(dir(RKDAEmod)):
        obj = getattr(RKDAEmod, name)
        if isinstance(obj, type) and issubclass(obj, RKDAEmod.RungeKuttaDAE) and obj is not RKDAEmod.RungeKuttaDAE and obj.__module__ == RKDAEmod.__name__:
            out[name] = obj
    return out


def run_rk_dae_case(res, cfg):
    cfg['_seen'] = set()
    p, dt = cfg['pool'], cfg['dt']
    t0 = T0S[p]
    res.cases += 1
    cls = rk_dae_classes()[cfg['sweeper']]
    tab = tableau_of(cls)
    E = DAE_E[cfg['op']]
    A, G = DAE_A[p], DAE_G[p]
    g = lambda t: G[0] + G[1] * t + G[2] * t * t  # noqa: E731
    Ark = tab['A'][0]
    for d in np.diag(Ark):
        if np.linalg.cond(E - dt * d * A) > 1e10:
            res.outcomes['singular_stage_system'] += 1
            return
    S, L = H.build_level(stubs.LinearDAE, {'E': E, 'A': A, 'g': G, 'nvars': 2}, cls, {}, dt, t0)
    sweep, P = L.sweep, L.prob
    Sn, N = len(tab['c']), 4
    cmp(res, cfg, 'stored_matrix.QI', np.asarray(sweep.QI, dtype=float), O.pad(Ark), 1.0, c=0.0)
    res.outcomes['checked'] += 1
    res.nontrivial += 1
    probes = dae_probes(Sn, N, p, {'u0': [0, 1, 2, 3], 'du': []})
    junk = SUMW[p][1]
    for label, u0, _ in probes:
        ref = O.rk_dae_stages(tab['c'], Ark, E, A, g, dt, t0, u0)
        L.u[0] = mk_dae(P, u0)
        for m in range(0, Sn + 1):
            L.f[m] = mk_dae(P, [junk[(m + i) % len(junk)] for i in range(N)] if label.startswith('sum') else np.zeros(N))
            if m > 0:
                L.u[m] = mk_dae(P, np.zeros(N))
        L.status.unlocked = True
        L.status.sweep = 1
        sweep.update_nodes()
        cmp(res, cfg, 'update_nodes.u0_untouched', H.rd(L.u[0]), u0, 0.0, label)
        cmp(res, cfg, 'update_nodes.f', np.array([H.rd(L.f[m]) for m in range(1, Sn + 1)]), ref['dU'], ref['scale_du'], label)
        cmp(res, cfg, 'update_nodes.u', np.array([H.rd(L.u[m]) for m in range(1, Sn + 1)]), ref['U'], ref['scale_u'], label)
        sweep.compute_end_point()
        ew, esc = O.rk_combine(u0, tab['b'], [ref['dU']], dt)
        if tab['gsa_exact']:
            cmp(res, cfg, 'end_point.last_stage', H.rd(L.uend), ref['U'][-1], ref['scale_u'], label)
        elif not tab['gsa_close']:
            cmp(res, cfg, 'end_point.weights', H.rd(L.uend), ew, max(esc, ref['scale_u']), label)
    if len(res.samples) < 2:
        res.samples.append({**{k_: v for k_, v in cfg.items() if not k_.startswith('_')}, 'n_probes': len(probes)})


CASE_RUNNERS['dae'] = run_dae_case
CASE_RUNNERS['rk_dae'] = run_rk_dae_case


# ======================================================================================================================
# runner: linear multistep "sweepers" — alpha/beta recurrence over a short history including the start-up step
# ======================================================================================================================
import pySDC.implementations.sweeper_classes.Multistep as MSmod  # noqa: E402


def multistep_classes():
    out = {}
    for name in sorted(dir(MSmod)):
        obj = getattr(MSmod, name)
        if isinstance(obj, type) and issubclass(obj, MSmod.MultiStep) and obj is not MSmod.MultiStep and obj.__module__ == MSmod.__name__:
            out[name] = obj
    return out


NSTEPS_HISTORY = 4


def run_multistep_case(res, cfg):
    cfg['_seen'] = set()
    p, dt = cfg['pool'], cfg['dt']
    t0 = T0S[p]
    res.cases += 1
    cls = multistep_classes()[cfg['sweeper']]
    alpha, beta = list(cls.alpha), list(cls.beta)
    Nst = len(alpha)
    pc, pp, comps, n, dtype, _ = make_problem('single', cfg['op'], p)
    probes = basis_probes(1, n, False, dtype, p, blocks=('u0',))
    res.outcomes['checked'] += 1
    res.nontrivial += 1
    for label, Ufull, _ in probes:
        S, L = H.build_level(pc, pp, cls, {'num_nodes': 1}, dt, t0)
        sweep, P = L.sweep, L.prob
        split = [O.Split(A, g) for A, g in H.probe_splits(P, comps, n, (t0,))][0]
        u = np.array(Ufull[0], dtype=dtype)
        # oracle history (oldest first)
        us, fs, ts = [u], [split.A @ u + split.g1(t0)], [t0]
        t = t0
        for step in range(NSTEPS_HISTORY):
            L.status.time = t
            L.u[0] = H.mk_u(P, u)
            sweep.predict()
            sweep.update_nodes()
            sweep.compute_end_point()
            tn = t + dt
            if len(us) < Nst:
                # documented start-up of the 2-step Adams-Moulton scheme: one trapezoidal step
                xr, fr, sc = O.multistep_step([-1.0], [0.5, 0.5], us[-1:], fs[-1:], ts[-1:], tn, dt, split, dts=[dt])
                what = 'startup'
            else:
                xr, fr, sc = O.multistep_step(alpha, beta, us[-Nst:], fs[-Nst:], ts[-Nst:], tn, dt, split)
                what = 'recurrence'
            sc = sc * (1.0 + step)  # history values carry the rounding of the previous steps
            okk = cmp(res, cfg, f'update_nodes.u.{what}', H.rd(L.u[1]), xr, sc, f'{label}@step{step}')
            cmp(res, cfg, f'update_nodes.f.{what}', H.rd(L.f[1]), fr, sc * max(1.0, float(np.max(np.sum(np.abs(split.A), axis=1)))) + float(np.max(np.abs(fr))), f'{label}@step{step}')
            cmp(res, cfg, 'end_point.copy', H.rd(L.uend), xr, sc, f'{label}@step{step}')
            if not okk:
                break
            # continue from the implementation's own value (chains exactly like a run), oracle history follows it
            u = H.rd(L.uend)
            us.append(u)
            fs.append(split.A @ u + split.g1(tn))
            ts.append(tn)
            t = tn
    if len(res.samples) < 2:
        res.samples.append({**{k_: v for k_, v in cfg.items() if not k_.startswith('_')}, 'steps': NSTEPS_HISTORY, 'n_probes': len(probes)})


CASE_RUNNERS['multistep'] = run_multistep_case


# ======================================================================================================================
# runner: Runge-Kutta-Nystrom sweepers
# ======================================================================================================================
import pySDC.implementations.sweeper_classes.Runge_Kutta_Nystrom as RKNmod  # noqa: E402


def run_rkn_case(res, cfg):
    cfg['_seen'] = set()
    p, dt = cfg['pool'], cfg['dt']
    t0 = T0S[p]
    res.cases += 1
    if cfg['sweeper'] == 'RKN':
        cls = RKNmod.RKN
        pc, pp, n = make_problem_2nd('dense2nd', p)
        if cfg['op'] == 'dense2nd_autonomous':
            pp = {**pp, 'g': np.zeros((3, 3))}
        S, L = H.build_level(pc, pp, cls, {}, dt, t0)
        sweep, P, coll = L.sweep, L.prob, L.sweep.coll
        c = np.asarray(cls.nodes, dtype=float)
        A, Ab = np.asarray(cls.matrix, dtype=float), np.asarray(cls.matrix_bar, dtype=float)
        b, bb = np.asarray(cls.weights, dtype=float), np.asarray(cls.weights_bar, dtype=float)
        Sn = len(c)
        # "the weights are put in the last line of Q": one extra solution stage at c = 1
        ce = np.concatenate([c, [1.0]])
        Ae = np.zeros((Sn + 1, Sn + 1))
        Ae[:Sn, :Sn] = A
        Ae[Sn, :Sn] = b
        Abe = np.zeros((Sn + 1, Sn + 1))
        Abe[:Sn, :Sn] = Ab
        Abe[Sn, :Sn] = bb
        cmp(res, cfg, 'stored.nodes', np.asarray(coll.nodes, dtype=float), np.concatenate([[0.0], ce]), 1.0, c=0.0)
        cmp(res, cfg, 'stored_matrix.QI', np.asarray(sweep.QI, dtype=float), O.pad(Ae), 1.0, c=0.0)
        cmp(res, cfg, 'stored_matrix.Qx', np.asarray(sweep.Qx, dtype=float), O.pad(Abe), 1.0, c=0.0)
        K, D, g = probe_second_order(P, n, t0)
        M = Sn + 1
        res.outcomes['checked'] += 1
        res.nontrivial += 1
        z = np.zeros(n)
        items = [('zero', z, z)]
        for i in range(n):
            e = z.copy()
            e[i] = 1.0
            items += [(f'x0[{i}]', e, z), (f'v0[{i}]', z, e)]
        w1, w2 = SUMW[p]
        items += [('sum0', w1[:n], w1[n : 2 * n]), ('sum1', w2[:n], w2[n : 2 * n])]
        for label, x0, v0 in items:
            ref = O.rkn_stages(ce, Ae, Abe, K, g, dt, t0, x0, v0)
            X = np.zeros((M + 1, n))
            V = np.zeros((M + 1, n))
            X[0], V[0] = x0, v0
            if label.startswith('sum'):
                X[1:] = 0.37
                V[1:] = -1.2
            H.write_state_part(L, P, X, V, coll.nodes[1:], None, None)
            L.status.sweep = 1
            sweep.update_nodes()
            Xn, Vn = H.read_part(L, M)
            cmp(res, cfg, 'update_nodes.u0_untouched', np.concatenate([Xn[0], Vn[0]]), np.concatenate([x0, v0]), 0.0, label)
            # stage by stage, first deviation only (later stages inherit it): force f_i = K X_i + g(t0 + c_i dt)
            Fn = np.array([H.rd(L.f[m]) for m in range(1, M)])
            fs_ = ref['scale_f']
            okk = True
            for i in range(M):
                okk = okk and cmp(res, cfg, 'update_nodes.stage_values', Xn[1 + i], ref['X'][i], ref['scale_x'], f'{label}/stage{i + 1}/pos')
                okk = okk and cmp(res, cfg, 'update_nodes.stage_values', Vn[1 + i], ref['V'][i], ref['scale_v'], f'{label}/stage{i + 1}/vel')
                if i < M - 1:
                    okk = okk and cmp(res, cfg, 'update_nodes.stage_values', Fn[i], ref['F'][i], fs_, f'{label}/stage{i + 1}/f(X_i, t0 + c_i dt)')
                if not okk:
                    break
            if not okk:
                continue
            sweep.compute_end_point()
            cmp(res, cfg, 'end_point.last_stage', np.concatenate([H.rd(L.uend.pos), H.rd(L.uend.vel)]), np.concatenate([ref['X'][-1], ref['V'][-1]]), max(ref['scale_x'], ref['scale_v']), label)
    else:  # Velocity_Verlet on the Penning trap: x1 = x0 + dt v0 + dt^2/2 f0 ; v1 = v0 + dt/2 (f(x0,v0) + f(x1,v1))
        cls = RKNmod.Velocity_Verlet
        pc, pp, n = make_problem_2nd('penning', p)
        S, L = H.build_level(pc, pp, cls, {}, dt, t0)
        sweep, P, coll = L.sweep, L.prob, L.sweep.coll
        oB, oE = OMEGAS[p]
        Emat = oE**2 * np.diag([1.0, 1.0, -2.0])
        C = O.cross_matrix([0.0, 0.0, oB])
        M = coll.num_nodes
        res.outcomes['checked'] += 1
        res.nontrivial += 1
        z = np.zeros(n)
        items = [('zero', z, z)]
        for i in range(n):
            e = z.copy()
            e[i] = 1.0
            items += [(f'x0[{i}]', e, z), (f'v0[{i}]', z, e)]
        w1, w2 = SUMW[p]
        items += [('sum0', w1[:n], w1[n : 2 * n]), ('sum1', w2[:n], w2[n : 2 * n])]
        for label, x0, v0 in items:
            f0 = Emat @ x0 + C @ v0
            x1 = x0 + dt * v0 + 0.5 * dt * dt * f0
            LHS = np.eye(3) - 0.5 * dt * C
            rhs = v0 + 0.5 * dt * (f0 + Emat @ x1)
            v1 = np.linalg.solve(LHS, rhs)
            sx = float(np.max(np.abs(x0) + abs(dt) * np.abs(v0) + 0.5 * dt * dt * (np.abs(Emat) @ np.abs(x0) + np.abs(C) @ np.abs(v0))))
            sv = float(np.max(np.abs(np.linalg.inv(LHS)) @ (np.abs(v0) + 0.5 * abs(dt) * (np.abs(Emat) @ (np.abs(x0) + np.abs(x1)) + np.abs(C) @ (np.abs(v0) + np.abs(v1)))))) + sx * 0.5 * abs(dt) * float(np.max(np.abs(Emat)))
            X = np.zeros((M + 1, n))
            V = np.zeros((M + 1, n))
            X[0], V[0] = x0, v0
            H.write_state_part(L, P, X, V, coll.nodes[1:], None, None)
            L.status.sweep = 1
            sweep.update_nodes()
            sweep.compute_end_point()
            cmp(res, cfg, 'end_point.pos', H.rd(L.uend.pos), x1, max(sx, 1e-300), label)
            cmp(res, cfg, 'end_point.vel', H.rd(L.uend.vel), v1, max(sv, 1e-300), label)
    if len(res.samples) < 2:
        res.samples.append({k_: v for k_, v in cfg.items() if not k_.startswith('_')})


CASE_RUNNERS['rkn'] = run_rkn_case


# ======================================================================================================================
# runner: diagonalisation sweepers (ParaDiag), one-sweep algebra only
# ======================================================================================================================
from pySDC.implementations.sweeper_classes.ParaDiagSweepers import QDiagonalization, QDiagonalizationIMEX  # noqa: E402

GINV = {
    'identity': lambda M, p: np.eye(M),
    'lower_shift': lambda M, p: np.eye(M) + (0.3 + 0.1 * p) * np.eye(M, k=-1),
    'dense': lambda M, p: np.eye(M) + 0.2 * np.fromfunction(lambda i, j: np.cos(1.0 + i + 2 * j + p), (M, M)),
}


def run_qdiag_case(res, cfg):
    cfg['_seen'] = set()
    p, M, dt = cfg['pool'], cfg['M'], cfg['dt']
    t0 = T0S[p]
    res.cases += 1
    imex = cfg['sweeper'] == 'QDiagonalizationIMEX'
    cls = QDiagonalizationIMEX if imex else QDiagonalization
    if cfg['op'] == 'scalars':
        pc, pp, comps, n, dtype, _ = make_problem('imex' if imex else 'single', 'scalars', p)
    else:
        if imex:
            pc, pp, comps, n, dtype = stubs.LinearDenseIMEX, {'AI': DENSE_A[p], 'AE': DENSE_B[p], 'dtype': 'complex128'}, ['impl', 'expl'], 3, complex
        else:
            pc, pp, comps, n, dtype = stubs.LinearDense, {'A': DENSE_A[p], 'dtype': 'complex128'}, [None], 3, complex
    try:
        Ginv = GINV[cfg['ginv']](M, p)
        S, L = H.build_level(pc, pp, cls, {'num_nodes': M, 'node_type': cfg['node_type'], 'quad_type': cfg['quad_type'], 'G_inv': Ginv, 'update_f_evals': True, 'ignore_ic': cfg['ignore_ic']}, dt, t0)
    except Exception as e:
        c0 = O.qd_coeffs('IE', cfg['node_type'], cfg['quad_type'], M)
        if c0['status'] != 'ok':
            res.outcomes['generator_unavailable'] += 1
        else:
            flag(res, cfg, 'outcome.construction', {'error': f'{type(e).__name__}: {str(e)[:300]}'})
        return
    sweep, P, coll = L.sweep, L.prob, L.sweep.coll
    nodes = np.array(coll.nodes, dtype=float)
    Q, w = O.lagrange_Q(nodes)
    if not check_Q(res, cfg, coll, Q, w):
        return
    splits = [O.Split(A, g) for A, g in H.probe_splits(P, comps, n, (t0,))]
    A = splits[0].A  # the part solve_jacobian inverts (IMEX: the implicit part)
    res.outcomes['checked'] += 1
    res.nontrivial += 1
    probes = basis_probes(M, n, False, dtype, p, blocks=('uold',) if cfg['ignore_ic'] else ('u0',))
    times = [t0] + [t0 + dt * c for c in nodes]
    for label, Ufull, _ in probes:
        if cfg['ignore_ic']:
            R = np.array(Ufull[1:], dtype=complex)  # the node-local residual handed to the sweeper
            Uw = np.zeros_like(Ufull)
            Uw[1:] = 0.5  # node values must not enter the solves
            Uw[0] = -0.25
        else:
            R = np.tile(np.asarray(Ufull[0], dtype=complex), (M, 1))
            Uw = np.array(Ufull)
            Uw[1:] = 0.5
        try:
            Y, sc = O.sweep_qdiag(Q, Ginv, A, dt, R)
        except np.linalg.LinAlgError:
            res.outcomes['singular_system_probe'] += 1
            continue
        H.write_state(L, P, Uw, nodes, None)
        for m in range(M):
            L.residual[m] = H.mk_u(P, R[m]) if cfg['ignore_ic'] else None
            L.increment[m] = None
        sweep.update_nodes()
        if cfg['ignore_ic']:
            got = np.array([H.rd(L.increment[m]) for m in range(M)])
            cmp(res, cfg, 'update_nodes.increment', got, Y, sc, label)
            cmp(res, cfg, 'update_nodes.u_untouched', H.read_u(L, M), Uw, 0.0, label)
            Unew = np.array(Uw, dtype=complex)
        else:
            got = H.read_u(L, M)
            cmp(res, cfg, 'update_nodes.u', got[1:], Y, sc, label)
            cmp(res, cfg, 'update_nodes.u0_untouched', got[0], Uw[0], 0.0, label)
            Unew = np.vstack([np.asarray(Uw[0], dtype=complex)[None, :], Y])
        for comp, s in zip(comps, splits):
            Fr = s.F(Unew, times)
            cmp(res, cfg, 'update_nodes.f' + ('' if comp is None else '.' + comp), H.read_f(L, M, comp)[1:], Fr[1:], sc * max(1.0, float(np.max(np.sum(np.abs(s.A), axis=1)))) + float(np.max(np.abs(Fr))), label)
        Fsum = sum(s.F(Unew, times) for s in splits)[1:]
        iref, isc = O.integrate_first_order(Q, Fsum, dt)
        cmp(res, cfg, 'integrate.after_sweep', np.array([H.rd(v) for v in sweep.integrate()]), iref, isc + abs(dt) * sc * float(np.max(np.sum(np.abs(A), axis=1))), label)
    if len(res.samples) < 2:
        res.samples.append({**{k_: v for k_, v in cfg.items() if not k_.startswith('_')}, 'n_probes': len(probes)})


CASE_RUNNERS['qdiag'] = run_qdiag_case


# ======================================================================================================================
# the enumerated space
# ======================================================================================================================
ALL_FAMILIES = [(nt, qt) for nt in NODE_TYPES for qt in QUAD_TYPES]
LEG = [('LEGENDRE', qt) for qt in QUAD_TYPES]
KS_DEP = [None, 1, 2, 3]


def distinct_generators():
    """one name per distinct qmat generator class (the class name itself is a registered key)."""
    seen = []
    for nm in O.qd_names():
        c = O.qd_class_of(nm)
        if c not in seen:
            seen.append(c)
    return sorted(seen)


def ks_for(names):
    return KS_DEP if any(O.qd_is_kdep(n) for n in names.values()) else [None]


def fo_units(sweeper, name_sets, families, Ms, ops, dts=DTS, taus=(False, True), coeff_only=False, dts_other=None, full_node_types=('LEGENDRE', 'EQUID')):
    """dts_other: reduced dt list for node types outside full_node_types (None = same as dts)."""
    units = []
    for names in name_sets:
        for nt, qt in families:
            for M in Ms:
                d = dts if (dts_other is None or nt in full_node_types) else dts_other
                u = dict(family='first_order', sweeper=sweeper, names=dict(names), node_type=nt, quad_type=qt, M=M, pool=pool(), ops=list(ops), dts=list(d), taus=list(taus), ks=ks_for(names))
                if coeff_only:
                    u['coeff_only'] = True
                units.append(u)
    return units


def gen_units(family, cases, chunk):
    return [dict(family=family, cases=cases[i : i + chunk]) for i in range(0, len(cases), chunk)]


def plan(tier):
    p = pool()
    G = distinct_generators()
    ALLN = O.qd_names()
    EXPL_OK = ['FE', 'PIC', 'SOE']
    CORE_I = ['BE', 'LU', 'MIN_SR_S', 'MIN_SR_FLEX', 'PIC', 'TRAP']
    units = []
    desc = []
    thorough = tier == 'thorough'
    Mq = (1, 2, 3)
    Mt = (1, 2, 3, 4, 5)

    def add(label, us):
        desc.append({'space': label, 'units': len(us)})
        for u in us:
            u['label'] = label
        units.extend(us)

    # ---- layer A: every registered name x every family x M, both slot kinds: outcome taxonomy + stored matrices (all k)
    MA = (1, 2, 3, 4, 5, 6, 7) if thorough else (1, 2, 3, 4)
    add('A: coefficients, generic_implicit.QI, all 53 names x 24 families x M', fo_units('generic_implicit', [{'QI': n} for n in ALLN], ALL_FAMILIES, MA, ['scalars'], [0.1], [False], coeff_only=True))
    add('A: coefficients, explicit.QE, all 53 names x 24 families x M', fo_units('explicit', [{'QE': n} for n in ALLN], ALL_FAMILIES, MA, ['scalars'], [0.1], [False], coeff_only=True))
    # ---- layer B: sweep algebra with the full input basis
    O3 = ['scalars', 'dense3', 'heat3']
    O2 = ['scalars', 'dense3']
    D2 = [0.1, 7.5]
    L3 = [('LEGENDRE', q) for q in ('GAUSS', 'LOBATTO', 'RADAU-RIGHT')]
    if not thorough:
        add('B: generic_implicit, core generators x LEGENDRE x 4 quad x M in {2,3} x {scalars,dense3} x 4 dt x tau', fo_units('generic_implicit', [{'QI': g} for g in CORE_I], LEG, (2, 3), O2))
        add('B: generic_implicit, other 20 generators x LEGENDRE x 4 quad x M in {2,3} x {scalars,dense3} x dt {0.1,7.5} x tau', fo_units('generic_implicit', [{'QI': g} for g in G if g not in CORE_I], LEG, (2, 3), O2, D2))
        add('B: generic_implicit, core generators x LEGENDRE x 4 quad x M<=3 x heat3 x 4 dt x tau', fo_units('generic_implicit', [{'QI': g} for g in CORE_I], LEG, Mq, ['heat3']))
        add('B: generic_implicit, core generators x other 20 families x M=2 x 3 ops x dt {0.1,7.5} x tau', fo_units('generic_implicit', [{'QI': g} for g in CORE_I], [f for f in ALL_FAMILIES if f not in LEG], (2,), O3, D2))
        add('B: explicit, all generators x {LEGENDRE,EQUID} x 4 quad x M<=3 x {scalars,dense3} x dt {0.1,7.5} x tau', fo_units('explicit', [{'QE': g} for g in G], [f for f in ALL_FAMILIES if f[0] in ('LEGENDRE', 'EQUID')], Mq, O2, D2))
        add('B: explicit, {FE,PIC,SOE} x LEGENDRE x 4 quad x M=2 x heat3 x 4 dt x tau', fo_units('explicit', [{'QE': g} for g in EXPL_OK], LEG, (2,), ['heat3']))
        add('B: imex_1st_order, core QI x {FE,PIC,SOE} x LEGENDRE x {GAUSS,LOBATTO,RADAU-RIGHT} x M in {2,3} x {scalars,dense3} x dt {0.1,7.5} x tau', fo_units('imex_1st_order', [{'QI': a, 'QE': b} for a in CORE_I for b in EXPL_OK], L3, (2, 3), O2, D2))
        add('B: imex_1st_order, core QI x {FE,PIC,SOE} x LEGENDRE RADAU-RIGHT x M=2 x heat3(forced) x 4 dt x tau', fo_units('imex_1st_order', [{'QI': a, 'QE': b} for a in CORE_I for b in EXPL_OK], [('LEGENDRE', 'RADAU-RIGHT')], (2,), ['heat3']))
        add('B: imex_1st_order_mass, {BE,LU,MIN_SR_FLEX} x {FE,PIC} x LEGENDRE x {GAUSS,LOBATTO,RADAU-RIGHT} x M in {2,3} x dt {0.1,7.5}', fo_units('imex_1st_order_mass', [{'QI': a, 'QE': b} for a in ('BE', 'LU', 'MIN_SR_FLEX') for b in ('FE', 'PIC')], L3, (2, 3), O2, D2))
        mi = [{'Q1': a, 'Q2': b} for a in ('BE', 'LU', 'PIC') for b in ('BE', 'LU', 'PIC')] + [{'Q1': 'MIN_SR_FLEX', 'Q2': 'BE'}, {'Q1': 'BE', 'Q2': 'MIN_SR_FLEX'}, {'Q1': 'MIN_SR_FLEX', 'Q2': 'Jumper'}, {'Q1': 'Jumper', 'Q2': 'MIN_SR_FLEX'}, {'Q1': 'FlexJumper', 'Q2': 'Jumper'}]  # the last three: two DIFFERENT sweep-dependent generators on one sweeper
        add('B: multi_implicit, 3x3 generators (+5 with k-dependent ones) x LEGENDRE x {GAUSS,LOBATTO,RADAU-RIGHT} x M in {2,3} x dt {0.1,7.5}', fo_units('multi_implicit', mi, L3, (2, 3), O2, D2))
    else:
        add('B: generic_implicit, all generators x 24 families x M<=4 x 3 ops x dt (4; non-LEGENDRE: {0.1,7.5}) x tau', fo_units('generic_implicit', [{'QI': g} for g in G], ALL_FAMILIES, (1, 2, 3, 4), O3, dts_other=D2, full_node_types=('LEGENDRE',)))
        add('B: generic_implicit, all generators x LEGENDRE x 4 quad x M=5', fo_units('generic_implicit', [{'QI': g} for g in G], LEG, (5,), O3))
        add('B: explicit, all generators x 24 families x M<=5 x dt (4; non-LEGENDRE: {0.1,7.5})', fo_units('explicit', [{'QE': g} for g in G], ALL_FAMILIES, Mt, O3, dts_other=D2, full_node_types=('LEGENDRE',)))
        add('B: imex_1st_order, all QI generators x FE x 24 families x M<=3', fo_units('imex_1st_order', [{'QI': a, 'QE': 'FE'} for a in G], ALL_FAMILIES, Mq, O3, dts_other=D2, full_node_types=('LEGENDRE',)))
        add('B: imex_1st_order, core QI x {PIC,SOE} x 24 families x M<=3', fo_units('imex_1st_order', [{'QI': a, 'QE': b} for a in CORE_I for b in ('PIC', 'SOE')], ALL_FAMILIES, Mq, O3, dts_other=D2, full_node_types=('LEGENDRE',)))
        add('B: imex_1st_order, {BE,LU} x all other QE generators (rejections) x LEGENDRE x 4 quad x M in {2,3}', fo_units('imex_1st_order', [{'QI': a, 'QE': b} for a in ('BE', 'LU') for b in G if b not in EXPL_OK], LEG, (2, 3), O2, [0.1]))
        add('B: imex_1st_order_mass, core QI x {FE,PIC,SOE} x 24 families x M in {2,3}', fo_units('imex_1st_order_mass', [{'QI': a, 'QE': b} for a in CORE_I for b in EXPL_OK], ALL_FAMILIES, (2, 3), O2, dts_other=D2, full_node_types=('LEGENDRE',)))
        cm = ['BE', 'LU', 'PIC', 'MIN_SR_FLEX', 'Jumper']
        add('B: multi_implicit, 5x5 generators x 24 families x M<=3', fo_units('multi_implicit', [{'Q1': a, 'Q2': b} for a in cm for b in cm], ALL_FAMILIES, Mq, O2, dts_other=D2, full_node_types=('LEGENDRE',)))

    def cases(family, sweeper, **dims):
        keys = list(dims)
        out = []
        for vals in itertools.product(*[dims[k] for k in keys]):
            c = dict(family=family, sweeper=sweeper, names={}, node_type=None, quad_type=None, M=0, tau=False, k=None, pool=p)
            c.update(dict(zip(keys, vals)))
            if 'fam' in c:
                c['node_type'], c['quad_type'] = c.pop('fam')
            out.append(c)
        return out

    # ---- Runge-Kutta classes
    rk = []
    for nm in rk_classes():
        rk += cases('rk', nm, op=O3, dt=DTS)
    add('B: every RungeKutta / RungeKuttaIMEX class x 3 ops x 4 dt', gen_units('rk', rk, 12))
    # ---- second order
    if not thorough:
        vn = [{'QI': 'BE', 'QE': 'FE'}, {'QI': 'LU', 'QE': 'FE'}, {'QI': 'TRAP', 'QE': 'PIC'}, {'QI': 'MIN_SR_S', 'QE': 'FE'}, {'QI': 'PIC', 'QE': 'PIC'}]
    else:
        vn = [{'QI': a, 'QE': b} for a in CORE_I for b in EXPL_OK]
    vf = [('LEGENDRE', q) for q in QUAD_TYPES] + [('EQUID', 'LOBATTO'), ('CHEBY-2', 'GAUSS')] if not thorough else ALL_FAMILIES
    vc = []
    vc += [dict(c, k=kk) for kk in (1, 2, 3) for c in cases('verlet', 'verlet', names=[{'QI': 'MIN_SR_FLEX', 'QE': 'FE'}], fam=[('LEGENDRE', 'RADAU-RIGHT')], M=(2,), op=['harmonic'], dt=[0.1], tau=[False])]
    for names in vn:
        vc += cases('verlet', 'verlet', names=[names], fam=vf, M=(2, 3), op=['harmonic', 'dense2nd'], dt=[0.1, 7.5], tau=[False, True])
    if thorough:
        vc += cases('verlet', 'verlet', names=[{'QI': 'BE', 'QE': 'FE'}, {'QI': 'LU', 'QE': 'PIC'}], fam=LEG, M=(1, 2, 3, 4), op=['harmonic', 'dense2nd'], dt=[1e-3, 1.0], tau=[False, True])
    add('B: verlet, QI x QE generators x families x M x {harmonic_oscillator, dense 3-dof stub} x dt x tau', gen_units('verlet', vc, 8))
    bn = [{'QI': 'BE', 'QE': 'FE'}] + ([{'QI': 'LU', 'QE': 'PIC'}, {'QI': 'TRAP', 'QE': 'FE'}] if thorough else [])
    bc = []
    for names in bn:
        bc += cases('boris', 'boris_2nd_order', names=[names], fam=vf, M=(2, 3) if not thorough else (1, 2, 3, 4), op=['penning'], dt=DTS if thorough else [0.1, 7.5], tau=[False, True])
    add('B: boris_2nd_order on the single-particle Penning trap (B != 0), default IE/EE pair', gen_units('boris', bc, 8))
    # ---- DAE
    dn = [{'QI': g} for g in (['BE', 'LU', 'MIN_SR_S', 'PIC', 'MIN_SR_FLEX'] if not thorough else G)]
    dfam = [('LEGENDRE', 'RADAU-RIGHT'), ('LEGENDRE', 'GAUSS'), ('EQUID', 'RADAU-RIGHT'), ('LEGENDRE', 'LOBATTO'), ('LEGENDRE', 'RADAU-LEFT')] if not thorough else ALL_FAMILIES
    dc = []
    for names in dn:
        dc += cases('dae', 'FullyImplicitDAE', names=[names], fam=dfam, M=(1, 2, 3), op=['semi_explicit', 'singular_coupled', 'regular'], dt=DTS)
        dc += cases('dae', 'SemiImplicitDAE', names=[names], fam=dfam, M=(1, 2, 3), op=['semi_explicit'], dt=DTS)
    add('B: FullyImplicitDAE / SemiImplicitDAE on the stub linear DAE', gen_units('dae', dc, 24))
    rd_ = []
    for nm in rk_dae_classes():
        rd_ += cases('rk_dae', nm, op=['semi_explicit', 'singular_coupled', 'regular'], dt=DTS)
    add('B: rungeKuttaDAE classes on the stub linear DAE', gen_units('rk_dae', rd_, 12))
    # ---- multistep, RKN, ParaDiag
    ms = []
    for nm in multistep_classes():
        ms += cases('multistep', nm, M=[1], op=O3, dt=DTS)
    add('B: MultiStep classes, 4-step history', gen_units('multistep', ms, 12))
    rn = cases('rkn', 'RKN', op=['dense2nd_autonomous', 'dense2nd'], dt=DTS) + cases('rkn', 'Velocity_Verlet', op=['penning'], dt=DTS)
    add('B: Runge-Kutta-Nystrom classes', gen_units('rkn', rn, 4))
    qc = []
    for nm in ('QDiagonalization', 'QDiagonalizationIMEX'):
        qc += cases('qdiag', nm, fam=[('LEGENDRE', 'RADAU-RIGHT'), ('LEGENDRE', 'GAUSS'), ('EQUID', 'LOBATTO')] if not thorough else ALL_FAMILIES, M=(2, 3) if not thorough else (1, 2, 3, 4), op=O2, dt=DTS, ginv=list(GINV), ignore_ic=[True, False])
    add('B: QDiagonalization(IMEX) one-sweep algebra, ignore_ic both ways, 3 G^-1', gen_units('qdiag', qc, 24))
    return units, desc


def run_unit(unit):
    if unit['family'] == 'first_order':
        if unit.get('coeff_only'):
            common.silence_logging()
            res = Res()
            for k in unit['ks']:
                cfg = {kk: unit[kk] for kk in ('family', 'sweeper', 'names', 'node_type', 'quad_type', 'M', 'pool')}
                cfg.update(op=unit['ops'][0], dt=unit['dts'][0], tau=False, k=k, coeff_only=True)
                try:
                    run_first_order_case(res, cfg)
                except Exception as e:
                    cfg.setdefault('_seen', set())
                    flag(res, cfg, 'exception', {'error': f'{type(e).__name__}: {str(e)[:300]}'})
            r = res
        else:
            r = run_first_order_unit(unit)
    else:
        r = run_generic_unit(unit)
    return unit['label'], r


NOT_COVERED = [
    'generic_implicit_MPI / imex_1st_order_MPI / fullyImplicitDAEMPI / semiImplicitDAEMPI (need mpi4py; serial counterparts covered)',
    'verlet / RKN with velocity-dependent forces (harmonic_oscillator mu != 0): the sweeper treats the velocity dependence explicitly, the property defines no matrix form for it',
    'boris_2nd_order with QI/QE pairs other than those for which ST[m+1,m] = ST[m+1,m+1] = QI[m+1,m+1]/2 (counted as boris_velocity_form_not_defined_by_ST): the velocity line is a hard-wired trapezoidal Boris solve',
    'rungeKuttaDAE classes with an explicit first stage (TrapezoidalRuleDAE, EDIRK4DAE) on singular E: the stage system E U\' = ... is singular (counted singular_stage_system); covered on the regular-E stub',
    'DAE sweepers: tau is not supported by these sweepers (they never read L.tau)',
    'QDiagonalization: tau raises NotImplementedError by design; only the one-sweep algebra is checked here (C15 covers ParaDiag)',
    'nonlinear problems (the sweep is only checked where it is linear in its inputs)',
]


def run(rep, tier):
    rep.assumptions += [
        'the problem objects (testequation0d, test_equation_IMEX, heatNd_(un)forced, harmonic_oscillator, penningtrap, stubs in vf/env/stubs.py) are environment: their operator is extracted by probing eval_f on unit vectors and their solve_system is trusted to solve (I - factor A) u = rhs',
        'node positions are read from sweeper.coll.nodes; Q and the weights are rebuilt from them by exact polynomial integration (mpmath) and cross-checked against coll.Qmat / coll.weights',
        'preconditioner coefficients come from qmat generators instantiated by the oracle on its own qmat Collocation object; qmat is third-party, not code under test',
        'Runge-Kutta / multistep tableaux are read from the class attributes (their correctness is C04)',
        'a second Level constructed with do_coll_update=True receives the swept node values of the first one for the quadrature end point',
        'VERIF_SEED selects one of 3 fixed pools of generic data (lambdas, dense matrices, forcing, t0, sum weights) and permutes the unit order',
    ]
    # compile numba kernels of the Penning trap before forking
    try:
        pc, pp, n = make_problem_2nd('penning', 0)
        P0 = pc(**pp)
        P0.eval_f(H.mk_part(P0, np.ones(3), np.ones(3)), 0.0)
    except Exception:
        pass
    units, desc = plan(tier)
    order = list(range(len(units)))
    common.rng('c02').shuffle(order)
    t0 = time.time()
    total = Res()
    per = collections.defaultdict(Res)
    for label, r in common.pimap_unordered(run_unit, [units[i] for i in order], chunksize=2):
        total.merge(r)
        per[label].merge(r)
    # ---- violations: one per distinct cause (sweeper, check, generator classes, k-dependence), the simplest case each
    groups = collections.defaultdict(list)
    for v in total.viols:
        groups[v['group']].append(v)
    for gkey in sorted(groups, key=lambda g: str(g)):
        vs = sorted(groups[gkey], key=lambda v: v['order'])
        v = vs[0]
        cfg = v['cfg']
        sig = {
            'sweeper': cfg['sweeper'],
            'check': v['check'],
            'k_dependent_refresh': cfg.get('k') is not None,
            # construction-level checks do not depend on operator / dt / tau: keep the signature identical across tiers
            'simplest_case': {kk: cfg.get(kk) for kk in (('names', 'node_type', 'quad_type', 'M', 'k') if v['check'].startswith(('stored', 'outcome', 'coll.')) else ('names', 'node_type', 'quad_type', 'M', 'op', 'dt', 'tau', 'k')) if cfg.get(kk) is not None or kk == 'k'},
        }
        det = dict(v['detail'])
        det['failing_cases_in_group'] = len(vs)
        det['generator_classes_affected'] = sorted({str(dict(x['gens'])) for x in vs})[:30]
        rep.violation(sig, det, {'cfg': cfg, 'check': v['check']})
    cov = rep.coverage
    cov['evaluations'] = int(total.evals)
    cov['configurations'] = int(total.cases)
    cov['distinct_nontrivial'] = int(total.nontrivial)
    cov['rule'] = (
        'a case = (sweeper class, preconditioner name(s), node family, M, operator, dt, tau, sweep index k); every case of the stated '
        'products is enumerated once (no duplicates by construction) and evaluated on a full basis of its input space (unit vector in '
        'every (node, dof) slot of U_old, u0, tau; zero input; two sums); evaluations = float comparisons against the oracle; '
        'distinct_nontrivial = number of enumerated cases that ended in class "checked" and whose oracle iteration matrix really '
        'depends on U_old (Q != QD) or, for direct solvers, on u0'
    )
    cov['exhaustive'] = True
    cov['outcome_classes'] = dict(total.outcomes)
    cov['worst_err_over_tol'] = total.worst
    cov['worst_headroom'] = (1.0 / total.worst) if total.worst > 0 else None
    cov['worst_where'] = total.worst_where
    cov['tolerance'] = f'|impl - ref| <= {C_TOL} * eps * scale, scale from the oracle (block forward-substitution bound); stored matrices {C_MAT} * eps * max|coeff|; Q vs own Lagrange integration {C_Q} * eps * scale'
    cov['bounds_completed'] = [
        {**d, 'cases': per[d['space']].cases, 'comparisons': per[d['space']].evals, 'outcomes': dict(per[d['space']].outcomes), 'worst_err_over_tol': per[d['space']].worst}
        for d in desc
    ]
    cov['dimensions'] = {
        'names': len(O.qd_names()),
        'distinct_generators': len(distinct_generators()),
        'families': len(ALL_FAMILIES),
        'dt': DTS,
        'rk_classes': sorted(rk_classes()),
        'rk_dae_classes': sorted(rk_dae_classes()),
        'multistep_classes': sorted(multistep_classes()),
        'pool': pool(),
    }
    cov['not_covered'] = NOT_COVERED
    cov['samples'] = total.samples[:6]
    cov['enumeration_wall_s'] = round(time.time() - t0, 2)


def replay(rep, case):
    cfg = dict(case['cfg'])
    res = Res()
    fam = cfg.get('family', 'first_order')
    if fam == 'first_order':
        run_first_order_case(res, cfg)
    else:
        CASE_RUNNERS[fam](res, cfg)
    hits = [v for v in res.viols if v['check'] == case.get('check')] or res.viols
    for v in hits:
        if True:
            rep.violation({'sweeper': cfg['sweeper'], 'check': v['check'], 'case': {k: cfg.get(k) for k in ('names', 'node_type', 'quad_type', 'M', 'op', 'dt', 'tau', 'k')}}, v['detail'], case)
