"""History-based clause checkers shared by C06 / C09 / C14 (run inside the worker on the finished execution `cur`).

Everything is derived from the independent recorder hook (vf.env.block.Recorder), i.e. from what the controller really
did, and compared with what the property statement promises.
"""

import math

import numpy as np

RESTOL_H = 0.5  # the residual tolerance of the scripted harness (vf.env.block.RESTOL)


def blocks_of(cur):
    """-> list of blocks; block = list of attempts (dict) in slot order."""
    by = {}
    for a in cur.attempts:
        by.setdefault(a['block'], []).append(a)
    return [sorted(by[b], key=lambda a: a['slot']) for b in sorted(by)]


def first_restart(blk):
    for i, a in enumerate(blk):
        if 'post' in a and a['post']['restart']:
            return i
    return None


def failed_attempts_before(blks, bi):
    """Number of immediately preceding consecutive blocks in which the start time of block bi's first step was already
    attempted and flagged for restart (= how often that step has been retried in a row so far)."""
    t = blks[bi][0]['time']
    n = 0
    for bj in range(bi - 1, -1, -1):
        if any(a['time'] == t and 'post' in a and a['post']['restart'] for a in blks[bj]):
            n += 1
        else:
            break
    return n


def accepted_chain(cur):
    """Accepted attempts in execution order. An attempt is accepted iff it is not flagged restart at post_step and
    no earlier step of its block is (steps after a restarted one are recomputed)."""
    acc = []
    for blk in blocks_of(cur):
        r = first_restart(blk)
        for i, a in enumerate(blk):
            if 'post' not in a:
                continue
            if r is None or i < r:
                acc.append(a)
    return acc


# ------------------------------------------------------------------------------------------------------------
# C06: tiling and value chaining
# ------------------------------------------------------------------------------------------------------------
def check_tiling(cur):
    cfg = cur.cfg
    if cur.outcome0 is None or cur.outcome0[0] in ('horizon', 'exc', 'nothing_to_do'):
        return
    blks = blocks_of(cur)
    if not blks:
        cur.v('no_steps')
        return
    acc = accepted_chain(cur)
    Tend = cur.Tend
    t0 = cfg['t0']
    for blk in blks:
        for a in blk:
            if not (a['time'] < Tend):
                cur.v('step_starts_at_or_beyond_Tend', time=a['time'], Tend=Tend, block=a['block'], slot=a['slot'])
    if acc:
        a0 = acc[0]
        if a0['time'] != t0:
            cur.v('first_step_not_at_t0', time=a0['time'], t0=t0)
        if a0['pre']['u0'] != cur.u0_bytes:
            cur.v('first_u0_differs_from_caller')
        if a0['pre']['u0_id'] == id(cur.u0_obj):
            cur.v('first_u0_is_callers_object')
    first_of_run = blks[0][0]
    if first_of_run['time'] != t0:
        cur.v('first_attempt_not_at_t0', time=first_of_run['time'], t0=t0)
    for a, b in zip(acc[:-1], acc[1:]):
        want = a['time'] + a['post']['dt']
        if b['time'] != want:
            kind = 'gap' if b['time'] > want else 'overlap'
            cur.v('tiling_' + kind, prev=(a['block'], a['slot'], a['time'], a['post']['dt']), next=(b['block'], b['slot'], b['time']), want=want)
        if b['post']['u0'] != a['post']['uend']:
            cur.v('chain_value', prev=(a['block'], a['slot']), next=(b['block'], b['slot']))
    if cur.outcome0 == ('ok',):
        if not acc:
            cur.v('no_accepted_step')
            return
        last = acc[-1]
        end = last['time'] + last['post']['dt']
        if end < Tend - 1e-9 * abs(last['post']['dt']) - 64 * np.spacing(abs(Tend)):
            cur.v('stopped_before_Tend', end=end, Tend=Tend)
        if cur.uend is None or cur.uend.tobytes() != last['post']['uend']:
            cur.v('return_value_not_last_uend', last=(last['block'], last['slot']))
        # the very last block must not contain restarted steps
        if first_restart(blks[-1]) is not None:
            cur.v('run_ended_on_restart')


# ------------------------------------------------------------------------------------------------------------
# C09: restarts and step-size control
# ------------------------------------------------------------------------------------------------------------
def _clip(cfg, prop, dt, restart_own):
    """Reference: slope limiter (91) then absolute limiter (92), as the property states ("clipped to the configured
    absolute and slope limits")."""
    ad = cfg['adaptive']
    smin = ad.get('dt_slope_min', 0)
    smax = ad.get('dt_slope_max', math.inf)
    rel = ad.get('dt_rel_min_slope', 0)
    binds = None
    x = prop
    if x / dt < smin:
        x = dt * smin
        binds = 'slope_min'
    elif x / dt > smax:
        x = dt * smax
        binds = 'slope_max'
    elif abs(x / dt - 1) < rel and not restart_own:
        x = dt
        binds = 'rel_min_slope'
    if x < ad.get('dt_min', 0):
        x = ad['dt_min']
        binds = 'dt_min'
    elif x > ad.get('dt_max', math.inf):
        x = ad['dt_max']
        binds = 'dt_max'
    return x, binds


def check_restarts(cur):
    cfg = cur.cfg
    if cur.outcome0 is None or cur.outcome0[0] in ('horizon', 'exc'):
        return
    rs = cfg.get('restarting') or {}
    max_restarts = rs.get('max_restarts', 10)
    from_first = rs.get('restart_from_first_step', False)
    crash = rs.get('crash_after_max_restarts', True)
    ad = cfg.get('adaptive')
    K = cfg['K']
    blks = blocks_of(cur)
    crashed = cur.outcome0 == ('convergence_error',)
    # n_before = number of failed attempts in a row that the start time of this block's first step already has:
    # the next block always begins at the start time of the first restarted step (the pivot) of this block
    n_before = 0
    prev_pivot = None  # (slot, n_before of that block)
    cur.obs_early_surrender = 0
    for bi, blk in enumerate(blks):
        complete = all('post' in a for a in blk)
        # (b) one step size per block at pre_step
        dts = [a['pre']['dt'] for a in blk]
        if len(set(dts)) > 1:
            if getattr(cur, 'is_second_leg', False) and bi == 0:
                # recorded finding: run() does not equalise the step sizes the steps kept from the previous run
                cur.viol.append(({'kind': 'block_step_sizes_differ', 'cause': 'step sizes left over from the previous run on the same controller'}, {'dts': dts, 'cfg': cfg_key_small(cfg)}))
            else:
                cur.v('block_step_sizes_differ', block=blk[0]['block'], dts=dts)
        t_first = blk[0]['time']
        n_before = failed_attempts_before(blks, bi)
        run_len = n_before + 1
        if run_len > max_restarts + 1:
            cur.v('retried_too_often', time=t_first, attempts=run_len, max_restarts=max_restarts)
        # two readings of "the retry budget was exhausted": (strict) this block's first step itself has been attempted and
        # rejected max_restarts times in a row; (the library's) max_restarts blocks in a row contained a restart - the
        # counters are kept per block position, and with changing step sizes the start times move, so the chain of
        # restarted blocks can be longer than the number of attempts of any one start time.  The strict reading implies
        # the library's; a suppressed restart is accepted under either, a restart is an excess only under the strict one
        n_chain = 0
        for bj in range(bi - 1, -1, -1):
            if all('post' in a for a in blks[bj]) and first_restart(blks[bj]) is not None:
                n_chain += 1
            else:
                break
        budget_exhausted = n_before >= max_restarts or n_chain >= max_restarts
        budget_exhausted_strict = n_before >= max_restarts
        if not complete:
            # the block in which ConvergenceError was raised
            if not budget_exhausted:
                cur.obs_early_surrender += 1
            continue
        r = first_restart(blk)
        prev_pivot = (r, n_before) if r is not None else None
        # an estimate exactly AT the tolerance may be accepted or rejected ("does not exceed the tolerance"; Adaptivity
        # rejects it, the converged-collocation family accepts it): `requested` is the lenient list (may restart),
        # `must` the strict one (has to restart)
        requested = [i for i, a in enumerate(blk) if (a['post']['est'] is not None and ad and a['post']['est'] >= ad.get('e_tol', 1.0)) or a['post']['rreq']]
        must = [i for i, a in enumerate(blk) if (a['post']['est'] is not None and ad and a['post']['est'] > ad.get('e_tol', 1.0)) or a['post']['rreq']]
        # "collocation problem not converged" (converged-collocation family with restart_at_maxiter): a step that used up its
        # sweeps with a residual above the tolerance is rejected whatever its estimate
        nonconv = [i for i, a in enumerate(blk) if cfg.get('nonconv') and a.get('iter_at_post', 0) >= K and a['post']['residual'] is not None and a['post']['residual'] > RESTOL_H]
        if nonconv:
            requested = sorted(set(requested) | set(nonconv))
            # a step behind a rejected one is recomputed anyway; its own verdict is not observable
            must = sorted(set(must) | set(nonconv[:1]))
        # (a) restart position -> next block
        if r is not None:
            if from_first and r != 0:
                cur.v('restart_from_first_step_ignored', block=blk[0]['block'], first_restarted=r)
            for i, a in enumerate(blk):
                if i > r and not a['post']['restart'] and not cfg.get('restart_late'):
                    cur.v('later_step_not_restarted', block=a['block'], slot=a['slot'], first_restarted=r)
            if bi + 1 < len(blks):
                nb = blks[bi + 1][0]
                if nb['time'] != blk[r]['time']:
                    cur.v('next_block_wrong_time', block=blk[0]['block'], restart_at=r, time=nb['time'], want=blk[r]['time'])
                if nb['pre']['u0'] != blk[r]['post']['u0']:
                    cur.v('next_block_wrong_value', block=blk[0]['block'], restart_at=r)
            elif not crashed:
                cur.v('restart_without_next_block', block=blk[0]['block'])
        # a requested restart may only be ignored when the retry budget of the block's first step is exhausted
        if must and not budget_exhausted:
            ok_r = {0} if from_first else {must[0]} | {i for i in requested if i < must[0]}
            if r not in ok_r:
                cur.v('restart_request_lost', block=blk[0]['block'], requested=must, first_restarted=r)
        elif requested and not budget_exhausted and r is not None:
            if r not in ({0} if from_first else set(requested)):
                cur.v('restart_request_lost', block=blk[0]['block'], requested=requested, first_restarted=r)
        if requested and budget_exhausted_strict and r is not None:
            cur.v('restart_after_budget_exhausted', block=blk[0]['block'], attempts=run_len)
        if not requested and r is not None:
            cur.v('restart_without_request', block=blk[0]['block'], first_restarted=r)
        if ad:
            e_tol = ad.get('e_tol', 1.0)
            beta = ad.get('beta', 0.9)
            for i, a in enumerate(blk):
                est = a['post']['est']
                if est is None:
                    continue
                accepted = r is None or i < r
                if accepted and i in nonconv and not budget_exhausted:
                    cur.v('accepted_although_not_converged', block=a['block'], slot=a['slot'], residual=a['post']['residual'])
                # (d) accepted => estimate below tolerance unless the retry budget was exhausted
                if accepted and est > e_tol and not budget_exhausted:
                    cur.v('accepted_above_tolerance', block=a['block'], slot=a['slot'], est=est)
                # (e) proposal formula and clipping
                dt = a['post']['dt']
                prop = beta * dt * (e_tol / est) ** (1.0 / K)
                want, binds = _clip(cfg, prop, dt, est >= e_tol)
                got = a['post']['dt_new']
                if cfg.get('adaptive_family') == 'polynomial':
                    # another proposal formula (order of the polynomial estimate); only the restart clauses are judged
                    a['binds'] = None
                    continue
                if got is None or abs(got - want) > 4 * np.spacing(abs(want)):
                    cur.v('dt_new_formula', block=a['block'], slot=a['slot'], got=got, want=want, est=est, dt=dt)
                a['binds'] = binds
            # (f) a rejected step is retried with a smaller step unless a configured lower limit binds
            # (restarting from the first step: the rejected step is any step of the block whose estimate is above the tolerance;
            # the whole block, and with it that step, is recomputed with the next block's step size)
            rejected_here = [a for i, a in enumerate(blk) if (from_first or i == r) and r is not None and ((a['post']['est'] is not None and a['post']['est'] >= e_tol) or i in nonconv)]
            if r is not None and bi + 1 < len(blks) and rejected_here:
                src = blk[r] if not from_first else min((a for a in blk if a['post']['dt_new'] is not None), key=lambda a: a['post']['dt_new'], default=blk[r])
                nb = blks[bi + 1][0]
                if not (nb['pre']['dt'] < blk[r]['post']['dt']) and src.get('binds') not in ('dt_min', 'slope_min'):
                    cur.v('retry_not_smaller', block=blk[0]['block'], dt=blk[r]['post']['dt'], next_dt=nb['pre']['dt'], binds=src.get('binds'))
    if crashed:
        if not crash:
            cur.v('convergence_error_although_moving_on_configured')


# ------------------------------------------------------------------------------------------------------------
# C14: statistics vs recorder ground truth
# ------------------------------------------------------------------------------------------------------------
# type -> (key time: 'start' | 'end', value getter from the attempt)
def _val_bytes(x):
    return x.tobytes() if hasattr(x, 'tobytes') else x


STAT_TYPES = {
    'niter': ('start', lambda a: a['iter_at_post']),
    'residual_post_step': ('start', lambda a: a['post']['residual']),
    'restart': ('start', lambda a: int(a['post']['restart'])),
    'dt': ('start', lambda a: a['post']['dt']),
    'u': ('end', lambda a: a['post']['uend']),
    'work_rhs': ('end', lambda a: a['post']['n_eval'] - a['pre']['n_eval']),
    'k': ('end', None),  # LogSDCIterations accumulates with increment_stats by design: times only
    'error_embedded_estimate': ('end', lambda a: a['post']['err']),
    'e_global_post_step': ('end', None),
    'e_local_post_step': ('end', None),
}


def cfg_key_small(cfg):
    return {k: cfg[k] for k in ('P', 'K', 'L', 'Tend', 'adaptive', 'restarting') if k in cfg}


def check_stats(cur):
    from pySDC.helpers.stats_helper import filter_stats, get_sorted

    if cur.outcome0 != ('ok',) or cur.stats is None:
        return
    stats = cur.stats
    acc = accepted_chain(cur)
    allatt = [a for a in cur.attempts if 'post' in a]
    present = {k.type for k in stats.keys()}
    # record types that have to be there because their hook is configured (the user's list, the default hooks, and the
    # hooks convergence controllers add on their own)
    hooks_cfg = ' '.join(str(h) for h in cur.cfg.get('hook_classes', []))
    required = {'niter', 'residual_post_step'}
    for cls_name, types in (('LogSolution', ['u']), ('LogWork', ['work_rhs']), ('LogSDCIterations', ['k']), ('LogStepSize', ['dt']), ('LogGlobalErrorPostStep', ['e_global_post_step']), ('LogLocalErrorPostStep', ['e_local_post_step'])):
        if ('.' + cls_name) in hooks_cfg:
            required.update(types)
    if cur.cfg.get('restarting') is not None:
        required.add('restart')
    if cur.cfg.get('adaptive') is not None and cur.cfg.get('adaptive_family') != 'polynomial' and any(a['post'].get('err') for a in acc):
        required.add('error_embedded_estimate')
    for typ in sorted(required - present):
        if acc:
            cur.v('records_missing', type=typ, accepted_steps=len(acc), types_present=sorted(str(t) for t in present)[:30])
    # records written once per run: keyed with the end time and the restart count of the last step the run finished
    if '.LogGlobalErrorPostRun' in hooks_cfg and cur.attempts:
        fin = [a for a in cur.attempts if 'post' in a]
        recs = [k for k in stats.keys() if k.type == 'e_global_post_run']
        if fin:
            last = fin[-1]
            t_end = last['time'] + last['post']['dt']
            # (the hook is called once per step object of the controller: one record per process)
            if not 1 <= len(recs) <= cur.cfg['P'] or len({k.process for k in recs}) != len(recs):
                cur.v('post_run_record_count', type='e_global_post_run', records=len(recs), times=[float(k.time) for k in recs][:6])
            elif any(k.time != t_end for k in recs):
                cur.v('post_run_record_key', type='e_global_post_run', key_times=sorted({float(k.time) for k in recs}), run_ended_at=float(t_end), last_finished_step=(last['block'], last['slot']))
    for typ, (when, getter) in STAT_TYPES.items():
        if typ not in present:
            continue

        def key_time(a):
            return a['time'] if when == 'start' else a['time'] + a['post']['dt']

        times_only = getter is None
        if times_only:
            getter = lambda a: 0  # noqa: E731
        if typ == 'error_embedded_estimate':
            # only logged when the estimate is truthy
            exp_acc = [(key_time(a), getter(a)) for a in acc if getter(a)]
            exp_all = [a for a in allatt if getter(a)]
        else:
            exp_acc = [(key_time(a), getter(a)) for a in acc]
            exp_all = allatt
        exp_acc.sort(key=lambda x: x[0])
        got = [(t, 0 if times_only else _val_bytes(v)) for t, v in get_sorted(stats, type=typ, recomputed=False, sortby='time')]
        if got != exp_acc:
            # Recorded finding: a rejected and an accepted attempt END (typically both are cut at Tend) or START (a step
            # restarted only because its predecessor was, and a later first attempt) at the same time in different slots
            # with the same restart count; the filter cannot tell their records apart and the rejected one survives.  Only a surplus that is exactly of this kind is attributed to it.
            extra = list(got)
            missing = []
            for e in exp_acc:
                if e in extra:
                    extra.remove(e)
                else:
                    missing.append(e)
            rejected = [a for a in exp_all if a not in acc]
            explained = not missing and bool(extra)
            for t, v in extra:
                twins = [r for r in rejected if key_time(r) == t and any(key_time(a) == t and a['pre']['riar'] == r['pre']['riar'] and a['slot'] != r['slot'] for a in acc)]
                if not twins:
                    explained = False
            # Recorded finding, third variant: a rejected attempt with a HIGHER restart count ENDS exactly where an accepted
            # attempt with a lower restart count STARTS (start-keyed types) or ENDS (end-keyed types); the '_recomputed' marker the rejected attempt leaves at its end time
            # outranks the accepted attempt's start-keyed records, which the filter then drops (a record is MISSING)
            explained_missing = bool(missing) and not extra
            for t, v in missing:
                acc_here = [a for a in acc if key_time(a) == t]
                ends_here = [r for r in rejected if r['time'] + r['post']['dt'] == t and acc_here and r['pre']['riar'] > acc_here[0]['pre']['riar']]
                if not ends_here:
                    explained_missing = False
            # General form of the same root cause (fallback after the three specific variants): at every time where the filtered
            # records differ from the accepted ones there is an EARLIER rejected attempt, keyed at that time by its start or
            # its end, whose restart count is not lower than the accepted attempt's - the count does not order the attempts,
            # so the filter cannot single out the latest one
            bad_times = {t for t, _ in extra} | {t for t, _ in missing}
            explained_general = bool(bad_times)
            for t in bad_times:
                acc_here = [a for a in acc if key_time(a) == t]
                older = [r for r in rejected if (r['time'] == t or r['time'] + r['post']['dt'] == t) and acc_here and r['block'] < acc_here[0]['block'] and r['pre']['riar'] >= acc_here[0]['pre']['riar']]
                if not older:
                    explained_general = False
            if explained_missing:
                cur.viol.append(({'kind': 'filtered_records', 'cause': 'a rejected attempt with a higher restart count ends at the time an accepted attempt with a lower restart count starts or ends'}, {'type': typ, 'missing_times': [t for t, _ in missing], 'cfg': cfg_key_small(cur.cfg)}))
            elif explained:
                cur.viol.append(({'kind': 'filtered_records', 'cause': f'rejected and accepted attempt {when} at the same time with equal restart count in different slots'}, {'type': typ, 'extra_times': [t for t, _ in extra], 'cfg': cfg_key_small(cur.cfg)}))
            elif explained_general:
                cur.viol.append(({'kind': 'filtered_records', 'cause': 'an earlier rejected attempt keyed at the same time carries a restart count that is not lower than the accepted attempt\'s'}, {'type': typ, 'times': sorted(bad_times), 'cfg': cfg_key_small(cur.cfg)}))
            else:
                cur.v(
                    'filtered_records',
                    type=typ,
                    n_got=len(got),
                    n_expected=len(exp_acc),
                    got_times=[t for t, _ in got],
                    expected_times=[t for t, _ in exp_acc],
                    values_differ=[i for i, (g, e) in enumerate(zip(got, exp_acc)) if g != e][:5],
                )
        # unfiltered: one record per attempt, no two attempts share a key
        raw = filter_stats(stats, type=typ)
        # every record's key carries the true time / slot / restart count (and iteration where the hook logs it) of an
        # attempt; two attempts may share a key (the later one overwrites), which the property does not forbid
        keys = {(k.time, k.process, k.num_restarts) for k in raw.keys()}
        want = {(key_time(a), a['slot'], a['pre']['riar']) for a in exp_all}
        if keys != want:
            cur.v('record_keys', type=typ, extra=sorted(keys - want)[:6], missing=sorted(want - keys)[:6])
        cur.obs_collisions = getattr(cur, 'obs_collisions', 0) + (len(exp_all) - len(raw))
        iters = {k.iter for k in raw.keys()} - {-1}
        if not iters <= {a['iter_at_post'] for a in exp_all}:
            cur.v('record_iter', type=typ, iters=sorted(iters))
    # filtering with recomputed=False and fewer keys must give exactly the union of the per-type results
    types = sorted(present - {'_recomputed'}, key=str)
    for kw in ({}, {'level': 0}, {'process': 0}, {'iter': cur.cfg['K']}):
        wide = filter_stats(stats, recomputed=False, **kw)
        union = {}
        for typ in types:
            union.update(filter_stats(stats, type=typ, recomputed=False, **kw))
        wide_keys = {k for k in wide if k.type != '_recomputed'}
        if wide_keys != set(union):
            cur.v('wide_filter_differs_from_per_type', filter=kw, only_per_type=sorted((str(k.type), k.time, k.process) for k in set(union) - wide_keys)[:6], only_wide=sorted((str(k.type), k.time, k.process) for k in wide_keys - set(union))[:6])
    # iteration-level records: residual_post_iteration per accepted step = one per iteration performed
    if 'residual_post_iteration' in present:
        got = get_sorted(stats, type='residual_post_iteration', recomputed=False, sortby='time')
        exp = sum(a['niter_cb'] for a in acc)
        if len(got) != exp:
            # the same recorded finding (start-time variant): the surplus is exactly the iterations of rejected attempts that
            # share start time and restart count with an accepted attempt of another slot
            rejected = [a for a in allatt if a not in acc]
            twins = [r for r in rejected if any(a['time'] == r['time'] and a['pre']['riar'] == r['pre']['riar'] and a['slot'] != r['slot'] for a in acc)]
            # third variant (records MISSING): accepted attempts that start where a rejected attempt with a higher restart
            # count ended lose their iteration records
            shadowed = [a for a in acc if any(r['time'] + r['post']['dt'] == a['time'] and r['pre']['riar'] > a['pre']['riar'] for r in rejected)]
            if shadowed and exp - len(got) == sum(a['niter_cb'] for a in shadowed):
                cur.viol.append(({'kind': 'filtered_records', 'cause': 'a rejected attempt with a higher restart count ends at the time an accepted attempt with a lower restart count starts or ends'}, {'type': 'residual_post_iteration', 'missing_times': sorted({a['time'] for a in shadowed}), 'cfg': cfg_key_small(cur.cfg)}))
            elif any((r['time'] == a['time'] or r['time'] + r['post']['dt'] == a['time']) and r['block'] < a['block'] and r['pre']['riar'] >= a['pre']['riar'] for a in acc for r in rejected) and not (twins and len(got) - exp == sum(r['niter_cb'] for r in twins)):
                cur.viol.append(({'kind': 'filtered_records', 'cause': 'an earlier rejected attempt keyed at the same time carries a restart count that is not lower than the accepted attempt\'s'}, {'type': 'residual_post_iteration', 'n_got': len(got), 'n_expected': exp, 'cfg': cfg_key_small(cur.cfg)}))
            elif twins and len(got) - exp == sum(r['niter_cb'] for r in twins):
                cur.viol.append(({'kind': 'filtered_records', 'cause': 'rejected and accepted attempt start at the same time with equal restart count in different slots'}, {'type': 'residual_post_iteration', 'extra_times': sorted({r['time'] for r in twins}), 'cfg': cfg_key_small(cur.cfg)}))
            else:
                cur.v('filtered_records', type='residual_post_iteration', n_got=len(got), n_expected=exp)


# ------------------------------------------------------------------------------------------------------------
# C09 on real adaptive runs (estimators of pySDC on real problems; nothing scripted, only observed)
# ------------------------------------------------------------------------------------------------------------
def check_real(cur):
    cfg = cur.cfg
    if cur.outcome0 is None or cur.outcome0[0] in ('horizon', 'exc'):
        return
    r = cfg['real']
    rs = r.get('restarting', {})
    max_restarts = rs.get('max_restarts', 10)
    tol = r['tol']
    lim = {'adaptive': dict(r.get('limiter', {}))}
    blks = blocks_of(cur)
    crashed = cur.outcome0 == ('convergence_error',)
    prev_pivot = None
    n_checked = 0
    for bi, blk in enumerate(blks):
        dts = [a['pre']['dt'] for a in blk]
        if len(set(dts)) > 1:
            cur.v('block_step_sizes_differ', block=blk[0]['block'], dts=dts)
        n_before = failed_attempts_before(blks, bi)
        if n_before + 1 > max_restarts + 1:
            cur.v('retried_too_often', time=blk[0]['time'], attempts=n_before + 1, max_restarts=max_restarts)
        budget_exhausted = n_before >= max_restarts
        if not all('post' in a for a in blk):
            continue
        rr = first_restart(blk)
        prev_pivot = (rr, n_before) if rr is not None else None
        if rr is not None:
            for i, a in enumerate(blk):
                if i > rr and not a['post']['restart'] and not cfg.get('restart_late'):
                    cur.v('later_step_not_restarted', block=a['block'], slot=a['slot'], first_restarted=rr)
            if bi + 1 < len(blks):
                nb = blks[bi + 1][0]
                if nb['time'] != blk[rr]['time']:
                    cur.v('next_block_wrong_time', block=blk[0]['block'], restart_at=rr, time=nb['time'], want=blk[rr]['time'])
                if nb['pre']['u0'] != blk[rr]['post']['u0']:
                    cur.v('next_block_wrong_value', block=blk[0]['block'], restart_at=rr)
                if not (nb['pre']['dt'] < blk[rr]['post']['dt']):
                    prop = cur.real_prop.get((blk[rr]['block'], blk[rr]['slot']))
                    binds = None
                    if prop is not None:
                        _, binds = _clip(lim, prop[5], prop[1], True)
                    if binds not in ('dt_min', 'slope_min'):
                        cur.v('retry_not_smaller', block=blk[0]['block'], dt=blk[rr]['post']['dt'], next_dt=nb['pre']['dt'])
            elif not crashed:
                cur.v('restart_without_next_block', block=blk[0]['block'])
        for i, a in enumerate(blk):
            key = (a['block'], a['slot'])
            est = cur.est.get(key)
            accepted = rr is None or i < rr
            if accepted and est is not None and est > tol and not budget_exhausted:
                cur.v('accepted_above_tolerance', block=a['block'], slot=a['slot'], est=est, tol=tol)
            prop = cur.real_prop.get(key)
            if prop is not None:
                beta, dt, e_tol, e_est, order, out = prop
                want = beta * dt * (e_tol / e_est) ** (1.0 / order) if e_est > 0 else None
                if want is not None and abs(out - want) > 4 * np.spacing(abs(want)):
                    cur.v('dt_new_formula', block=a['block'], slot=a['slot'], got=out, want=want)
                if e_tol != tol or dt != a['post']['dt']:
                    cur.v('proposal_inputs', block=a['block'], slot=a['slot'], e_tol=e_tol, dt=dt, step_dt=a['post']['dt'])
                own_restart = est is not None and est >= tol
                clipped, _ = _clip(lim, out, dt, own_restart)
                got = a['post']['dt_new']
                forced_quarter = a['post']['restart'] and got is not None and abs(got - dt / 4.0) <= 4 * np.spacing(dt)
                if not forced_quarter and (got is None or abs(got - clipped) > 4 * np.spacing(abs(clipped))):
                    # the deadband uses the step's own restart flag, which only the estimator sets; both readings admitted
                    alt, _ = _clip(lim, out, dt, not own_restart)
                    if got is None or abs(got - alt) > 4 * np.spacing(abs(alt)):
                        cur.v('dt_new_clipping', block=a['block'], slot=a['slot'], got=got, want=clipped, proposal=out)
                n_checked += 1
    cur.extra = {'proposals_checked': n_checked}
