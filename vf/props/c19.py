"""C19 — runs are reproducible, re-entrant and composable at block boundaries (engine E1 over run sequences).

Breadth-first enumeration of all operation sequences up to a depth over
    new(X)          build a controller for configuration X (from a fresh description)
    run(i)          full-interval run on controller i
    split(i, j)     run controller i to a block boundary, continue from the returned value and time on controller j
                    (j == i: same controller; j = a controller of the same configuration created for the purpose)
Oracle (differential): the digest (solution bits + every non-timing statistics entry) of each logical run equals the digest
of the same logical run executed alone in a fresh subprocess.
"""

import hashlib
import itertools
import json
import os
import subprocess
import sys

import numpy as np

from vf import common

LEVEL = 'model_checking'

NBLOCKS = 3


def config(name):
    """-> (num_procs, controller_params, description, dt) built from scratch on every call."""
    from pySDC.implementations.problem_classes.TestEquation_0D import testequation0d
    from pySDC.implementations.sweeper_classes.generic_implicit import generic_implicit
    from pySDC.implementations.transfer_classes.TransferMesh_NoCoarse import mesh_to_mesh as IdentityTransfer
    from pySDC.implementations.hooks.log_solution import LogSolution
    from pySDC.implementations.hooks.log_work import LogWork

    base, _, guess = name.partition('/')
    guess = guess or 'spread'
    dt = 0.1  # not a power of two: time accumulation rounds
    lam = np.array([-1.0 + 0.5j, -0.3, 2.0j])
    desc = {
        'problem_class': testequation0d,
        'problem_params': {'lambdas': lam, 'u0': 1.0},
        'sweeper_class': generic_implicit,
        'sweeper_params': {'quad_type': 'RADAU-RIGHT', 'num_nodes': 3, 'QI': 'LU', 'initial_guess': guess},
        'level_params': {'restol': 1e-9, 'dt': dt},
        'step_params': {'maxiter': 6},
    }
    cp = {'logger_level': 90, 'dump_setup': False, 'hook_class': [LogSolution]}
    P = 1
    if base == 'sdc':
        pass
    elif base == 'sdcs':
        del desc['sweeper_params']['QI']  # the sweeper's default preconditioner
    elif base == 'lobatto':
        desc['sweeper_params']['quad_type'] = 'LOBATTO'
    elif base == 'mlsdc':
        desc['sweeper_params']['num_nodes'] = [3, 2]
        desc['space_transfer_class'] = IdentityTransfer
    elif base == 'mlsdc_equid':
        # the same hierarchy as 'mlsdc' (node counts, quadrature type) on another node family
        desc['sweeper_params']['num_nodes'] = [3, 2]
        desc['sweeper_params']['node_type'] = 'EQUID'
        desc['space_transfer_class'] = IdentityTransfer
    elif base == 'mlsdc_flex':
        # a sweep-dependent preconditioner on the fine level, two fine sweeps per iteration, predictor with a fine sweep:
        # the coefficients the last sweep leaves behind must not enter the next step / the next run
        desc['sweeper_params']['num_nodes'] = [3, 2]
        desc['sweeper_params']['QI'] = ['MIN-SR-FLEX', 'LU']
        desc['level_params']['nsweeps'] = [2, 1]
        desc['space_transfer_class'] = IdentityTransfer
        cp['predict_type'] = 'fine_only'
    elif base == 'newton_inexact':
        # a shipped convergence controller that writes into the PROBLEM object (its Newton tolerance) during a run
        from pySDC.implementations.convergence_controller_classes.inexactness import NewtonInexactness
        from pySDC.implementations.problem_classes.Van_der_Pol_implicit import vanderpol

        desc['problem_class'] = vanderpol
        desc['problem_params'] = {'mu': 2.0, 'newton_tol': 1e-9, 'newton_maxiter': 50, 'u0': np.array([2.0, 0.0])}
        desc['level_params'] = {'restol': 1e-8, 'dt': dt}
        desc['step_params'] = {'maxiter': 8}
        desc['convergence_controllers'] = {NewtonInexactness: {}}
        cp['hook_class'] = [LogSolution, LogWork]
    elif base == 'pfasst':
        P = 3
        desc['sweeper_params']['num_nodes'] = [3, 2]
        desc['space_transfer_class'] = IdentityTransfer
        cp['predict_type'] = 'pfasst_burnin'
    elif base == 'mssdc':
        P = 2
        cp['mssdc_jac'] = False
    elif base == 'rk':
        from pySDC.implementations.sweeper_classes.Runge_Kutta import RK4

        desc['sweeper_class'] = RK4
        desc['sweeper_params'] = {}
        desc['level_params'] = {'dt': dt}
        desc['step_params'] = {'maxiter': 1}
    elif base == 'hooks':
        P = 2
        from pySDC.implementations.hooks.log_errors import LogGlobalErrorPostStep
        from pySDC.implementations.hooks.log_work import LogSDCIterations

        from pySDC.implementations.hooks.log_errors import LogGlobalErrorPostRun

        cp['hook_class'] = [LogSolution, LogWork, LogSDCIterations, LogGlobalErrorPostStep, LogGlobalErrorPostRun]
    elif base == 'restarts':
        # every block is computed twice: a deterministic detector (environment) rejects the first attempt of the first
        # step of every block, so that the last block of every run and of every leg is a recomputation
        from pySDC.implementations.convergence_controller_classes.basic_restarting import BasicRestartingNonMPI

        P = 2
        cp['mssdc_jac'] = False
        cp['hook_class'] = [LogSolution, LogWork]
        desc['level_params']['restol'] = -1.0
        desc['step_params']['maxiter'] = 2
        desc['convergence_controllers'] = {RejectFirstAttempt: {}, BasicRestartingNonMPI: {'max_restarts': 3}}
    elif base == 'status_vars':
        # a shipped convergence controller that registers level status variables of its own, and a user hook that records
        # every scalar status variable of the finest level after every iteration (what a user plotting them would do)
        from pySDC.implementations.convergence_controller_classes.estimate_contraction_factor import EstimateContractionFactor

        P = 2
        cp['mssdc_jac'] = False
        cp['hook_class'] = [LogSolution, LogLevelStatus]
        desc['level_params']['restol'] = -1.0
        desc['step_params']['maxiter'] = 4
        desc['convergence_controllers'] = {EstimateContractionFactor: {'e_tol': 1e-7}}
    elif base == 'adaptive':
        from pySDC.implementations.convergence_controller_classes.adaptivity import Adaptivity

        desc['level_params']['restol'] = -1.0
        desc['step_params']['maxiter'] = 3
        desc['convergence_controllers'] = {Adaptivity: {'e_tol': 1e-5}}
        cp['mssdc_jac'] = False
    else:
        raise KeyError(name)
    return P, cp, desc, dt


from pySDC.core.convergence_controller import ConvergenceController  # noqa: E402


from pySDC.core.hooks import Hooks  # noqa: E402


class LogLevelStatus(Hooks):
    """user hook: every scalar entry of the finest level's status after every iteration goes into the statistics"""

    def post_iteration(self, step, level_number):
        super().post_iteration(step, level_number)
        L = step.levels[0]
        for k, v in sorted(vars(L.status).items()):
            if k.startswith('_') or k in ('time',):
                continue
            if v is None or isinstance(v, (bool, int, float, complex, np.floating, np.integer)):
                self.add_to_stats(process=step.status.slot, time=L.time, level=L.level_index, iter=step.status.iter, sweep=L.status.sweep, type='status_' + k, value=None if v is None else complex(v) if isinstance(v, complex) else float(v))


class RejectFirstAttempt(ConvergenceController):
    """environment: asks for a restart of the first step of a block when it has used up its sweeps for the first time"""

    def setup(self, controller, params, description, **kwargs):
        return {'control_order': 90, **super().setup(controller, params, description, **kwargs)}

    def determine_restart(self, controller, S, **kwargs):
        if S.status.first and S.status.iter >= S.params.maxiter and not S.status.get('restarts_in_a_row'):
            S.status.restart = True


FIXED = ['sdc', 'sdcs', 'lobatto', 'mlsdc', 'mlsdc_equid', 'mlsdc_flex', 'newton_inexact', 'pfasst', 'mssdc', 'rk', 'hooks', 'restarts', 'status_vars', 'sdc/random', 'pfasst/random']
ALL = FIXED + ['adaptive']


# configurations that also take part in sequences mixing runs over windows of different length
SHORT_RUNS = ['hooks', 'restarts']
SHARED_FAMILY = ['sdc', 'sdcs', 'lobatto', 'rk']
CP_PAIRS = [(a, b) for a in ('adaptive', 'sdc', 'mssdc', 'restarts', 'hooks') for b in ('sdc', 'lobatto', 'mssdc', 'adaptive', 'mlsdc') if a != b]
NESTED = ('problem_params', 'sweeper_params', 'level_params', 'step_params')


def build(name, shared=None, shared_cp=None):
    """shared: a dict carried along one sequence. All controllers of the sequence are then built from ONE description
    object that the 'user' edits in place between constructions: top-level entries are assigned, the nested parameter
    dictionaries keep their identity, the user removes the keys the previous configuration had set and sets the new
    ones (keys the user never set are left alone - exactly what a library that writes into the user's dictionary leaks)."""
    from pySDC.implementations.controller_classes.controller_nonMPI import controller_nonMPI

    P, cp, desc, dt = config(name)
    if shared is not None:
        D = shared.setdefault('desc', {})
        prev = shared.get('user_keys', {})
        for k in list(D):
            if k not in desc and k not in NESTED and k in shared.get('top_keys', ()):
                del D[k]
        for k, v in desc.items():
            if k in NESTED:
                nd = D.setdefault(k, {})
                for old in prev.get(k, ()):
                    if old not in v:
                        nd.pop(old, None)
                nd.update(v)
            else:
                D[k] = v
        shared['user_keys'] = {k: set(desc[k]) for k in NESTED if k in desc}
        shared['top_keys'] = set(desc)
        desc = D
    if shared_cp is not None:
        # ONE controller_params dictionary for all controllers of the sequence: the user assigns only the entries whose
        # value differs from what they assigned last time and removes the entries the new configuration does not set
        CP = shared_cp.setdefault('cp', {})
        mine = shared_cp.setdefault('user_values', {})
        for k in list(mine):
            if k not in cp:
                CP.pop(k, None)
                del mine[k]
        for k, v in cp.items():
            if k not in mine or mine[k] != v:
                CP[k] = v
                mine[k] = list(v) if isinstance(v, list) else v
        cp = CP
    return controller_nonMPI(num_procs=P, controller_params=cp, description=desc), P, dt


def u_init(ctrl):
    P0 = ctrl.MS[0].levels[0].prob
    u0 = P0.dtype_u(P0.init, val=0.0)
    if np.size(u0) == 2:  # van der Pol
        u0[:] = [2.0, 0.0]
        return u0
    u0[:] = [1.0 + 0.25j, -0.5, 0.3]
    return u0


def digest(uend, stats_list):
    """stable digest of solution bits + all non-timing statistics of one logical run (possibly two physical runs)."""
    items = []
    for stats in stats_list:
        for k, v in stats.items():
            if str(k.type).startswith('timing') or k.type == '_recomputed':
                continue
            vb = v.tobytes().hex() if hasattr(v, 'tobytes') else repr(v)
            items.append((str(k.type), repr(float(k.time)) if k.time is not None else 'None', k.process, k.level, k.iter, k.sweep, k.num_restarts, vb))
    items.sort()
    h = hashlib.sha1()
    h.update(uend.tobytes())
    for it in items:
        h.update(repr(it).encode())
    return h.hexdigest(), len(items)


def window_ok(stats, t0, Tend, dt):
    """every statistics entry of a run carries a time inside the window of that run (start or end time of one of its steps)"""
    for k in stats:
        if k.time is None or str(k.type).startswith('timing'):
            continue
        # (a step may end beyond Tend when step sizes are adapted, so only entries before the start are out of window)
        if k.time < t0 - 1e-9 * dt:
            return False
    return True


def logical_run(name, how, ctrl_a, ctrl_b=None):
    """how: 'full' | ('split', k blocks). Returns a tuple of digests: full run -> ((digest, n), 'ok'|'window');
    split run -> (digest of the merged run, digest of leg 1, digest of leg 2, 'ok'|'window')."""
    P, cp, desc, dt = config(name)
    Tend = NBLOCKS * P * dt
    u0 = u_init(ctrl_a)
    if how in ('full', 'short'):
        if how == 'short':
            Tend = P * dt  # one block only: a run that ends EARLIER than the other runs on the same controller
        uend, stats = ctrl_a.run(u0=u0, t0=0.0, Tend=Tend)
        stats = dict(stats)
        return (digest(uend, [stats]), 'ok' if window_ok(stats, 0.0, Tend, dt) else 'window')
    k = how[1]
    from pySDC.helpers.stats_helper import get_sorted

    Tmid_nominal = k * P * dt
    u1, s1 = ctrl_a.run(u0=u0, t0=0.0, Tend=Tmid_nominal)
    s1 = dict(s1)
    # the time the controller itself reached (end of the last step), as logged
    tmid = max(t for t, _ in get_sorted(s1, type='u', sortby='time'))
    u2, s2 = (ctrl_b or ctrl_a).run(u0=u1, t0=tmid, Tend=Tend)
    s2 = dict(s2)
    win = 'ok' if window_ok(s1, 0.0, tmid, dt) and window_ok(s2, tmid, Tend, dt) else 'window'
    # records written once per run() (post-run error) of the first leg have no counterpart in the uninterrupted run
    s1m = {k: v for k, v in s1.items() if not str(k.type).endswith('_post_run')}
    return (digest(u2, [s1m, s2]), digest(u1, [s1]), digest(u2, [s2]), win)


def reference(name):
    """digests of the uninterrupted run and of both legs of every split, each executed alone in a fresh subprocess
    on fresh controllers: {'full': ..., 'split1': (merged, leg1, leg2), 'split2': ...}"""
    env = dict(os.environ)
    out = subprocess.run([sys.executable, '-m', 'vf.props.c19', '--ref', name], capture_output=True, text=True, cwd=common.ROOT, env=env, timeout=900)
    if out.returncode != 0:
        raise RuntimeError(f'reference subprocess failed for {name}: {out.stderr[-500:]}')
    d = json.loads(out.stdout.strip().splitlines()[-1])
    return {k: _tup(v) for k, v in d.items()}


def _tup(x):
    return tuple(_tup(v) for v in x) if isinstance(x, (list, tuple)) else x


def expected(ref, how):
    """what the digest tuple of an observation must be"""
    if how == 'full':
        return (ref['full'], 'ok')
    if how == 'short':
        return (ref['short'], 'ok')
    k = how.split('@')[1]
    m, l1, l2 = ref['split' + k]
    return (ref['full'], l1, l2, 'ok')


def sequences(depth, names):
    """All operation sequences up to `depth` with at most two live controllers."""
    seqs = []

    def rec(seq, live):
        if seq:
            seqs.append(list(seq))
        if len(seq) == depth:
            return
        if len(live) < 2:
            for n in names:
                rec(seq + [('new', n)], live + [n])
        for i, n in enumerate(live):
            rec(seq + [('run', i)], live)
            if n in SHORT_RUNS:
                rec(seq + [('run_short', i)], live)
            if n in FIXED:
                for k in (1, 2):
                    rec(seq + [('split_same', i, k)], live)
                    rec(seq + [('split_fresh', i, k)], live)

    rec([], [])
    # one description object edited in place between the constructions of two differently configured controllers
    fam = [n for n in SHARED_FAMILY if n in names or n == 'sdcs']
    for a in fam:
        for b in fam:
            if a == b:
                continue
            for tail in ([('run', 1)], [('run', 0)], [('run', 0), ('run', 1)], [('run', 1), ('run', 0)]):
                if 2 + len(tail) <= max(depth, 3):
                    seqs.append([('new_shared', a), ('new_shared', b)] + list(tail))
    # one controller_params object reused for two differently configured controllers; the first one registers hooks of its
    # own (through its convergence controllers, or through add_hook by the user)
    for a, b in CP_PAIRS:
        if a not in names or b not in names:
            continue
        for tail in ([('run', 1)], [('run', 0), ('run', 1)], [('run', 1), ('run', 0)]):
            seqs.append([('new_cp', a), ('new_cp', b)] + list(tail))
        seqs.append([('new_cp', a), ('add_hook', 0), ('new_cp', b), ('run', 1)])
    # only sequences that end in an observation are interesting; drop those ending with 'new'
    return [s for s in seqs if not s[-1][0].startswith('new')]


def execute(seq):
    """Run one sequence in this process; returns list of (op index, config, how, digest)."""
    common.silence_logging()
    live = []
    obs = []
    shared = {}
    for idx, op in enumerate(seq):
        if op[0] == 'new':
            ctrl, P, dt = build(op[1])
            live.append((op[1], ctrl))
        elif op[0] == 'new_shared':
            ctrl, P, dt = build(op[1], shared=shared)
            live.append((op[1], ctrl))
        elif op[0] == 'new_cp':
            ctrl, P, dt = build(op[1], shared_cp=shared)
            live.append((op[1], ctrl))
        elif op[0] == 'add_hook':
            from pySDC.implementations.hooks.log_work import LogSDCIterations

            live[op[1]][1].add_hook(LogSDCIterations)
        elif op[0] == 'run':
            n, c = live[op[1]]
            obs.append((idx, n, 'full', logical_run(n, 'full', c)))
        elif op[0] == 'run_short':
            n, c = live[op[1]]
            obs.append((idx, n, 'short', logical_run(n, 'short', c)))
        elif op[0] == 'split_same':
            n, c = live[op[1]]
            obs.append((idx, n, f'split_same@{op[2]}', logical_run(n, ('split', op[2]), c)))
        elif op[0] == 'split_fresh':
            n, c = live[op[1]]
            c2, _, _ = build(n)
            obs.append((idx, n, f'split_fresh@{op[2]}', logical_run(n, ('split', op[2]), c, c2)))
    return seq, obs


def _exec_safe(seq):
    try:
        return execute(seq)
    except Exception as e:  # noqa
        return seq, [(-1, None, 'exception', (type(e).__name__ + ': ' + str(e)[:200], 0))]


def differs_in(dg, ref):
    names = ['whole run', 'first leg', 'second leg', 'time window of the entries'] if len(ref) == 4 else ['whole run', 'time window of the entries']
    names = [names[0]] + names[1:]
    return [names[i] for i in range(min(len(ref), len(dg))) if _tup(dg[i]) != _tup(ref[i])]


def classify(seq, idx, how):
    """Signature of a mismatch: which clause of the property it breaks, independent of the particular sequence."""
    prior_runs_same_ctrl = 0
    target = seq[idx][1]
    for op in seq[:idx]:
        if not op[0].startswith('new') and op[1] == target:
            prior_runs_same_ctrl += 1
    other_ctrl_activity = any(not op[0].startswith('new') and op[1] != target for op in seq[:idx]) or sum(1 for op in seq[:idx] if op[0].startswith('new')) > 1
    if how.startswith('split'):
        clause = how.split('@')[0]
    elif prior_runs_same_ctrl:
        clause = 'rerun_same_controller'
    elif other_ctrl_activity:
        clause = 'two_controllers_interfere'
    else:
        clause = 'fresh_controller'
    return clause


def run(rep, tier):
    rep.assumptions += [
        'reference = same logical run alone in a fresh interpreter (subprocess); statistics compared on every entry except timing_* and the _recomputed markers',
        'continuation time = end time of the last step as logged by the first part (the float the controller itself accumulated)',
        'adaptive configuration only takes part in run() (the re-run / split clauses of the property are for fixed step sizes)',
    ]
    names = ALL if tier == 'thorough' else ['sdc', 'lobatto', 'mlsdc', 'mlsdc_equid', 'mlsdc_flex', 'newton_inexact', 'pfasst', 'mssdc', 'hooks', 'restarts', 'status_vars', 'sdc/random', 'adaptive']
    depth = 4 if tier == 'thorough' else 3
    refs = dict(zip(ALL, common.pmap(reference, ALL, nproc=min(8, common.NPROC))))
    # the reference itself must be reproducible: second subprocess for two configurations
    for n in ('pfasst', 'hooks'):
        if reference(n) != refs[n]:
            rep.violation({'kind': 'fresh_process_not_reproducible', 'config': n}, {}, {'seq': [['new', n], ['run', 0]]})
    seqs = sequences(depth, names)
    common.rng('c19').shuffle(seqs)
    nobs = 0
    states = set()
    trans = 0
    best = {}
    for seq, obs in common.pimap_unordered(_exec_safe, seqs, chunksize=8):
        trans += len(seq)
        for i in range(1, len(seq) + 1):
            states.add(common.canon(seq[:i]))
        for idx, n, how, dg in obs:
            nobs += 1
            if how == 'exception':
                rep.violation({'kind': 'exception_in_sequence', 'error': dg[0][:80]}, {'seq': seq}, {'seq': seq})
                continue
            clause = classify(seq, idx, how)
            if n not in FIXED and clause != 'fresh_controller' and clause != 'two_controllers_interfere':
                continue  # re-run / split clauses are stated for fixed step sizes only
            if n not in FIXED and any(not op[0].startswith('new') and op[1] == seq[idx][1] for op in seq[:idx]):
                continue
            if _tup(dg) != expected(refs[n], how):
                sig = {'kind': 'digest_differs', 'clause': clause, 'config': n}
                cand = (len(seq), seq, idx, how, dg)
                key = common.canon(sig)
                if key not in best or cand[0] < best[key][1][0]:
                    best[key] = (sig, cand)
    for key, (sig, (ln, seq, idx, how, dg)) in best.items():
        rep.violation(sig, {'sequence': seq, 'op_index': idx, 'how': how, 'digest': dg, 'reference': expected(refs[sig['config']], how), 'differs_in': differs_in(dg, expected(refs[sig['config']], how))}, {'seq': seq})
    rep.coverage.update(
        {
            'states': len(states),
            'transitions': trans,
            'traces_validated_against_impl': len(seqs),
            'observations_compared': nobs,
            'depth': depth,
            'configurations': names,
            'samples': [seqs[0], seqs[len(seqs) // 2]],
            'exhaustive': True,
            'rule': 'every operation sequence up to the depth with at most two live controllers; states = distinct sequence prefixes',
        }
    )


def replay(rep, case):
    seq = [tuple(op) for op in case['seq']]
    seq, obs = _exec_safe(seq)
    for idx, n, how, dg in obs:
        if how == 'exception':
            rep.violation({'kind': 'exception_in_sequence', 'error': dg[0][:80]}, {'seq': seq}, case)
            continue
        ref = expected(reference(n), how)
        if _tup(dg) != ref:
            rep.violation({'kind': 'digest_differs', 'clause': classify(seq, idx, how), 'config': n}, {'sequence': seq, 'op_index': idx, 'how': how, 'digest': dg, 'reference': ref, 'differs_in': differs_in(dg, ref)}, case)


if __name__ == '__main__':
    if len(sys.argv) == 3 and sys.argv[1] == '--ref':
        common.silence_logging()
        common.assert_repo()
        name = sys.argv[2]
        res = {}
        ctrl, P, dt = build(name)
        res['full'] = logical_run(name, 'full', ctrl)[0]
        res['short'] = logical_run(name, 'short', build(name)[0])[0]
        if name in FIXED:
            for k in (1, 2):
                a, _, _ = build(name)
                b, _, _ = build(name)
                r = logical_run(name, ('split', k), a, b)
                res[f'split{k}'] = (r[0], r[1], r[2])
        print(json.dumps(res))
