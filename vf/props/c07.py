"""C07 — block protocol is safe for every convergence pattern of the parallel steps (engine E1, full tree)."""

from vf import common
from vf.env import block
from vf.props import _e1

LEVEL = 'model_checking'


def variants(Ps, Ks, Ls=(1, 2, 3), nsweeps=(1, 2), **over):
    out = []
    for L in Ls:
        predicts = [None] if L == 1 else [None, 'fine_only', 'pfasst_burnin']
        jacs = [True, False] if L == 1 else [True]
        for pr in predicts:
            for jac in jacs:
                for atd in (False, True):
                    for ns in nsweeps:
                        for P in Ps:
                            for K in Ks:
                                out.append(block.default_cfg(P=P, K=K, L=L, nsweeps=ns, predict=pr, jac=jac, all_to_done=atd, **over))
    return out


def make(cfg):
    return block.BlockRun(cfg)


def run(rep, tier):
    rep.assumptions += [
        'environment = scripted residual answers on the finest level (IT_CHECK) and forced flags; everything else is the real controller_nonMPI, Step, Level, CheckConvergence, BaseTransfer, generic_implicit on testequation0d',
        'RADAU-RIGHT nodes (3/2/1 per level), identity space transfer, so uend is the last node value',
    ]
    plan = []
    if tier == 'quick':
        plan.append(('full P<=3,K<=3 all variants', variants((1, 2, 3), (1, 2, 3)), None))
        plan.append(('full P=4,K=3 (SDC jac/GS, PFASST burn-in)', [c for c in variants((4,), (3,), Ls=(1, 2), nsweeps=(1,)) if not c['all_to_done'] and c['predict'] in (None, 'pfasst_burnin') and (c['L'] == 1 or c['predict'])], None))
        plan.append(('forced flags <=1, P<=3,K<=2', [c for c in variants((2, 3), (1, 2), Ls=(1, 2), nsweeps=(1,), forced=True) if c['predict'] in (None, 'pfasst_burnin')], 1))
        plan.append(('two blocks full P=2,K=2 (all three predictors)', variants((2,), (2,), nsweeps=(1,), nblocks=2, state_block=True), None))
        plan.append(('full tree, two blocks of which the second is only partially filled (P-1 and 1 active steps), P=2..3,K<=2', [dict(c, nblocks=2, Tend=0.125 * n) for c in variants((2, 3), (1, 2), Ls=(1, 2), nsweeps=(1,)) if c['predict'] in (None, 'pfasst_burnin') for n in sorted({2 * c['P'] - 1, c['P'] + 1})], None))
        plan.append(('forced flag or convergence deviation (<=1), two blocks and a second run() on the same controller, P=2..3,K=2', [dict(c, **extra) for c in variants((2, 3), (2,), Ls=(1, 2), nsweeps=(1,), forced=True, conv_cost=1) if c['predict'] in (None, 'pfasst_burnin') for extra in (dict(nblocks=2), dict(second_run=0.125 * c['P']))], 1))
    else:
        plan.append(('full tree, two blocks of which the second is only partially filled (every number of active steps), P=2..3,K<=2 (P=4: K=1)', [dict(c, nblocks=2, Tend=0.125 * n) for c in variants((2, 3), (1, 2), Ls=(1, 2, 3), nsweeps=(1,)) + variants((4,), (1,), Ls=(1, 2), nsweeps=(1,)) for n in range(c['P'] + 1, 2 * c['P'])], None))
        plan.append(('forced flags and convergence deviations (<=2 together), two blocks and a second run() on the same controller, P=2..3,K=2', [dict(c, **extra) for c in variants((2, 3), (2,), Ls=(1, 2, 3), nsweeps=(1,), forced=True, conv_cost=1) for extra in (dict(nblocks=2), dict(second_run=0.125 * c['P']))], 2))
        plan.append(('full P<=3,K<=4 all variants', variants((1, 2, 3), (1, 2, 3, 4)), None))
        plan.append(('full P=4,K<=3 all variants', variants((4,), (1, 2, 3)), None))
        plan.append(('full P=4,K=4 six variants', [c for c in variants((4,), (4,), nsweeps=(1,)) if (c['L'] == 1) or (c['predict'] == 'pfasst_burnin' and not c['all_to_done'])], None))
        plan.append(('forced flags <=2, P<=3,K<=2', variants((2, 3), (1, 2), nsweeps=(1,), forced=True), 2))
        plan.append(('forced flags <=1, P<=3,K=3 / P=4,K=2', variants((3,), (3,), nsweeps=(1,), forced=True) + variants((4,), (2,), Ls=(1, 2), nsweeps=(1,), forced=True), 1))
        plan.append(('two blocks full P<=3,K=2', variants((2, 3), (2,), nsweeps=(1,), nblocks=2, state_block=True), None))
        plan.append(('two blocks <=3 conv deviations P=3,K=3', variants((3,), (3,), nsweeps=(1,), nblocks=2, state_block=True, conv_cost=1), 3))
    bounds = []
    for label, vs, bound in plan:
        res = _e1.explore_variants(rep, make, vs, bound=bound, label=label)
        n = sum(st.executions for _, st in res)
        bounds.append({'space': label, 'variants': len(vs), 'executions': n, 'deviation_bound': bound, 'capped': any(st.capped for _, st in res)})
    rep.coverage['bounds_completed'] = bounds
    rep.coverage['exhaustive'] = not any(b['capped'] for b in bounds)
    rep.coverage['rule'] = 'every sequence of environment answers (converged / not per (step, check); forced flags) the real run consults, per configuration; states = canonical per-step status tuples after every pfasst() macro step'


def replay(rep, case):
    _e1.replay_case(rep, make, case)
