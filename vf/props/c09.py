"""C09 — restarts and step-size control keep their promises for every failure sequence (engine E1)."""

from vf import common
from vf.env import block
from vf.props import _e1

LEVEL = 'model_checking'

POST = ('vf.props._hist:check_tiling', 'vf.props._hist:check_restarts')
CHECKS = ('protocol', 'recv', 'grammar')


def cfg(**kw):
    base = dict(P=3, K=1, jac=False, nblocks=4, checks=CHECKS, post_checks=POST, max_blocks=300, adaptive={'e_tol': 1.0}, restarting={'max_restarts': 2})
    base.update(kw)
    return block.default_cfg(**base)


LIMITERS = {
    'none': {},
    'dt_min': {'dt_min': 0.06},
    'dt_max': {'dt_max': 0.2},
    'slope': {'dt_slope_min': 0.5, 'dt_slope_max': 1.5},
    'rel_min_slope': {'dt_rel_min_slope': 0.85},
    'all': {'dt_min': 0.06, 'dt_max': 0.2, 'dt_slope_min': 0.5, 'dt_slope_max': 1.5},
    # slope limits that lie inside the band in which small changes are ignored: the rules meet
    'slope_in_band': {'dt_slope_min': 0.5, 'dt_slope_max': 1.5, 'dt_rel_min_slope': 0.6},
}


def ball(radius, Ps=(1, 2, 3)):
    """Configurations differing from the base in at most `radius` of the dimensions below."""
    dims = {
        'P': list(Ps),
        'max_restarts': [2, 0, 1, 3],
        'from_first': [False, True],
        'crash': [True, False],
        'tend': ['far', 'two_and_a_half', 'inside_first'],
        'limiter': list(LIMITERS),
        'K': [1, 2],
        'L': [1, 2],
    }
    base = {k: v[0] for k, v in dims.items()}
    base['P'] = 3
    import itertools

    out = []
    seen = set()
    names = list(dims)
    for r in range(radius + 1):
        for which in itertools.combinations(names, r):
            for vals in itertools.product(*[[v for v in dims[d] if v != base[d]] for d in which]):
                c = dict(base)
                c.update(dict(zip(which, vals)))
                key = tuple(sorted(c.items()))
                if key in seen:
                    continue
                seen.add(key)
                out.append(c)
    return out


def to_cfg(c, **extra):
    dt = 0.125
    P = c['P']
    tend = {'far': 4 * P * dt, 'two_and_a_half': 2.5 * dt, 'inside_first': 0.6 * dt}[c['tend']]
    return cfg(
        P=P,
        K=c['K'],
        L=c.get('L', 1),
        predict='pfasst_burnin' if c.get('L', 1) > 1 else None,
        Tend=tend,
        adaptive={'e_tol': 1.0, **LIMITERS[c['limiter']]},
        restarting={'max_restarts': c['max_restarts'], 'restart_from_first_step': c['from_first'], 'crash_after_max_restarts': c['crash']},
        **extra,
    )


def make(c):
    return block.BlockRun(c)


REAL_POST = ('vf.props._hist:check_tiling', 'vf.props._hist:check_real')
REAL_LIMITERS = {'none': {}, 'slope': {'dt_slope_min': 0.5, 'dt_slope_max': 1.5}, 'minmax': {'dt_min': 5e-3, 'dt_max': 0.08}}


def real_cfgs(tier):
    out = []
    ests = ['embedded', 'rk', 'polynomial', 'extrapolation']
    probs = ['vdp', 'lorenz', 'heat', 'dahlquist']
    tols = [1e-3, 1e-5, 1e-7] if tier == 'thorough' else [1e-3, 1e-6]
    for est in ests:
        for prob in probs:
            for tol in tols:
                for P in ((1, 2, 3) if est == 'embedded' else (1,)):
                    for lname in (list(REAL_LIMITERS) if tier == 'thorough' or (est == 'embedded' and P == 1) else ['none']):
                        out.append(
                            block.default_cfg(
                                P=P, K=4, jac=False, factory='vf.env.realruns:make', real={'estimator': est, 'problem': prob, 'tol': tol, 'limiter': REAL_LIMITERS[lname], 'restarting': {'max_restarts': 10}},
                                Tend=0.3 if prob != 'lorenz' else 0.1, checks=('protocol',), post_checks=REAL_POST, max_blocks=5000, max_macro=600,
                            )
                        )
    # the shipped Adaptivity with `avoid_restarts` (a step above the tolerance may get extra iterations instead of a
    # restart when the contraction-factor extrapolation says so): the acceptance clause is judged on what is observed
    for prob, mu_tols in (('vdp', (1e-5, 1e-6, 1e-7)), ('lorenz', (1e-5, 1e-6)), ('dahlquist', (1e-6,))):
        for tol in mu_tols if tier == 'thorough' else mu_tols[-2:]:
            for P in (1, 2):
                out.append(
                    block.default_cfg(
                        P=P, K=4, jac=False, factory='vf.env.realruns:make', real={'estimator': 'embedded', 'problem': prob, 'tol': tol, 'limiter': {'avoid_restarts': True}, 'restarting': {'max_restarts': 10}},
                        Tend=0.3 if prob != 'lorenz' else 0.1, checks=('protocol',), post_checks=REAL_POST, max_blocks=5000, max_macro=600,
                    )
                )
    return out


def run(rep, tier):
    rep.assumptions += [
        'environment = scripted error estimates (alphabet x e_tol: ' + str([0.5, 2.0, 0.01, 1.0, 100.0, 0.999]) + ' (quick: the first four)' + ') through the real Adaptivity controller, and direct restart requests; real BasicRestartingNonMPI, SpreadStepSizesBlockwiseNonMPI, StepSizeLimiter, StepSizeSlopeLimiter, controller_nonMPI',
        'budget reading used for "unless the retry budget was exhausted": the block-level budget of the first step (lenient)',
    ]
    plan = []
    if tier == 'quick':
        plan.append(('estimates (first four letters), config ball radius 1, <=2 deviations', [to_cfg(c, est_n=4) for c in ball(1)], 2))
        pairs = [dict(ball(0)[0], from_first=ff, limiter=lim) for ff in (False, True) for lim in LIMITERS]
        plan.append(('restart mode x limiter x order in which the user lists the controllers (pairwise), P=3, <=2 deviations', [to_cfg(c, est_n=4, restarting_first=rf) for c in pairs for rf in (False, True) if rf or (c['from_first'] and c['limiter'] != 'none')], 2))
        plan.append(('direct restart requests, P in 2..3, <=3 requests', [cfg(P=P, adaptive=None, restart_script=True, restarting={'max_restarts': m, 'restart_from_first_step': ff}) for P in (2, 3) for m in (1, 2) for ff in (False, True)], 3))
    else:
        # sized so that the whole tier is a few hundred thousand executions (about half an hour on 16 cores)
        plan.append(('estimates (first four letters), config ball radius 2, <=2 deviations', [to_cfg(c, est_n=4) for c in ball(2)], 2))
        plan.append(('estimates (all six letters), config ball radius 1 incl. P=4, <=2 deviations', [to_cfg(c) for c in ball(1, Ps=(1, 2, 3, 4)) if c['limiter'] != 'rel_min_slope'], 2))  # with that limiter a 100x rejection is followed by ~1500 tiny steps (growth below the relative threshold is ignored): covered with the four-letter alphabet only
        pairs = [dict(ball(0)[0], from_first=ff, limiter=lim) for ff in (False, True) for lim in LIMITERS]
        plan.append(('restart mode x limiter x order in which the user lists the controllers (pairwise), P=3, <=2 deviations', [to_cfg(c, est_n=4, restarting_first=rf) for c in pairs for rf in (False, True)], 2))
        plan.append(('estimates (first four letters), controllers listed in the other order, config ball radius 1, <=2 deviations', [to_cfg(c, est_n=4, restarting_first=True) for c in ball(1)], 2))
        plan.append(('estimates (first four letters), base configuration with P in 2..4, <=3 deviations', [to_cfg(dict(ball(0)[0], P=P), est_n=4) for P in (2, 3, 4)], 3))
        plan.append(('direct restart requests, P in 2..4, <=3 requests (P<=3: <=4)', [cfg(P=P, adaptive=None, restart_script=True, restarting={'max_restarts': m, 'restart_from_first_step': ff, 'crash_after_max_restarts': cr}) for P in (4,) for m in (0, 1, 2) for ff in (False, True) for cr in (True, False)], 3))
        plan.append(('direct restart requests, P in 2..3, <=4 requests', [cfg(P=P, adaptive=None, restart_script=True, restarting={'max_restarts': m, 'restart_from_first_step': ff, 'crash_after_max_restarts': cr}) for P in (2, 3) for m in (0, 1, 2) for ff in (False, True) for cr in (True, False)], 4))
        plan.append(('estimates + direct requests together, P=3, <=3 deviations', [cfg(P=3, restart_script=True, est_n=4, restarting={'max_restarts': m}) for m in (1, 2)], 3))
    plan.append(('restart flag raised in any convergence check (possibly while predecessors still iterate), K=2, <=2 requests', [cfg(P=P, K=2, jac=jac, nblocks=2, adaptive=None, restart_script=True, restart_early=True, restarting={'max_restarts': m, 'restart_from_first_step': ff}) for P in ((2, 3) if tier == 'quick' else (2, 3, 4)) for jac in (False, True) for m in (1, 2) for ff in (False, True)], 2 if tier == 'quick' else 3))
    plan.append(('direct restart requests from a detector BEHIND BasicRestarting in the control order (flags are not passed on to the later steps), P in 2..4, <=2 requests', [cfg(P=P, jac=jac, adaptive=None, restart_script=True, restart_late=True, restarting={'max_restarts': 10, 'restart_from_first_step': False}) for P in (2, 3, 4) for jac in (False, True)], 2))
    # (restart_from_first_step is left out here: with residual-driven convergence the steps of a block finish in different
    # iterations, and the library then keeps the steps that finished before the rejected one - which is what the statement
    # promises for "the steps before it")
    plan.append(('AdaptivityPolynomialError with restart_at_maxiter: scripted residual answers against a positive tolerance (default: converged) and scripted estimates, <=3 deviations; steps that use up their sweeps unconverged are rejected, K=2', [cfg(P=P, K=2, jac=jac, nblocks=2, adaptive={'e_tol': 1.0}, adaptive_family='polynomial', nonconv=True, conv_flip=True, conv_cost=1, est_n=4, restarting={'max_restarts': 2, 'restart_from_first_step': False}) for P in ((1, 2, 3) if tier == 'quick' else (1, 2, 3, 4)) for jac in (False, True)], 3))
    plan.append(('AdaptivityPolynomialError (decides only at convergence) with scripted estimates and restart flags raised in any check, K=2, <=2 deviations', [cfg(P=P, K=2, jac=jac, nblocks=2, adaptive={'e_tol': 1.0}, adaptive_family='polynomial', est_n=4, restart_script=True, restart_early=True, restarting={'max_restarts': 2, 'restart_from_first_step': ff}) for P in ((1, 2, 3) if tier == 'quick' else (1, 2, 3, 4)) for jac in (False, True) for ff in (False, True)], 2))
    sec = []
    for P, tend in ((3, 'two_and_a_half'), (3, 'far')) + (((4, 'far'), (2, 'far')) if tier == 'thorough' else ()):
        c = dict(ball(0)[0])
        c['P'], c['tend'] = P, tend
        sec.append(to_cfg(c, est_n=4, second_run=0.5))
    plan.append(('second run() on the same controller after an adaptive run, <=2 deviations over both runs', sec, 2))
    plan.append(('real adaptive runs (no scripted environment): estimator x problem x tolerance x P x limiter', real_cfgs(tier), 0))
    bounds = []
    for label, vs, bound in plan:
        res = _e1.explore_variants(rep, make, vs, bound=bound, label=label)
        n = sum(st.executions for _, st in res)
        bounds.append({'space': label, 'variants': len(vs), 'executions': n, 'deviation_bound': bound, 'capped': any(st.capped for _, st in res)})
    rep.coverage['bounds_completed'] = bounds
    rep.coverage['exhaustive'] = not any(b['capped'] for b in bounds)
    rep.coverage['rule'] = 'every script of environment answers with at most the stated number of non-default answers (default = accept with growth / no restart request), per configuration of the ball; runs go to Tend'


def replay(rep, case):
    case['cfg']['debug'] = True
    _e1.replay_case(rep, make, case)
