"""C04 — k SDC iterations give order min(k, p) in every Taylor coefficient of the stability function; converged SDC is
the collocation stability function; every Runge-Kutta sweeper attains its documented order and the embedded difference
vanishes to get_update_order()  (engine E2).

Each case is one real `controller_nonMPI(num_procs=1).run` over one step on the linear test equation whose lambda
vector is a circle (IMEX: a torus) of complex z / dt.  R(z_n) = uend_n / u0_n, the discrete Fourier transform over n
gives every Taylor coefficient of the real step function at once.  Oracle: vf/oracle/sdc.py.
"""

import collections
import math
import time

import mpmath as mp
import numpy as np

import pySDC  # noqa: F401
from pySDC.helpers.stats_helper import get_sorted
from pySDC.implementations.controller_classes.controller_nonMPI import controller_nonMPI
from pySDC.implementations.problem_classes.TestEquation_0D import testequation0d, test_equation_IMEX
from pySDC.implementations.sweeper_classes.explicit import explicit
from pySDC.implementations.sweeper_classes.generic_implicit import generic_implicit
from pySDC.implementations.sweeper_classes.imex_1st_order import imex_1st_order
import pySDC.implementations.sweeper_classes.Runge_Kutta as RKmod

from vf import common
from vf.oracle import sdc as O

LEVEL = 'exploration'

EPS = O.EPS
C_PT = 500.0  # pointwise |R_impl(z_n) - R_oracle(z_n)| <= C_PT eps scale_n
C_TAY = 500.0  # Taylor coefficient: |c_j - ref| <= C_TAY eps max|R| / r^j   (Cauchy estimate)
THR_ORACLE = 1e-13  # the oracle's own exact-series coefficient counts as equal to 1/j! below this (float nodes)
N_CIRCLE = 64
N_TORUS = 32
DT = 1.0

NODE_TYPES = ['LEGENDRE', 'EQUID', 'CHEBY-1', 'CHEBY-2', 'CHEBY-3', 'CHEBY-4']
QUAD_TYPES = ['GAUSS', 'LOBATTO', 'RADAU-LEFT', 'RADAU-RIGHT']
ALL_FAMILIES = [(nt, qt) for nt in NODE_TYPES for qt in QUAD_TYPES]
LEG = [('LEGENDRE', qt) for qt in QUAD_TYPES]

KINDS = {
    'implicit': dict(cls=generic_implicit, slots=[('QI', False)]),
    'explicit': dict(cls=explicit, slots=[('QE', True)]),
    'imex': dict(cls=imex_1st_order, slots=[('QI', False), ('QE', True)]),
}


# ======================================================================================================================
class Res:
    def __init__(self):
        self.evals = 0
        self.cases = 0
        self.runs = 0
        self.outcomes = collections.Counter()
        self.worst = 0.0
        self.worst_where = None
        self.viols = []
        self.nontrivial = 0
        self.samples = []
        self.table = {}  # name -> min over cases of (oracle order - min(k,p))
        self.rk_table = {}

    def merge(self, o):
        self.evals += o.evals
        self.cases += o.cases
        self.runs += o.runs
        self.outcomes.update(o.outcomes)
        if o.worst > self.worst:
            self.worst, self.worst_where = o.worst, o.worst_where
        self.viols += o.viols
        self.nontrivial += o.nontrivial
        if len(self.samples) < 6:
            self.samples += o.samples[: 6 - len(self.samples)]
        for k, v in o.table.items():
            if k not in self.table:
                self.table[k] = dict(v)
            else:
                t = self.table[k]
                t['min_surplus'] = min(t['min_surplus'], v['min_surplus'])
                t['max_surplus'] = max(t['max_surplus'], v['max_surplus'])
                t['cases'] += v['cases']
        self.rk_table.update(o.rk_table)


def record(res, cfg, check, ratio, detail):
    res.evals += 1
    if not (ratio <= 1.0):
        key = check
        if key in cfg['_seen']:
            return False
        cfg['_seen'].add(key)
        pub = {k: v for k, v in cfg.items() if not k.startswith('_')}
        res.viols.append({'cfg': pub, 'check': check, 'detail': detail})
        return False
    if ratio > res.worst:
        res.worst = ratio
        res.worst_where = {**{k: v for k, v in cfg.items() if not k.startswith('_')}, 'check': check}
    return True


# ======================================================================================================================
# the real run
# ======================================================================================================================
def run_step(problem_class, problem_params, sweeper_class, sweeper_params, maxiter, restol=-1.0, n=None, nsweeps=1):
    description = {
        'problem_class': problem_class,
        'problem_params': problem_params,
        'sweeper_class': sweeper_class,
        'sweeper_params': sweeper_params,
        'level_params': {'dt': DT, 'restol': restol, 'nsweeps': nsweeps},
        'step_params': {'maxiter': maxiter},
    }
    ctrl = controller_nonMPI(num_procs=1, controller_params={'logger_level': 90}, description=description)
    P = ctrl.MS[0].levels[0].prob
    u0 = P.dtype_u(P.init, val=1.0) if n is None else n(P)
    uend, stats = ctrl.run(u0=u0, t0=0.0, Tend=DT)
    niter = get_sorted(stats, type='niter')[-1][1]
    return np.array(np.asarray(uend), copy=True), niter, ctrl


def circle(r, N=N_CIRCLE):
    return r * np.exp(2j * np.pi * np.arange(N) / N)


# ======================================================================================================================
# SDC clause
# ======================================================================================================================
def coeff_seq(name, nt, qt, M, k, expl, variant='iterations'):
    """QD matrices (MxM) of the k sweeps.  The controller passes the index of the sweep *within* one iteration to
    updateVariableCoeffs: with maxiter=k, nsweeps=1 ('iterations') every sweep has index 1; with maxiter=1, nsweeps=k
    ('sweeps') the indices are 1..k.  Returns (status, list) with status in ok / unavailable / nonfinite / rejected."""
    out = []
    kdep = O.qd_is_kdep(name)
    for i in range(1, k + 1):
        idx = None if not kdep else (1 if variant == 'iterations' else i)
        c = O.qd_coeffs(name, nt, qt, M, idx)
        if c['status'] != 'ok':
            return c['status'], None
        if O.predicted_rejection(c['QD'], expl):
            return 'rejected', None
        out.append(c['QD'])
    return 'ok', out


def safe_rho(N, mult):
    """ratio r / pole radius such that the aliasing term of an N-point DFT, ~ binom(N+mult-1, mult-1) rho^N for poles of
    multiplicity mult, stays below 1e-19."""
    return min(0.5, (1e-19 / math.comb(N + mult - 1, max(mult - 1, 0))) ** (1.0 / N))


def mp_close(a, b, thr):
    return abs(a - b) <= thr


def run_sdc_unit(unit):
    """unit: kind, names, node_type, quad_type, M, ks (or None = 1..p+2), modes; loops over k and end-point mode."""
    common.silence_logging()
    res = Res()
    kind, names, nt, qt, M = unit['kind'], unit['names'], unit['node_type'], unit['quad_type'], unit['M']
    spec = KINDS[kind]
    try:
        nodes, p = O.collocation_nodes(nt, qt, M)
    except Exception:
        res.cases += 1
        res.outcomes['node_set_unavailable'] += 1
        return res
    Q, w = O.lagrange_Q(nodes)
    right = qt in ('LOBATTO', 'RADAU-RIGHT')
    modes = [False, True] if right else [True]
    kmax = p + 2
    ks = list(range(1, kmax + 1))
    label = '+'.join(O.qd_class_of(names[s]) for s, _ in spec['slots'])
    kdep_any = any(O.qd_is_kdep(n) for n in names.values())
    variants = ['iterations', 'sweeps'] if kdep_any else ['iterations']
    for k in ks:
      for variant in variants:
        if variant == 'sweeps' and k == 1:
            continue
        seqs = []
        status = 'ok'
        for slot, expl in spec['slots']:
            st, seq = coeff_seq(names[slot], nt, qt, M, k, expl, variant)
            if st != 'ok':
                status = st
                break
            seqs.append(seq)
        for mode in modes:
            cfg = dict(clause='sdc', kind=kind, names=dict(names), node_type=nt, quad_type=qt, M=M, k=k, do_coll_update=mode, variant=variant, _seen=set())
            res.cases += 1
            if status != 'ok':
                res.outcomes[{'unavailable': 'generator_unavailable', 'nonfinite': 'degenerate_nonfinite', 'rejected': 'rejected_by_contract(predicted)'}[status]] += 1
                # the run itself must refuse as well (C02 checks the taxonomy in depth); here: one construction attempt
                if k == 1 and mode == modes[0] and status in ('unavailable', 'rejected'):
                    try:
                        run_sdc_case(res, cfg, spec, nodes, Q, w, p, None, right, expect_failure=True)
                    except Exception:
                        pass
                continue
            try:
                run_sdc_case(res, cfg, spec, nodes, Q, w, p, seqs, right)
            except Exception as e:
                import traceback

                record(res, cfg, 'exception', float('inf'), {'error': f'{type(e).__name__}: {str(e)[:300]}', 'trace': traceback.format_exc()[-800:]})
      if True:
        if status != 'ok':
            # the outcome does not depend on k for non k-dependent generators
            if not kdep_any:
                res.cases += (len(ks) - 1) * len(modes)
                res.outcomes[{'unavailable': 'generator_unavailable', 'nonfinite': 'degenerate_nonfinite', 'rejected': 'rejected_by_contract(predicted)'}[status]] += (len(ks) - 1) * len(modes)
                break
    # converged clause (once per unit and mode)
    if unit.get('converged', True):
        for mode in modes:
            cfg = dict(clause='sdc_converged', kind=kind, names=dict(names), node_type=nt, quad_type=qt, M=M, k=None, do_coll_update=mode, _seen=set())
            res.cases += 1
            try:
                run_converged_case(res, cfg, spec, nodes, Q, w, p, right)
            except Exception as e:
                import traceback

                record(res, cfg, 'exception', float('inf'), {'error': f'{type(e).__name__}: {str(e)[:300]}', 'trace': traceback.format_exc()[-800:]})
    return res


def pole_radius(seqs):
    d = 0.0
    for seq in seqs:
        for QD in seq:
            d = max(d, float(np.max(np.abs(np.diag(QD)), initial=0.0)))
    return float('inf') if d == 0 else 1.0 / d


def sweeper_params_for(cfg):
    return {'num_nodes': cfg['M'], 'node_type': cfg['node_type'], 'quad_type': cfg['quad_type'], 'initial_guess': 'spread', 'do_coll_update': cfg['do_coll_update'], **cfg['names']}


def run_sdc_case(res, cfg, spec, nodes, Q, w, p, seqs, right, expect_failure=False):
    kind, M, k, mode = cfg['kind'], cfg['M'], cfg['k'], cfg['do_coll_update']
    if expect_failure:
        try:
            run_step(testequation0d, {'lambdas': np.array([0.1 + 0j]), 'u0': 1.0}, spec['cls'], sweeper_params_for(cfg), 1) if kind != 'imex' else run_step(
                test_equation_IMEX, {'lambdas_implicit': np.array([0.1 + 0j]), 'lambdas_explicit': np.array([0.1 + 0j]), 'u0': 1.0}, spec['cls'], sweeper_params_for(cfg), 1
            )
        except Exception:
            return
        record(res, cfg, 'outcome.unpredicted_acceptance', float('inf'), {'note': 'oracle predicts rejection / unavailability from the qmat coefficients'})
        return
    variant = cfg.get('variant', 'iterations')
    rp = pole_radius(seqs[:1] if kind != 'explicit' else [])  # explicit slot has zero diagonal
    # R_k has poles of multiplicity up to k at 1/diag(QD): choose r so that the DFT aliasing stays below rounding
    r = min(1.0, safe_rho(N_CIRCLE if kind != 'imex' else N_TORUS, k) * rp)
    if r < 0.02:
        res.outcomes['pole_radius_too_small'] += 1
        return
    cfg['r'] = r
    J = min(p + 3, 20)
    m_req = min(k, p)
    if kind != 'imex':
        z = circle(r)
        Rimp, niter, _ = run_step(testequation0d, {'lambdas': z / DT, 'u0': 1.0}, spec['cls'], sweeper_params_for(cfg), k if variant == 'iterations' else 1, nsweeps=1 if variant == 'iterations' else k)
        res.runs += 1
        if niter != (k if variant == 'iterations' else 1):
            record(res, cfg, 'niter', float('inf'), {'expected': k, 'observed': niter})
            return
        Ror, sc = O.sdc_stability(nodes, Q, w, seqs, [z], right, mode)
        ratio = float(np.max(np.abs(Rimp - Ror) / (C_PT * EPS * sc)))
        record(res, cfg, 'pointwise.R_k(z)=oracle', ratio, {'max_abs_diff': float(np.max(np.abs(Rimp - Ror))), 'tol_min': float(np.min(C_PT * EPS * sc)), 'z_worst': z[int(np.argmax(np.abs(Rimp - Ror) / sc))]})
        c = O.taylor_from_circle(Rimp, r)
        Rmax = float(np.max(sc))  # rounding scale of the samples (>= max|R|): Cauchy estimate for the DFT
        cor = O.sdc_taylor_mp(nodes, seqs[0], J, right, mode)
        # (a) every Taylor coefficient of the real step function equals the oracle's exact series coefficient
        worst_j, worst = None, 0.0
        for j in range(J + 1):
            tol = C_TAY * EPS * max(Rmax, 1.0) / r**j
            rt = abs(c[j] - complex(cor[j])) / tol
            if rt > worst:
                worst, worst_j = rt, j
        record(res, cfg, 'taylor.c_j=oracle_series', worst, {'j': worst_j, 'c_j_impl': c[worst_j] if worst_j is not None else None, 'c_j_oracle': complex(cor[worst_j]) if worst_j is not None else None})
        # (b) the property: c_j = 1/j! for j <= min(k, p)
        worst_j, worst = None, 0.0
        for j in range(m_req + 1):
            tol = C_TAY * EPS * max(Rmax, 1.0) / r**j
            rt = abs(c[j] - 1.0 / math.factorial(j)) / tol
            if rt > worst:
                worst, worst_j = rt, j
        record(res, cfg, 'taylor.c_j=1/j!_for_j<=min(k,p)', worst, {'j': worst_j, 'c_j_impl': c[worst_j] if worst_j is not None else None, 'expected': 1.0 / math.factorial(worst_j) if worst_j is not None else None, 'min(k,p)': m_req, 'p': p})
        # (c) order delivered by the oracle's own dense iteration (exact series): classification table
        q = 0
        for j in range(J + 1):
            if mp_close(cor[j], mp.mpf(1) / mp.factorial(j), THR_ORACLE):
                q = j
            else:
                break
        else:
            q = J
    else:
        NI = NE = N_TORUS
        zI = circle(r, NI)
        zE = circle(r, NE)
        ZI, ZE = np.meshgrid(zI, zE, indexing='ij')
        Rimp, niter, _ = run_step(test_equation_IMEX, {'lambdas_implicit': ZI.reshape(-1) / DT, 'lambdas_explicit': ZE.reshape(-1) / DT, 'u0': 1.0}, spec['cls'], sweeper_params_for(cfg), k if variant == 'iterations' else 1, nsweeps=1 if variant == 'iterations' else k)
        res.runs += 1
        if niter != (k if variant == 'iterations' else 1):
            record(res, cfg, 'niter', float('inf'), {'expected': k, 'observed': niter})
            return
        Ror, sc = O.sdc_stability(nodes, Q, w, seqs, [ZI.reshape(-1), ZE.reshape(-1)], right, mode)
        ratio = float(np.max(np.abs(Rimp - Ror) / (C_PT * EPS * sc)))
        record(res, cfg, 'pointwise.R_k(zI,zE)=oracle', ratio, {'max_abs_diff': float(np.max(np.abs(Rimp - Ror)))})
        c2 = O.taylor_from_torus(Rimp.reshape(NI, NE), r, r)
        Rmax = float(np.max(sc))
        Jm = min(J, 8)
        cor = O.sdc_taylor2_mp(nodes, seqs[0], seqs[1], Jm, right, mode)
        worst, wj = 0.0, None
        for (a, b), v in cor.items():
            tol = C_TAY * EPS * max(Rmax, 1.0) / r ** (a + b)
            rt = abs(c2[a, b] - complex(v)) / tol
            if rt > worst:
                worst, wj = rt, (a, b)
        record(res, cfg, 'taylor.c_ab=oracle_series', worst, {'ab': wj})
        worst, wj = 0.0, None
        for a in range(m_req + 1):
            for b in range(m_req + 1 - a):
                tol = C_TAY * EPS * max(Rmax, 1.0) / r ** (a + b)
                rt = abs(c2[a, b] - 1.0 / (math.factorial(a) * math.factorial(b))) / tol
                if rt > worst:
                    worst, wj = rt, (a, b)
        record(res, cfg, 'taylor.c_ab=1/(a!b!)_for_a+b<=min(k,p)', worst, {'ab': wj, 'min(k,p)': m_req, 'p': p})
        q = Jm
        for tot in range(Jm + 1):
            if not all(mp_close(cor[(a, tot - a)], mp.mpf(1) / (mp.factorial(a) * mp.factorial(tot - a)), THR_ORACLE) for a in range(tot + 1)):
                q = tot - 1
                break
        J = Jm
    res.outcomes['checked'] += 1
    res.nontrivial += 1
    label = '+'.join(O.qd_class_of(cfg['names'][s]) for s, _ in spec['slots'])
    surplus = q - m_req
    capped = q >= J
    t = res.table.setdefault(kind + ':' + label, {'min_surplus': 10**6, 'max_surplus': -(10**6), 'cases': 0})
    t['min_surplus'] = min(t['min_surplus'], surplus)
    t['max_surplus'] = max(t['max_surplus'], surplus)
    t['cases'] += 1
    if surplus < 0 and not capped:
        # the algebraic iteration itself (oracle, exact series) falls short of min(k, p): a statement about the method
        record(res, cfg, 'oracle_iteration_order>=min(k,p)', float('inf'), {'oracle_order': q, 'min(k,p)': m_req, 'p': p, 'note': 'exact power-series of the dense algebraic iteration built from Q and the qmat coefficients'})
    if len(res.samples) < 2:
        res.samples.append({**{kk: v for kk, v in cfg.items() if not kk.startswith('_')}, 'p': p, 'oracle_order': q, 'N': N_CIRCLE if kind != 'imex' else [N_TORUS, N_TORUS]})


def run_converged_case(res, cfg, spec, nodes, Q, w, p, right):
    kind, M, mode = cfg['kind'], cfg['M'], cfg['do_coll_update']
    nt, qt = cfg['node_type'], cfg['quad_type']
    # the final (large k) preconditioner decides contraction; build the sequence for 60 sweeps
    MAXIT = 60
    seqs = []
    for slot, expl in spec['slots']:
        st, seq = coeff_seq(cfg['names'][slot], nt, qt, M, MAXIT if O.qd_is_kdep(cfg['names'][slot]) else 1, expl)
        if st != 'ok':
            res.outcomes['converged:' + st] += 1
            return
        seqs.append(seq if len(seq) == MAXIT else seq * MAXIT)
    eigQ = np.linalg.eigvals(Q)
    rq = 0.5 / max(float(np.max(np.abs(eigQ))), 1e-300)
    rp = pole_radius([seqs[0]]) if kind != 'explicit' else float('inf')
    r = None
    for cand in (0.5, 0.35, 0.25, 0.15, 0.1, 0.05):
        if cand > min(rq, 0.5 * rp):
            continue
        # contraction of the *last* preconditioner(s) on the circle (total z = zI + zE for IMEX, worst case |z| = 2 cand)
        rho = 0.0
        for th in np.linspace(0, 2 * np.pi, 16, endpoint=False):
            zz = cand * np.exp(1j * th)
            if kind == 'imex':
                K = np.linalg.solve(np.eye(M) - zz * seqs[0][-1] - zz * seqs[1][-1], zz * (Q - seqs[0][-1]) + zz * (Q - seqs[1][-1]))
            else:
                K = np.linalg.solve(np.eye(M) - zz * seqs[0][-1], zz * (Q - seqs[0][-1]))
            rho = max(rho, float(np.max(np.abs(np.linalg.eigvals(K)))))
        if rho <= 0.4:
            r = cand
            break
    if r is None:
        res.outcomes['converged:no_contractive_radius'] += 1
        return
    cfg['r'] = r
    restol = 1e-13
    if kind != 'imex':
        z = circle(r)
        Rimp, niter, _ = run_step(testequation0d, {'lambdas': z / DT, 'u0': 1.0}, spec['cls'], sweeper_params_for(cfg), MAXIT, restol=restol)
        ztot = z
    else:
        zI = circle(r / 2, N_TORUS)
        ZI, ZE = np.meshgrid(zI, zI, indexing='ij')
        Rimp, niter, _ = run_step(test_equation_IMEX, {'lambdas_implicit': ZI.reshape(-1) / DT, 'lambdas_explicit': ZE.reshape(-1) / DT, 'u0': 1.0}, spec['cls'], sweeper_params_for(cfg), MAXIT, restol=restol)
        ztot = (ZI + ZE).reshape(-1)
    res.runs += 1
    if niter >= MAXIT:
        res.outcomes['converged:residual_tolerance_not_reached'] += 1
        return
    Rc, sc = O.collocation_stability(nodes, Q, w, ztot, right, mode)
    # defect of the iterate (<= restol per node) maps to an error <= ||(I - zQ)^-1|| restol
    amp = np.array([float(np.linalg.norm(np.linalg.inv(np.eye(M) - zz * Q), np.inf)) for zz in ztot])
    tol = C_PT * EPS * sc + 20.0 * amp * restol * (1.0 + np.abs(ztot) * float(np.sum(np.abs(w))))
    ratio = float(np.max(np.abs(Rimp - Rc) / tol))
    record(res, cfg, 'converged.R(z)=collocation_stability_function', ratio, {'max_abs_diff': float(np.max(np.abs(Rimp - Rc))), 'niter': niter})
    res.outcomes['converged:checked'] += 1
    res.nontrivial += 1


# ======================================================================================================================
# Runge-Kutta clause
# ======================================================================================================================
# Documented orders, transcribed from the class docstrings of pySDC/implementations/sweeper_classes/Runge_Kutta.py
# (int = order of the method; tuple = documented orders of an embedded pair, in any order; None = the docs give no order).
# ======================================================================================================================
# switch clause: the preconditioner of an EXISTING sweeper is replaced (parameter and matrix, through the sweeper's own
# generator function, as updateVariableCoeffs and users do); the step function must be the one of a sweeper built with the
# new name directly (differential oracle: no expected value is written down)
# ======================================================================================================================
def run_step_switched(problem_class, problem_params, sweeper_class, params_a, names_b, slots, maxiter):
    description = {
        'problem_class': problem_class,
        'problem_params': problem_params,
        'sweeper_class': sweeper_class,
        'sweeper_params': params_a,
        'level_params': {'dt': DT, 'restol': -1.0, 'nsweeps': 1},
        'step_params': {'maxiter': maxiter},
    }
    ctrl = controller_nonMPI(num_procs=1, controller_params={'logger_level': 90}, description=description)
    for S in ctrl.MS:
        for Lv in S.levels:
            sw = Lv.sweep
            for slot, expl in slots:
                setattr(sw.params, slot, names_b[slot])
                setattr(sw, slot, sw.get_Qdelta_explicit(names_b[slot]) if expl else sw.get_Qdelta_implicit(names_b[slot]))
    P = ctrl.MS[0].levels[0].prob
    uend, stats = ctrl.run(u0=P.dtype_u(P.init, val=1.0), t0=0.0, Tend=DT)
    return np.array(np.asarray(uend), copy=True)


def run_switch_unit(unit):
    common.silence_logging()
    res = Res()
    kind, a, b, nt, qt, M = unit['kind'], unit['a'], unit['b'], unit['node_type'], unit['quad_type'], unit['M']
    spec = KINDS[kind]
    right = qt in ('LOBATTO', 'RADAU-RIGHT')
    z = circle(0.25)
    if kind != 'imex':
        pc, pp = testequation0d, {'lambdas': z / DT, 'u0': 1.0}
    else:
        pc, pp = test_equation_IMEX, {'lambdas_implicit': z / DT, 'lambdas_explicit': 0.5 * np.conj(z) / DT, 'u0': 1.0}
    for k in (1, 2, 4):
        for mode in ([False, True] if right else [True]):
            cfg = dict(clause='sdc_switch', kind=kind, names=dict(b), built_with=dict(a), node_type=nt, quad_type=qt, M=M, k=k, do_coll_update=mode, _seen=set())
            res.cases += 1
            try:
                direct = run_step(pc, pp, spec['cls'], sweeper_params_for(cfg), k)[0]
            except Exception:  # noqa: BLE001  (the name is refused for this rule: judged by the sdc clause)
                res.outcomes['switch:target_refused'] += 1
                continue
            try:
                pa = sweeper_params_for(dict(cfg, names=dict(a)))
                switched = run_step_switched(pc, pp, spec['cls'], pa, b, spec['slots'], k)
            except Exception as e:  # noqa: BLE001
                if any(O.qd_class_of(a[s]) != O.qd_class_of(b[s]) for s in a):
                    res.outcomes['switch:source_refused'] += 1
                    continue
                record(res, cfg, 'exception', float('inf'), {'error': f'{type(e).__name__}: {str(e)[:300]}'})
                continue
            res.runs += 2
            sc = np.maximum(1.0, np.abs(direct))
            ratio = float(np.max(np.abs(switched - direct) / (C_PT * EPS * sc)))
            record(res, cfg, 'switched_sweeper=directly_built_sweeper', ratio, {'max_abs_diff': float(np.max(np.abs(switched - direct))), 'built_with': dict(a), 'switched_to': dict(b)})
    return res


RK_DOC_ORDER = {
    'ForwardEuler': (1, '"Not very stable first order method."'),
    'BackwardEuler': (1, '"A-stable first order method."'),
    'CrankNicolson': (2, '"Implicit Runge-Kutta method of second order, A-stable."'),
    'ExplicitMidpointMethod': (2, '"Explicit Runge-Kutta method of second order."'),
    'ImplicitMidpointMethod': (2, '"Implicit Runge-Kutta method of second order."'),
    'RK4': (4, '"Explicit Runge-Kutta of fourth order"'),
    'Heun_Euler': (2, '"Second order explicit embedded Runge-Kutta method."'),
    'Cash_Karp': (5, '"Fifth order explicit embedded Runge-Kutta."'),
    'DIRK43': ((3, 4), '"Embedded A-stable diagonally implicit RK pair of order 3 and 4."'),
    'DIRK43_2': (3, '"L-stable Diagonally Implicit RK method with four stages of order 3."'),
    'EDIRK4': (4, '"Stiffly accurate, fourth-order EDIRK with four stages."'),
    'ESDIRK53': ((5, 3), '"A-stable embedded RK pair of orders 5 and 3"'),
    'ESDIRK43': ((4, 3), '"A-stable embedded RK pair of orders 4 and 3"'),
    'ARK548L2SAERK': (None, '"Explicit part of the ARK54 scheme." (no order stated)'),
    'ARK548L2SAESDIRK': (None, '"Implicit part of the ARK54 scheme. ... both schemes are order 5 as opposed to 5 and 4 as claimed" (hedged, not taken as a claim)'),
    'ARK54': ((5, 4), '"Pair of pairs of ARK5(4)8L[2]SA-ERK and ARK5(4)8L[2]SA-ESDIRK"'),
    'ARK548L2SAESDIRK2': ((5, 4), '"... implicit embedded Runge-Kutta pair of orders 5 and 4 ..."'),
    'ARK548L2SAERK2': ((5, 4), '"Explicit embedded pair of Runge-Kutta methods of orders 5 and 4"'),
    'ARK548L2SA': (5, '"IMEX Runge-Kutta method of order 5"'),
    'ARK324L2SAERK': (None, 'no docstring'),
    'ARK324L2SAESDIRK': (None, 'no docstring'),
    'ARK32': (None, 'no docstring'),
    'ARK2': (2, '"Second order two stage ... IMEX RK method"'),
    'ARK3': (3, '"Third order four stage ... IMEX RK method"'),
    'IMEXEuler': (None, 'no docstring'),
    'IMEXEulerStifflyAccurate': (None, 'docstring states no order'),
}


def rk_classes():
    out = {}
    for name in sorted(dir(RKmod)):
        obj = getattr(RKmod, name)
        if isinstance(obj, type) and issubclass(obj, RKmod.RungeKutta) and obj not in (RKmod.RungeKutta, RKmod.RungeKuttaIMEX) and obj.__module__ == RKmod.__name__:
            out[name] = obj
    return out


def order_from_coeffs(get, J, r, Rmax, two_d):
    """largest q such that all coefficients of total degree <= q match exp within the Cauchy tolerance; also the worst ratio per degree."""
    ratios = []
    for tot in range(J + 1):
        worst = 0.0
        if two_d:
            for a in range(tot + 1):
                tol = C_TAY * EPS * max(Rmax, 1.0) / r**tot
                worst = max(worst, abs(get(a, tot - a) - 1.0 / (math.factorial(a) * math.factorial(tot - a))) / tol)
        else:
            tol = C_TAY * EPS * max(Rmax, 1.0) / r**tot
            worst = abs(get(tot) - 1.0 / math.factorial(tot)) / tol
        ratios.append(worst)
    q = -1
    for tot in range(J + 1):
        if ratios[tot] <= 1.0:
            q = tot
        else:
            break
    return q, ratios


def vanishing_order(get, J, r, Dmax_scale, two_d):
    """smallest total degree with a coefficient that is not zero within the Cauchy tolerance (J+1 if none)."""
    ratios = []
    for tot in range(J + 1):
        tol = C_TAY * EPS * max(Dmax_scale, 1.0) / r**tot
        if two_d:
            worst = max(abs(get(a, tot - a)) / tol for a in range(tot + 1))
        else:
            worst = abs(get(tot)) / tol
        ratios.append(worst)
    for tot in range(J + 1):
        if ratios[tot] > 1.0:
            return tot, ratios
    return J + 1, ratios


def run_rk_unit(unit):
    common.silence_logging()
    res = Res()
    name = unit['sweeper']
    cls = rk_classes()[name]
    cfg = dict(clause='rk', sweeper=name, _seen=set())
    res.cases += 1
    try:
        run_rk_case(res, cfg, cls)
    except Exception as e:
        import traceback

        record(res, cfg, 'exception', float('inf'), {'error': f'{type(e).__name__}: {str(e)[:300]}', 'trace': traceback.format_exc()[-800:]})
    return res


def run_rk_case(res, cfg, cls):
    name = cfg['sweeper']
    imex = issubclass(cls, RKmod.RungeKuttaIMEX)
    A = np.asarray(cls.matrix, dtype=float)
    wts = np.asarray(cls.weights, dtype=float)
    embedded = wts.ndim == 2
    b, b2 = (wts[0], wts[1]) if embedded else (wts, None)
    As, bs, b2s = [A], [b], [b2]
    if imex:
        AE = np.asarray(cls.matrix_explicit, dtype=float)
        wE = np.asarray(cls.weights_explicit if cls.weights_explicit is not None else cls.weights, dtype=float)
        As.append(AE)
        bs.append(wE[0] if wE.ndim == 2 else wE)
        b2s.append(wE[1] if wE.ndim == 2 else None)
    d = float(np.max(np.abs(np.diag(A)), initial=0.0))
    mult = int(np.sum(np.abs(np.diag(A)) > 0))
    r = (1.0 if not imex else 0.5) if d == 0 else min(1.0 if not imex else 0.5, safe_rho(N_TORUS if imex else N_CIRCLE, mult) / d)
    cfg['r'] = r
    doc, quote = RK_DOC_ORDER.get(name, (None, 'class not in the transcribed table'))
    J = 8
    if not imex:
        z = circle(r)
        R, niter, ctrl = run_step(testequation0d, {'lambdas': z / DT, 'u0': 1.0}, cls, {}, 1)
        res.runs += 1
        Ror, sc = O.rk_stability(As, bs, [z], False)
        Rmax = float(np.max(sc))
        c = O.taylor_from_circle(R, r)
        get = lambda j: c[j]  # noqa: E731
        sec = np.array(np.asarray(ctrl.MS[0].levels[0].sweep.u_secondary), copy=True) if embedded else None
        if embedded:
            R2or, sc2 = O.rk_stability(As, b2s, [z], False)
            c2 = O.taylor_from_circle(sec, r)
            dcoef = O.taylor_from_circle(R - sec, r)
            get2 = lambda j: c2[j]  # noqa: E731
            getd = lambda j: dcoef[j]  # noqa: E731
    else:
        N = N_TORUS
        zz = circle(r, N)
        ZI, ZE = np.meshgrid(zz, zz, indexing='ij')
        R, niter, ctrl = run_step(test_equation_IMEX, {'lambdas_implicit': ZI.reshape(-1) / DT, 'lambdas_explicit': ZE.reshape(-1) / DT, 'u0': 1.0}, cls, {}, 1)
        res.runs += 1
        Ror, sc = O.rk_stability(As, bs, [ZI.reshape(-1), ZE.reshape(-1)], False)
        Rmax = float(np.max(sc))
        cc = O.taylor_from_torus(R.reshape(N, N), r, r)
        get = lambda a, b_: cc[a, b_]  # noqa: E731
        sec = np.array(np.asarray(ctrl.MS[0].levels[0].sweep.u_secondary), copy=True) if embedded else None
        if embedded:
            R2or, sc2 = O.rk_stability(As, b2s, [ZI.reshape(-1), ZE.reshape(-1)], False)
            cc2 = O.taylor_from_torus(sec.reshape(N, N), r, r)
            dd = O.taylor_from_torus((R - sec).reshape(N, N), r, r)
            get2 = lambda a, b_: cc2[a, b_]  # noqa: E731
            getd = lambda a, b_: dd[a, b_]  # noqa: E731
    # the step function is the stability function of the class tableau (weights form; equals the last stage for
    # stiffly accurate tableaux up to the agreement of last row and weights, which enters the scale)
    gsa_gap = max(float(np.max(np.abs(Ai[-1] - bi))) for Ai, bi in zip(As, bs))
    ratio = float(np.max(np.abs(R - Ror) / (C_PT * EPS * sc + gsa_gap * 10.0 * sc)))
    record(res, cfg, 'pointwise.R(z)=tableau_stability_function', ratio, {'max_abs_diff': float(np.max(np.abs(R - Ror)))})
    q1, ratios1 = order_from_coeffs(get, J, r, Rmax, imex)
    entry = {'documented': doc, 'quote': quote, 'measured_primary': q1, 'imex': imex, 'embedded': embedded, 'r': r}
    if embedded:
        ratio = float(np.max(np.abs(sec - R2or) / (C_PT * EPS * sc2)))
        record(res, cfg, 'pointwise.u_secondary=embedded_weights', ratio, {'max_abs_diff': float(np.max(np.abs(sec - R2or)))})
        q2, _ = order_from_coeffs(get2, J, r, float(np.max(sc2)), imex)
        uo = int(cls.get_update_order())
        vo, ratiosd = vanishing_order(getd, J, r, Rmax, imex)
        entry.update(measured_secondary=q2, update_order=uo, difference_vanishes_below_degree=vo)
        # the controller assumes e_est ~ dt^update_order: all coefficients of degree < update_order vanish
        worst = max(ratiosd[:uo]) if uo > 0 else 0.0
        record(res, cfg, 'embedded.difference_vanishes_for_j<update_order', worst, {'update_order': uo, 'first_nonvanishing_degree': vo, 'ratios_by_degree': ratiosd[: uo + 1]})
    if doc is not None:
        if isinstance(doc, tuple):
            hi, lo = max(doc), min(doc)
            got_hi, got_lo = max(q1, entry.get('measured_secondary', -1)), min(q1, entry.get('measured_secondary', -1))
            ok = got_hi >= hi and got_lo >= lo
            record(res, cfg, 'documented_order_of_pair_attained', 0.0 if ok else float('inf'), {'documented': doc, 'measured_primary': q1, 'measured_secondary': entry.get('measured_secondary'), 'quote': quote})
        else:
            worst = max(ratios1[: doc + 1])
            record(res, cfg, 'documented_order_attained', worst, {'documented': doc, 'measured': q1, 'quote': quote, 'ratios_by_degree': ratios1[: doc + 2]})
    else:
        res.outcomes['rk:no_documented_order(measured only)'] += 1
    res.outcomes['rk:checked'] += 1
    res.nontrivial += 1
    res.rk_table[name] = entry
    if len(res.samples) < 1:
        res.samples.append({'clause': 'rk', 'sweeper': name, **{k: v for k, v in entry.items() if k != 'quote'}})


# ======================================================================================================================
# plan / run / replay
# ======================================================================================================================
def rk_assumed_orders(rk_table):
    from pySDC.implementations.convergence_controller_classes.adaptivity import AdaptivityRK

    common.silence_logging()
    classes = rk_classes()
    emb = [n for n, e in rk_table.items() if e.get('embedded') and 'difference_vanishes_below_degree' in e and n in classes]
    emb.sort(key=lambda n: (-int(classes[n].get_update_order()), n))
    shared = {AdaptivityRK: {'e_tol': 1e-3}}
    out = {}
    for n in emb:
        cls = classes[n]
        imex = bool(rk_table[n].get('imex'))
        desc = {
            'problem_class': test_equation_IMEX if imex else testequation0d,
            'problem_params': ({'lambdas_implicit': np.array([-1.0 + 0j]), 'lambdas_explicit': np.array([0.1j]), 'u0': 1.0} if imex else {'lambdas': np.array([-1.0 + 0j]), 'u0': 1.0}),
            'sweeper_class': cls,
            'sweeper_params': {},
            'level_params': {'dt': 0.1},
            'step_params': {'maxiter': 1},
            'convergence_controllers': shared,
        }
        try:
            ctrl = controller_nonMPI(num_procs=1, controller_params={'logger_level': 90, 'mssdc_jac': False}, description=desc)
            inst = [c for c in ctrl.convergence_controllers if isinstance(c, AdaptivityRK)]
            out[n] = (int(inst[0].params.update_order) if inst else None, int(rk_table[n]['difference_vanishes_below_degree']))
        except Exception:  # noqa: BLE001
            out[n] = (None, int(rk_table[n]['difference_vanishes_below_degree']))
    return out


def distinct_generators():
    seen = []
    for nm in O.qd_names():
        c = O.qd_class_of(nm)
        if c not in seen:
            seen.append(c)
    return sorted(seen)


def plan(tier):
    G = distinct_generators()
    CORE_I = ['BE', 'LU', 'MIN_SR_S', 'MIN_SR_FLEX', 'PIC', 'TRAP']
    EXPL_OK = ['FE', 'PIC', 'SOE']
    units, desc = [], []

    def add(label, us):
        desc.append({'space': label, 'units': len(us)})
        for u in us:
            u['label'] = label
        units.extend(us)

    def sdc(kind, name_sets, fams, Ms):
        return [dict(clause='sdc', kind=kind, names=dict(n), node_type=nt, quad_type=qt, M=M) for n in name_sets for nt, qt in fams for M in Ms]

    others = [f for f in ALL_FAMILIES if f not in LEG]
    if tier == 'quick':
        Ms = (1, 2, 3, 4)
        add('SDC implicit: all generators x LEGENDRE x 4 quad x M<=4 x k=1..p+2 x end-point modes (+converged)', sdc('implicit', [{'QI': g} for g in G], LEG, Ms))
        add('SDC implicit: core generators x other 20 families x M<=3 x k=1..p+2 x modes (+converged)', sdc('implicit', [{'QI': g} for g in CORE_I], others, (1, 2, 3)))
        add('SDC explicit: {FE,PIC,SOE} x 24 families x M<=4 x k=1..p+2 x modes (+converged)', sdc('explicit', [{'QE': g} for g in EXPL_OK], ALL_FAMILIES, Ms))
        add('SDC explicit: all other generators (rejections) x LEGENDRE RADAU-RIGHT x M=2', sdc('explicit', [{'QE': g} for g in G if g not in EXPL_OK], [('LEGENDRE', 'RADAU-RIGHT')], (2,)))
        add('SDC IMEX: core QI x {FE,PIC,SOE} x LEGENDRE x {GAUSS,LOBATTO,RADAU-RIGHT} x M<=3 x k=1..p+2 x modes (+converged)', sdc('imex', [{'QI': a, 'QE': b} for a in CORE_I for b in EXPL_OK], [('LEGENDRE', q) for q in ('GAUSS', 'LOBATTO', 'RADAU-RIGHT')], (1, 2, 3)))
    else:
        Ms = (1, 2, 3, 4, 5, 6, 7)
        add('SDC implicit: all generators x 24 families x M<=7 x k=1..p+2 x end-point modes (+converged)', sdc('implicit', [{'QI': g} for g in G], ALL_FAMILIES, Ms))
        add('SDC explicit: all generators x 24 families x M<=7 x k=1..p+2 x modes (+converged)', sdc('explicit', [{'QE': g} for g in G], ALL_FAMILIES, Ms))
        add('SDC IMEX: all QI generators x FE x 24 families x M<=3 (LEGENDRE: M<=4) x k=1..p+2 x modes (+converged)', sdc('imex', [{'QI': a, 'QE': 'FE'} for a in G], ALL_FAMILIES, (1, 2, 3)) + sdc('imex', [{'QI': a, 'QE': 'FE'} for a in G], LEG, (4,)))
        add('SDC IMEX: core QI generators x {PIC,SOE} x 24 families x M<=3 x k=1..p+2 x modes (+converged)', sdc('imex', [{'QI': a, 'QE': b} for a in CORE_I for b in ('PIC', 'SOE')], ALL_FAMILIES, (1, 2, 3)))
    sw = []
    fam = [('LEGENDRE', q) for q in ('RADAU-RIGHT', 'LOBATTO', 'GAUSS')]
    Msw = (2, 3) if tier == 'quick' else (1, 2, 3, 5)
    for nt, qt in fam:
        for M in Msw:
            sw += [dict(clause='switch', kind='implicit', a={'QI': x}, b={'QI': y}, node_type=nt, quad_type=qt, M=M) for x in CORE_I for y in CORE_I if x != y]
            sw += [dict(clause='switch', kind='explicit', a={'QE': x}, b={'QE': y}, node_type=nt, quad_type=qt, M=M) for x in EXPL_OK for y in EXPL_OK if x != y]
            sw += [dict(clause='switch', kind='imex', a={'QI': 'LU', 'QE': x}, b={'QI': 'LU', 'QE': y}, node_type=nt, quad_type=qt, M=M) for x in EXPL_OK for y in EXPL_OK if x != y]
            sw += [dict(clause='switch', kind='imex', a={'QI': x, 'QE': 'FE'}, b={'QI': y, 'QE': 'FE'}, node_type=nt, quad_type=qt, M=M) for x in CORE_I for y in CORE_I if x != y]
    add('SDC switch: preconditioner of an existing sweeper replaced by another one (ordered pairs of core implicit / explicit names; IMEX one slot at a time) x LEGENDRE x {RADAU-RIGHT, LOBATTO, GAUSS} x k in {1,2,4} x end-point modes, against the directly built sweeper', sw)
    add('RK: every RungeKutta / RungeKuttaIMEX class, one controller step, maxiter=1', [dict(clause='rk', sweeper=n) for n in rk_classes()])
    return units, desc


def run_unit(unit):
    if unit['clause'] == 'sdc':
        r = run_sdc_unit(unit)
    elif unit['clause'] == 'switch':
        r = run_switch_unit(unit)
    else:
        r = run_rk_unit(unit)
    return unit['label'], r


def signature_of(v):
    cfg = v['cfg']
    if cfg.get('clause') == 'rk':
        return {'clause': 'rk', 'sweeper': cfg['sweeper'], 'check': v['check']}
    return {
        'clause': cfg['clause'],
        'kind': cfg['kind'],
        'check': v['check'],
        'variant': cfg.get('variant', 'iterations'),
    }


def case_order(v):
    cfg = v['cfg']
    return (cfg.get('M', 0), str(sorted(cfg.get('names', {}).items())), NODE_TYPES.index(cfg['node_type']) if cfg.get('node_type') in NODE_TYPES else 0, QUAD_TYPES.index(cfg['quad_type']) if cfg.get('quad_type') in QUAD_TYPES else 0, cfg.get('k') or 0, bool(cfg.get('do_coll_update')))


def run(rep, tier):
    rep.assumptions += [
        'testequation0d / test_equation_IMEX are environment (their eval_f / solve_system are trusted); the step is driven by the real controller_nonMPI with num_procs=1, dt=1, u0=1',
        'node positions and the order p come from qmat\'s Collocation object (what CollBase reports); Q and the weights are rebuilt by the oracle from the float nodes by exact polynomial integration',
        'preconditioner coefficients come from qmat generators (third party) at the sweep index the controller passes to updateVariableCoeffs',
        f'the oracle\'s exact power series is computed in 40-digit arithmetic on the float nodes; a series coefficient within {THR_ORACLE} of 1/j! counts as equal',
        'Taylor coefficients are extracted by an N-point DFT on |z| = r; aliasing r^N is below rounding because r <= half the pole radius',
        'documented Runge-Kutta orders are transcribed by hand from the class docstrings (table RK_DOC_ORDER, shown in the evidence)',
    ]
    units, desc = plan(tier)
    order = list(range(len(units)))
    common.rng('c04').shuffle(order)
    t0 = time.time()
    total = Res()
    per = collections.defaultdict(Res)
    for label, r in common.pimap_unordered(run_unit, [units[i] for i in order], chunksize=1):
        total.merge(r)
        per[label].merge(r)
    # the order the step-size controller REALLY assumes: read from AdaptivityRK instances of real controllers that are
    # built one after the other from ONE convergence_controllers dictionary (a loop over sweepers in a user script), the
    # classes with the highest update order first
    assumed = rk_assumed_orders(total.rk_table)
    for name, (uo_ctrl, vo) in sorted(assumed.items()):
        total.evals += 1
        if uo_ctrl is None:
            continue
        total.rk_table[name]['update_order_assumed_by_AdaptivityRK'] = uo_ctrl
        if uo_ctrl > vo:
            total.viols.append({'cfg': {'clause': 'rk', 'sweeper': name}, 'check': 'embedded.difference_vanishes_for_j<order_assumed_by_the_controller', 'detail': {'order_in_AdaptivityRK.params': uo_ctrl, 'first_nonvanishing_degree_of_the_difference': vo, 'class_update_order': total.rk_table[name].get('update_order'), 'history': 'controllers built one after the other from one convergence_controllers dictionary, highest update order first'}})
    groups = collections.defaultdict(list)
    for v in total.viols:
        groups[common.canon(signature_of(v))].append(v)
    for key in sorted(groups):
        vs = sorted(groups[key], key=case_order)
        v = vs[0]
        sig = signature_of(v)
        cfg = v['cfg']
        if cfg.get('clause') != 'rk':
            sig['simplest_case'] = {k: cfg.get(k) for k in ('names', 'node_type', 'quad_type', 'M', 'k', 'do_coll_update')}
        det = dict(v['detail'])
        det['failing_cases_in_group'] = len(vs)
        det['generator_classes_affected'] = sorted({str({k: O.qd_class_of(n) for k, n in x['cfg'].get('names', {}).items()}) for x in vs})[:30]
        rep.violation(sig, det, {'cfg': cfg, 'check': v['check']})
    cov = rep.coverage
    cov['evaluations'] = int(total.evals)
    cov['controller_runs'] = int(total.runs)
    cov['configurations'] = int(total.cases)
    cov['distinct_nontrivial'] = int(total.nontrivial)
    cov['rule'] = (
        'a case = (sweeper kind, preconditioner name(s), node family, M, k in 1..p+2, end-point mode) or (family, M, names, mode) for the '
        'converged clause or one Runge-Kutta class; each enumerated once; every checked case is one real controller run on a circle '
        f'(N={N_CIRCLE}) / torus ({N_TORUS}x{N_TORUS}) of complex z; evaluations = comparisons (pointwise vs oracle, all Taylor coefficients vs '
        'oracle series, c_j = 1/j! for j <= min(k,p), collocation stability function, documented RK orders, embedded difference); '
        'distinct_nontrivial = cases that ended in class checked (a run was made and compared)'
    )
    cov['exhaustive'] = True
    cov['outcome_classes'] = dict(total.outcomes)
    cov['worst_err_over_tol'] = total.worst
    cov['worst_headroom'] = (1.0 / total.worst) if total.worst > 0 else None
    cov['worst_where'] = total.worst_where
    cov['tolerance'] = f'pointwise {C_PT} eps scale(z_n) (oracle, |LHS^-1|-based); Taylor coefficient {C_TAY} eps max|R| / r^j (Cauchy); r = min(1, half the pole radius 1/max|diag QD|)'
    cov['bounds_completed'] = [{**d, 'cases': per[d['space']].cases, 'runs': per[d['space']].runs, 'comparisons': per[d['space']].evals, 'outcomes': dict(per[d['space']].outcomes), 'worst_err_over_tol': per[d['space']].worst} for d in desc]
    cov['order_table_sdc'] = {
        'meaning': 'per sweeper kind and generator(s): min / max over all checked cases of (order of the oracle\'s exact dense iteration, capped at J = p+3) - min(k, p); >= 0 means the algebraic iteration delivers order min(k,p)',
        'rows': total.table,
    }
    cov['order_table_rk'] = total.rk_table
    cov['not_covered'] = [
        'Runge_Kutta_Nystrom.py (RKN, Velocity_Verlet): the class docstrings state no order, so there is no documented order to test; their stage algebra is covered by C02',
        'projects/DAE/sweepers/rungeKuttaDAE.py: the DAE problem base class is real-valued (no complex circle); stage algebra covered by C02',
        'for M >= 6 the Cauchy tolerance eps/r^j exceeds 1/j! for the highest coefficients: those coefficients are compared against the oracle series only up to that tolerance',
    ]
    cov['samples'] = total.samples[:6]
    cov['enumeration_wall_s'] = round(time.time() - t0, 2)


def replay(rep, case):
    cfg = dict(case['cfg'])
    cfg['_seen'] = set()
    res = Res()
    if cfg.get('clause') == 'rk' and str(case.get('check', '')).startswith('embedded.difference_vanishes_for_j<order_assumed'):
        table = {}
        for n in rk_classes():
            table.update(run_rk_unit({'sweeper': n}).rk_table)
        uo_ctrl, vo = rk_assumed_orders(table).get(cfg['sweeper'], (None, 0))
        if uo_ctrl is not None and uo_ctrl > vo:
            rep.violation({'clause': 'rk', 'sweeper': cfg['sweeper'], 'check': case['check']}, {'order_in_AdaptivityRK.params': uo_ctrl, 'first_nonvanishing_degree_of_the_difference': vo}, case)
        return
    if cfg.get('clause') == 'rk':
        run_rk_case(res, cfg, rk_classes()[cfg['sweeper']])
    elif cfg.get('clause') == 'sdc_switch':
        res = run_switch_unit(dict(clause='switch', kind=cfg['kind'], a=cfg['built_with'], b=cfg['names'], node_type=cfg['node_type'], quad_type=cfg['quad_type'], M=cfg['M']))
    else:
        spec = KINDS[cfg['kind']]
        nodes, p = O.collocation_nodes(cfg['node_type'], cfg['quad_type'], cfg['M'])
        Q, w = O.lagrange_Q(nodes)
        right = cfg['quad_type'] in ('LOBATTO', 'RADAU-RIGHT')
        cfg.pop('r', None)
        if cfg['clause'] == 'sdc_converged':
            run_converged_case(res, cfg, spec, nodes, Q, w, p, right)
        else:
            seqs = []
            for slot, expl in spec['slots']:
                st, seq = coeff_seq(cfg['names'][slot], cfg['node_type'], cfg['quad_type'], cfg['M'], cfg['k'], expl, cfg.get('variant', 'iterations'))
                seqs.append(seq)
            run_sdc_case(res, cfg, spec, nodes, Q, w, p, seqs, right)
    hits = [v for v in res.viols if v['check'] == case.get('check')] or res.viols
    for v in hits:
        if True:
            rep.violation({**signature_of(v), 'case': {k: cfg.get(k) for k in ('node_type', 'quad_type', 'M', 'k', 'do_coll_update')}}, v['detail'], case)
