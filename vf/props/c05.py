"""C05 -- collocation nodes, weights and integration matrices are exact on every interval (E2, exhaustive lattice).

Enumerated completely: node_type x quad_type x M x interval alphabet; every CollBase object is compared entry by entry
with the exact integrals of the Lagrange basis polynomials through the nodes it reports (vf/oracle/quadrature.py,
mpmath 60 digits).  Tolerance = rounding of representable data only: node perturbations of one ulp (plus one
rounding at the scale of the interval) propagated through the exact sensitivities, and M*eps times the Lebesgue-weighted
magnitude of what is integrated (see the 'tolerance' key of the evidence).
"""

import numpy as np

from pySDC.core.collocation import CollBase
from pySDC.core.errors import CollocationError

from vf import common
from vf.oracle import quadrature as oq

LEVEL = 'exploration'

NODE_TYPES = ['EQUID', 'LEGENDRE', 'CHEBY-1', 'CHEBY-2', 'CHEBY-3', 'CHEBY-4']
QUAD_TYPES = ['GAUSS', 'LOBATTO', 'RADAU-LEFT', 'RADAU-RIGHT']
INTERVALS = [
    (0.0, 1.0),
    (-1.0, 1.0),
    (0.3, 0.35),
    (-7.5, -2.25),
    (1000.0, 1000.5),
    (0.0, 1e-3),
    (-1e4, 1e4),
    (2.0**-20, 1.0),
    # length exactly 1 away from the origin (the scaling of the reference rule is the identity, the shift is not)
    (2.0, 3.0),
    (-4.0, -3.0),
    # an end point that is exactly zero on the right (zero is a special value in argument handling)
    (-1.0, 0.0),
]
MMAX = {'quick': 8, 'thorough': 16}
LEFT_TYPES = ('LOBATTO', 'RADAU-LEFT')
RIGHT_TYPES = ('LOBATTO', 'RADAU-RIGHT')

C = 50.0  # the one fixed constant of every comparison
EPS = float(np.finfo(float).eps)


def lattice(tier):
    out = [
        {'node_type': nt, 'quad_type': qt, 'M': M, 'interval': [a, b]}
        for nt in NODE_TYPES
        for qt in QUAD_TYPES
        for M in range(1, MMAX[tier] + 1)
        for (a, b) in INTERVALS
    ]
    # the same rules as held by a sweeper that was given the interval in its parameters
    out += [
        {'node_type': nt, 'quad_type': qt, 'M': M, 'interval': [a, b], 'via': 'sweeper'}
        for nt in NODE_TYPES
        for qt in QUAD_TYPES
        for M in ((2, 3) if tier == 'quick' else (2, 3, 5, 8))
        for (a, b) in INTERVALS
    ]
    out += [
        {'node_type': nt, 'quad_type': qt, 'M': M, 'interval': [a, b], 'via': 'hierarchy'}
        for nt in NODE_TYPES
        for qt in QUAD_TYPES
        for M in ((2, 3) if tier == 'quick' else (2, 3, 5))
        for (a, b) in INTERVALS
    ]
    return out


def _sig(kind, case, **extra):
    s = {'kind': kind, 'node_type': case['node_type'], 'quad_type': case['quad_type'], 'M': case['M'], 'interval': list(case['interval'])}
    if case.get('via'):
        s['via'] = case['via']
    s.update(extra)
    return s


def _mp_arr(x):
    return [oq.mpf(float(v)) for v in np.asarray(x, dtype=float).ravel()]


def evaluate(case):
    """Evaluate one lattice member.  Returns a JSON-able dict: outcome class, list of failures (signature, detail),
    worst err/tol ratio per sub-check, number of float comparisons against a nonzero reference."""
    nt, qt, M = case['node_type'], case['quad_type'], case['M']
    a, b = (float(v) for v in case['interval'])
    res = {'case': case, 'outcome': 'built', 'fails': [], 'ratio': {}, 'ncmp': 0, 'nontrivial': False}
    fails = res['fails']

    def fail(kind, detail, **extra):
        fails.append((_sig(kind, case, **extra), detail))

    def ratio(name, err, tol):
        r = float(err) / float(tol) if tol > 0 else (0.0 if err == 0 else float('inf'))
        if r > res['ratio'].get(name, -1.0):
            res['ratio'][name] = r
        return r

    # ---- construction -------------------------------------------------------------------------------------------
    via = case.get('via', 'CollBase')
    try:
        if via == 'sweeper':
            # the rule a sweeper holds when the interval is given in its parameters; judged on the interval the object reports
            from pySDC.core.level import Level
            from pySDC.implementations.problem_classes.TestEquation_0D import testequation0d
            from pySDC.implementations.sweeper_classes.generic_implicit import generic_implicit

            sp = {'num_nodes': M, 'quad_type': qt, 'node_type': nt, 'tleft': a, 'tright': b, 'QI': 'IE'}
            coll = Level(problem_class=testequation0d, problem_params={}, sweeper_class=generic_implicit, sweeper_params=sp, level_params={'dt': 0.1}, level_index=0).sweep.coll
            a, b = float(coll.tleft), float(coll.tright)
            if not a < b:
                fail('shape', {'tleft': a, 'tright': b})
                return res
        elif via == 'hierarchy':
            # the rule held by the MIDDLE level of a three-level step (its sweeper is the coarse side of one transfer object
            # and the fine side of the next), interval given in the sweeper parameters
            from pySDC.core.step import Step
            from pySDC.implementations.problem_classes.TestEquation_0D import testequation0d
            from pySDC.implementations.sweeper_classes.generic_implicit import generic_implicit
            from pySDC.implementations.transfer_classes.TransferMesh_NoCoarse import mesh_to_mesh as IdentityTransfer

            sp = {'num_nodes': [M + 2, M, max(M - 1, 2)], 'quad_type': qt, 'node_type': nt, 'tleft': a, 'tright': b, 'QI': 'IE'}
            S = Step({'problem_class': testequation0d, 'problem_params': {}, 'sweeper_class': generic_implicit, 'sweeper_params': sp, 'level_params': {'dt': 0.1}, 'step_params': {'maxiter': 1}, 'space_transfer_class': IdentityTransfer})
            coll = S.levels[1].sweep.coll
            a, b = float(coll.tleft), float(coll.tright)
            if not a < b:
                fail('shape', {'tleft': a, 'tright': b})
                return res
        else:
            coll = CollBase(M, a, b, node_type=nt, quad_type=qt)
    except CollocationError as e:
        res['outcome'] = 'rejected'
        res['message'] = str(e)[:160]
        if M >= 2:
            fail('unexpected_rejection', {'error': str(e)[:300]})
        return res
    except Exception as e:  # any other exception type is not the documented way to refuse
        res['outcome'] = 'crashed'
        fail('wrong_exception', {'type': type(e).__name__, 'error': str(e)[:300]})
        return res

    # ---- construction history: the same rule built again after every other interval of the alphabet has been built for
    # the same (family, type, M) in this process must be bitwise the same object data
    first = {k: np.array(getattr(coll, k), dtype=float, copy=True) for k in ('nodes', 'weights', 'Qmat', 'Smat', 'delta_m')}
    for a2, b2 in INTERVALS if via == 'CollBase' else ():
        try:
            CollBase(M, a2, b2, node_type=nt, quad_type=qt)
        except Exception:  # noqa: BLE001  (judged where that member is the case)
            pass
    try:
        again = CollBase(M, a, b, node_type=nt, quad_type=qt) if via == 'CollBase' else coll
        changed = [k for k, v in first.items() if not np.array_equal(np.asarray(getattr(again, k), dtype=float), v)]
        changed += [k + '(first object modified)' for k, v in first.items() if not np.array_equal(np.asarray(getattr(coll, k), dtype=float), v)]
    except Exception as e:  # noqa: BLE001
        changed = [f'second construction raised {type(e).__name__}']
    res['ncmp'] += 5
    if changed:
        fail('depends_on_construction_history', {'attributes': changed, 'built_in_between': [list(i) for i in INTERVALS]})
        return res

    nodes = np.asarray(coll.nodes)
    # ---- shapes, stored parameters -----------------------------------------------------------------------------------
    shapes = {'nodes': (M,), 'weights': (M,), 'Qmat': (M + 1, M + 1), 'Smat': (M + 1, M + 1), 'delta_m': (M,)}
    bad = {k: list(np.shape(getattr(coll, k))) for k, v in shapes.items() if tuple(np.shape(getattr(coll, k))) != v}
    if bad or coll.num_nodes != M or coll.tleft != a or coll.tright != b:
        fail('shape', {'bad_shapes': bad, 'num_nodes': coll.num_nodes, 'tleft': coll.tleft, 'tright': coll.tright})
        return res
    allvals = np.concatenate([np.ravel(getattr(coll, k)) for k in shapes])
    if not np.all(np.isfinite(allvals)):
        fail('not_finite', {})
        return res

    # ---- nodes: increasing, inside, end points exactly when the type says so, flags ---------------------------------------
    increasing = bool(np.all(np.diff(nodes) > 0))
    inside = bool(nodes[0] >= a and nodes[-1] <= b)
    if not increasing or not inside:
        fail('nodes_order', {'increasing': increasing, 'inside': inside, 'nodes': nodes.tolist()})
        return res
    want_l, want_r = qt in LEFT_TYPES, qt in RIGHT_TYPES
    has_l, has_r = bool(nodes[0] == a), bool(nodes[-1] == b)
    snapped = [n for n, want, has in (('left', want_l, has_l), ('right', want_r, has_r)) if has and not want]
    missing = [n for n, want, has in (('left', want_l, has_l), ('right', want_r, has_r)) if want and not has]
    if bool(coll.left_is_node) != want_l or bool(coll.right_is_node) != want_r:
        fail('flag_mismatch', {'left_is_node': bool(coll.left_is_node), 'right_is_node': bool(coll.right_is_node), 'expected': [want_l, want_r]})
    if missing:
        fail('endpoint_missing', {'ends': missing, 'first_node_minus_tleft': float(nodes[0] - a), 'tright_minus_last_node': float(b - nodes[-1])})

    # ---- exact zero padding ------------------------------------------------------------------------------------
    Qm, Sm = np.asarray(coll.Qmat, dtype=float), np.asarray(coll.Smat, dtype=float)
    for name, A in (('Qmat', Qm), ('Smat', Sm)):
        if np.any(A[0, :] != 0) or np.any(A[:, 0] != 0):
            fail('padding', {'row0': A[0, :].tolist(), 'col0': A[:, 0].tolist()}, what=name)

    # ---- oracle --------------------------------------------------------------------------------------------------
    order = int(coll.order)
    jmax = max(order, M)
    ex = oq.exact_rule(nodes, a, b)
    D = oq.derivatives(nodes, a, b, jmax, base=ex)
    L = b - a
    ulps = np.array([common.ulp(x) for x in nodes])
    # admissible perturbation of node k in anything computed from the nodes: its own ulp plus one rounding at the scale
    # of the interval (every algorithm forms differences t - x_k of size up to L = b - a, each carrying relative eps)
    d_node = ulps + EPS * L
    d_entry = d_node

    def tol_of(Dg, gabs, delta):
        return C * (np.tensordot(delta, Dg, axes=(0, 0)) + M * EPS * gabs)

    f = lambda X: np.array([[float(v) for v in row] for row in X]) if isinstance(X[0], list) else np.array([float(v) for v in X])
    ref = {'w': ex['w'], 'Q': ex['Q'], 'S': ex['S']}
    mag = {'w': f(ex['wcond']), 'Q': f(ex['Qcond']), 'S': f(ex['Scond'])}
    impl = {'w': np.asarray(coll.weights, dtype=float), 'Q': Qm[1:, 1:], 'S': Sm[1:, 1:]}
    names = {'w': 'weights', 'Q': 'Qmat', 'S': 'Smat'}
    tol_entry, tol_cov = {}, {}
    shift = lambda T: T + np.vstack([np.zeros((1, M)), T[:-1]])
    for key in ('w', 'Q', 'S'):
        if key == 'S':
            # the property (and CollBase) define S as row differences of Q: the rounding errors of the two stored Q
            # entries are independent and do not cancel, so an S entry is allowed the sum of their tolerances
            tol_entry[key], tol_cov[key] = shift(tol_entry['Q']), shift(tol_cov['Q'])
        else:
            tol_entry[key] = tol_of(D[key], mag[key], d_entry)
            tol_cov[key] = 2 * tol_of(D[key], mag[key], d_node)
        got = impl[key]
        worst = None
        for idx in np.ndindex(got.shape):
            r_ = ref[key][idx[0]] if len(idx) == 1 else ref[key][idx[0]][idx[1]]
            err = abs(oq.mpf(float(got[idx])) - r_)
            res['ncmp'] += 1
            rr = ratio('entry_' + names[key], err, tol_entry[key][idx])
            if rr > 1 and (worst is None or rr > worst[0]):
                worst = (rr, idx, float(got[idx]), float(r_), float(err), float(tol_entry[key][idx]))
        if worst:
            fail('entrywise', {'index': list(worst[1]), 'observed': worst[2], 'expected': worst[3], 'err': worst[4], 'tol': worst[5], 'err_over_tol': worst[0]}, what=names[key])
    res['nontrivial'] = M >= 2

    # ---- polynomial exactness up to the reported order (moments of shifted monomials) --------------------------------
    val, mref, _ = oq.moments(_mp_arr(impl['w']), ex['s'], ex['L'], order)
    spow = np.array([[float(abs(si)) ** j for si in ex['s']] for j in range(order)])  # (j, i)
    worst = None
    for j in range(order):
        tol = float(np.dot(tol_entry['w'], spow[j]) + C * np.dot(d_node, D['moment'][:, j]))
        err = abs(val[j] - mref[j])
        res['ncmp'] += 1
        rr = ratio('moment_lt_M' if j < M else 'moment_ge_M', err, tol)
        if rr > 1 and worst is None:
            worst = (rr, j, float(val[j]), float(mref[j]), float(err), tol)
    if snapped:
        # one cause, one violation: a node sitting on an excluded end also destroys the order -- recorded in the detail
        fail(
            'endpoint_snapped',
            {
                'first_node_minus_tleft': float(nodes[0] - a),
                'tright_minus_last_node': float(b - nodes[-1]),
                'reported_order': order,
                'first_failing_moment_degree': worst[1] if worst else None,
                'moment_err_over_tol': worst[0] if worst else None,
            },
            ends='both' if len(snapped) == 2 else snapped[0],
        )
    elif worst:
        fail('order', {'degree': worst[1], 'observed': worst[2], 'expected': worst[3], 'err': worst[4], 'tol': worst[5], 'err_over_tol': worst[0], 'reported_order': order})

    # ---- S = row differences of Q, Q = cumulative sums of S (float identities of the stored matrices) ---------------------
    worst_d = worst_c = None
    csum = [oq.ZERO] * (M + 1)
    cabs = np.zeros(M + 1)
    for m in range(1, M + 1):
        for j in range(M + 1):
            d = oq.mpf(float(Qm[m, j])) - oq.mpf(float(Qm[m - 1, j]))
            err = abs(oq.mpf(float(Sm[m, j])) - d)
            tol = C * EPS * (abs(Qm[m, j]) + abs(Qm[m - 1, j])) + 5e-324
            rr = ratio('S_is_diff_Q', err, tol)
            if rr > 1 and worst_d is None:
                worst_d = (rr, [m, j], float(Sm[m, j]), float(d))
            csum[j] += oq.mpf(float(Sm[m, j]))
            cabs[j] += abs(Sm[m, j])
            err = abs(csum[j] - oq.mpf(float(Qm[m, j])))
            tol = C * EPS * M * cabs[j] + 5e-324
            rr = ratio('Q_is_cumsum_S', err, tol)
            if rr > 1 and worst_c is None:
                worst_c = (rr, [m, j], float(Qm[m, j]), float(csum[j]))
            res['ncmp'] += 2
    if worst_d:
        fail('S_not_diff_of_Q', {'index': worst_d[1], 'Smat': worst_d[2], 'Q_row_difference': worst_d[3], 'err_over_tol': worst_d[0]})
    if worst_c:
        fail('Q_not_cumsum_of_S', {'index': worst_c[1], 'Qmat': worst_c[2], 'cumsum_S': worst_c[3], 'err_over_tol': worst_c[0]})

    # ---- delta_m = node spacings ------------------------------------------------------------------------------------
    dm = np.asarray(coll.delta_m, dtype=float)
    prev = oq.mpf(a)
    for m in range(M):
        x = oq.mpf(float(nodes[m]))
        d = x - prev
        prev = x
        err = abs(oq.mpf(float(dm[m])) - d)
        tol = C * EPS * float(abs(d)) + 5e-324
        res['ncmp'] += 1
        if ratio('delta_m', err, tol) > 1:
            fail('delta_m', {'index': m, 'observed': float(dm[m]), 'expected': float(d)})
            break

    # ---- affine covariance with the (0, 1) object ----------------------------------------------------------------------
    if (a, b) != (0.0, 1.0):
        try:
            c01 = CollBase(M, 0.0, 1.0, node_type=nt, quad_type=qt)
        except Exception as e:
            fail('covariance', {'error': 'unit-interval object could not be built: ' + str(e)[:200]}, what='construction')
            return res
        Lm = ex['L']
        worst = None
        n01 = _mp_arr(c01.nodes)
        for k in range(M):
            err = abs(oq.mpf(float(nodes[k])) - (oq.mpf(a) + Lm * n01[k]))
            res['ncmp'] += 1
            rr = ratio('cov_nodes', err, C * d_node[k])
            if rr > 1 and worst is None:
                worst = (rr, k, float(nodes[k]), float(oq.mpf(a) + Lm * n01[k]))
        if worst and not snapped:
            fail('covariance', {'index': worst[1], 'observed': worst[2], 'mapped_unit_value': worst[3], 'err_over_tol': worst[0]}, what='nodes')
        unit = {'w': np.asarray(c01.weights, dtype=float), 'Q': np.asarray(c01.Qmat, dtype=float)[1:, 1:], 'S': np.asarray(c01.Smat, dtype=float)[1:, 1:]}
        if int(c01.order) != order:
            fail('covariance', {'order': order, 'unit_order': int(c01.order)}, what='order')
        if not snapped:
            for key in ('w', 'Q', 'S'):
                worst = None
                for idx in np.ndindex(impl[key].shape):
                    err = abs(oq.mpf(float(impl[key][idx])) - Lm * oq.mpf(float(unit[key][idx])))
                    res['ncmp'] += 1
                    rr = ratio('cov_' + names[key], err, tol_cov[key][idx])
                    if rr > 1 and (worst is None or rr > worst[0]):
                        worst = (rr, idx, float(impl[key][idx]), float(Lm * oq.mpf(float(unit[key][idx]))))
                if worst:
                    fail('covariance', {'index': list(worst[1]), 'observed': worst[2], 'mapped_unit_value': worst[3], 'err_over_tol': worst[0]}, what=names[key])
    return res


def _report(rep, results):
    """all endpoint_snapped members are reported (one signature per lattice member); for every other kind the simplest
    failing member per (kind, what, quad_type) is reported and the totals go to the evidence."""
    order_key = lambda c: (c['M'], INTERVALS.index(tuple(c['interval'])) if tuple(c['interval']) in INTERVALS else 99, NODE_TYPES.index(c['node_type']))
    counts = {}
    grouped = {}
    for r in sorted(results, key=lambda r: order_key(r['case'])):
        for sig, detail in r['fails']:
            counts[sig['kind']] = counts.get(sig['kind'], 0) + 1
            if sig['kind'] == 'endpoint_snapped':
                rep.violation(sig, detail, replay=r['case'])
            else:
                g = (sig['kind'], sig.get('what'), sig['quad_type'])
                if g not in grouped:
                    grouped[g] = True
                    rep.violation(sig, detail, replay=r['case'])
    return counts


# ---------------------------------------------------------------------------------------------------------------------
# the rule a sweeper holds after it has been re-initialised in place (AdaptiveCollocation.switch_sweeper does exactly
# this: `level.sweep.__init__(new_params, level)`)
# ---------------------------------------------------------------------------------------------------------------------
def reinit_case(arg):
    from pySDC.core.level import Level
    from pySDC.implementations.problem_classes.TestEquation_0D import testequation0d
    from pySDC.implementations.sweeper_classes.generic_implicit import generic_implicit

    M, qt, nt_a, nt_b, change = arg
    out = []
    pa = {'num_nodes': M, 'quad_type': qt, 'node_type': nt_a, 'QI': 'IE'}
    pb = dict(pa)
    if change == 'node_type':
        pb['node_type'] = nt_b
    elif change == 'quad_type':
        pb['quad_type'] = {'RADAU-RIGHT': 'LOBATTO', 'LOBATTO': 'GAUSS', 'GAUSS': 'RADAU-LEFT', 'RADAU-LEFT': 'RADAU-RIGHT'}[qt]
    else:
        pb['num_nodes'] = M + 1
    sig = {'kind': 'sweeper_reinitialised_in_place', 'M': M, 'quad_type': qt, 'node_type': nt_a, 'changed': change, 'to': pb[change]}
    try:
        L = Level(problem_class=testequation0d, problem_params={}, sweeper_class=generic_implicit, sweeper_params=dict(pa), level_params={'dt': 0.1}, level_index=0)
        L.sweep.__init__(dict(pb), L)
        want = CollBase(pb['num_nodes'], 0, 1, node_type=pb['node_type'], quad_type=pb['quad_type'])
    except CollocationError:
        return out
    got = L.sweep.coll
    bad = [k for k in ('nodes', 'weights', 'Qmat', 'Smat', 'delta_m') if not np.array_equal(np.asarray(getattr(got, k), dtype=float), np.asarray(getattr(want, k), dtype=float))]
    bad += [k for k in ('num_nodes', 'order', 'quad_type', 'node_type', 'left_is_node', 'right_is_node') if getattr(got, k, None) != getattr(want, k, None)]
    if bad:
        out.append((sig, {'attributes_of_another_rule': bad, 'nodes_held': np.asarray(got.nodes).tolist(), 'nodes_of_the_configured_rule': np.asarray(want.nodes).tolist()}))
    return out


def reinit_cases(tier):
    Ms = (2, 3) if tier == 'quick' else (2, 3, 5, 8)
    out = []
    for M in Ms:
        for qt in QUAD_TYPES:
            for a in NODE_TYPES:
                for b in NODE_TYPES:
                    if a != b:
                        out.append((M, qt, a, b, 'node_type'))
                out.append((M, qt, a, a, 'quad_type'))
                out.append((M, qt, a, a, 'num_nodes'))
    return out


def run(rep, tier):
    rep.assumptions += [
        'the oracle takes the float nodes reported by the object as exact data (the property speaks of the rule on these nodes); it never calls pySDC or qmat',
        'mpmath at 60 digits is exact for the purpose (cross-checked on every run against mpmath.quad on the product form of the Lagrange basis)',
        'continuous quantifier "arbitrary tleft<tright" is covered by the fixed 8-interval alphabet only (signs, offsets up to 2000x the length, lengths 1e-3 .. 2e4, non-dyadic ends)',
    ]
    cases = lattice(tier)
    order = list(range(len(cases)))
    common.rng('c05').shuffle(order)  # seed only permutes the order of independent cases
    results = common.pmap(evaluate, [cases[i] for i in order], chunksize=4)

    # oracle self check (independent quadrature of the product form), a handful of node sets incl. an offset interval
    sc = []
    for nodes, a, b in (
        ([0.1, 0.5, 0.9], 0.0, 1.0),
        ([1000.0 + 0.5 * (0.5 - 0.5 * np.cos((2 * i + 1) * np.pi / 18)) for i in range(9)], 1000.0, 1000.5),
        (list(np.linspace(-1e4, 1e4, 7)), -1e4, 1e4),
    ):
        w = float(oq.selfcheck(nodes, a, b) / (b - a))
        sc.append(w)
        assert w < 1e-40, f'oracle self check failed: {w}'

    counts = _report(rep, results)
    rcases = reinit_cases(tier)
    seen_r = set()
    for arg, res_ in zip(rcases, common.pmap(reinit_case, rcases, chunksize=8)):
        for sig, det in res_:
            key = (sig['changed'], sig['quad_type'])
            if key not in seen_r:
                seen_r.add(key)
                rep.violation(sig, det, replay={'reinit': list(arg)})
    rep.coverage['sweeper_reinit_cases'] = len(rcases)
    built = [r for r in results if r['outcome'] == 'built']
    worst = {}
    for r in built:
        if any(s['kind'] == 'endpoint_snapped' for s, _ in r['fails']):
            continue  # ratios of members that fail are not headroom
        for k, v in r['ratio'].items():
            if v > worst.get(k, (-1, None))[0]:
                worst[k] = (v, r['case'])
    rejected = sorted({(r['case']['node_type'], r['case']['quad_type'], r['case']['M']) for r in results if r['outcome'] == 'rejected'})
    wmax = max((v[0] for v in worst.values()), default=0.0)
    rep.coverage.update(
        {
            'evaluations': len(results),
            'distinct_nontrivial': len({common.canon(r['case']) for r in built if r['nontrivial']}),
            'rule': 'every (node_type, quad_type, M, interval) of the lattice once; non-trivial = an object was built, M >= 2, and every weight / Qmat / Smat entry was compared with the exact Lagrange integral',
            'exhaustive': True,
            'dimensions': {'node_type': NODE_TYPES, 'quad_type': QUAD_TYPES, 'M': [1, MMAX[tier]], 'interval': INTERVALS},
            'outcomes': {k: sum(1 for r in results if r['outcome'] == k) for k in ('built', 'rejected', 'crashed')},
            'rejected_members_without_interval': [list(x) for x in rejected],
            'float_comparisons': int(sum(r['ncmp'] for r in results)),
            'failing_members_by_kind': counts,
            'worst_err_over_tol': {k: {'ratio': v[0], 'case': v[1]} for k, v in sorted(worst.items())},
            'worst_headroom': (1.0 / wmax) if wmax > 0 else None,
            'tolerance': 'C=50, delta_k = ulp(x_k) + eps*(b-a). weights/Qmat entry: C*(sum_k |dg/dx_k| delta_k + M*eps*int Lambda(t)|l_j(t)| dt), Lambda = piecewise maximal Lebesgue function of the reported nodes (conditioning of evaluating l_j); Smat entry: tol(Q[m,j]) + tol(Q[m-1,j]); moment j: sum_i tol(w_i)|s_i|^j + C*sum_k |dm_j/dx_k| delta_k; covariance with the (0,1) object: twice the entry tolerance; float identities (S = diff Q, Q = cumsum S, delta_m): C*eps*(sum of magnitudes of the operands)',
            'endpoint_snapped_members': sorted(
                [[r['case']['node_type'], r['case']['quad_type'], r['case']['M'], r['case']['interval'], s_['ends']] for r in results for s_, _ in r['fails'] if s_['kind'] == 'endpoint_snapped']
            ),
            'oracle_selfcheck_rel_err': sc,
            'samples': [results[i]['case'] for i in range(min(4, len(results)))],
        }
    )


def replay(rep, case):
    if 'reinit' in case:
        for sig, det in reinit_case(tuple(case['reinit'])):
            rep.violation(sig, det, replay=case)
        return
    r = evaluate({'node_type': case['node_type'], 'quad_type': case['quad_type'], 'M': int(case['M']), 'interval': [float(v) for v in case['interval']]})
    for sig, detail in r['fails']:
        rep.violation(sig, detail, replay=r['case'])
