"""C10 — coarse levels never change the fine fixed point (FAS consistency), engine E2.

Three clauses, each on a *real* multi-level Step inside a real controller_nonMPI(1 step):
  1 fixed point   fine level loaded with the oracle's collocation solution, real IT_DOWN / IT_COARSE / IT_UP (/ IT_FINE)
                  of the controller's stage machine; the fine values must stay put (linear and nonlinear problems)
  2 defect        immediately after S.transfer(fine -> coarse) on basis inputs (U, F, u0 separately) the coarse defect
                  equals (Rcoll (x) Rspace) fine defect; three levels: with arbitrary values on the middle level and its
                  inherited correction
  3 MG matrix     one iteration (down, coarse, up, fine sweeps) extracted by basis probing equals the oracle's
                  multigrid-in-time iteration matrix (linear problems, preconditioners the oracle writes out itself)
Oracle: vf/oracle/colloc.py (own Q, QDelta, time / space transfer matrices, problem matrices, right-hand sides, Newton).
"""

import time

import numpy as np

from pySDC.implementations.problem_classes.AdvectionDiffusionEquation_1D_FFT import advectiondiffusion1d_imex
from pySDC.implementations.problem_classes.AllenCahn_1D_FD import (
    allencahn_front_fullyimplicit,
    allencahn_periodic_fullyimplicit,
    allencahn_periodic_multiimplicit,
    allencahn_periodic_semiimplicit,
)
from pySDC.implementations.problem_classes.GeneralizedFisher_1D_FD_implicit import generalized_fisher
from pySDC.implementations.problem_classes.Van_der_Pol_implicit import vanderpol
from pySDC.implementations.transfer_classes.TransferMesh_FFT import mesh_to_mesh_fft as TransferFFT

from vf import common
from vf.env import mlenv
from vf.env.mlenv import (
    SWEEPERS,
    TransferIdentity,
    TransferMesh,
    advectionNd,
    controller_nonMPI,
    heatNd_forced,
    heatNd_unforced,
    test_equation_IMEX,
    testequation0d,
)
from vf.oracle import colloc as oc

LEVEL = 'exploration'

C1 = 200.0  # fixed point:   C1 * eps * (1 + gain) * magnitude  (+ gain * newton_tol for Newton-based problems)
C2 = 200.0  # defect:        C2 * eps * (sum of the magnitudes of the terms that are added / cancelled)
C3 = 2000.0  # MG matrix:     C3 * eps * max cond(sweep matrices) * (largest intermediate magnitude of that probe)
NEWTON_TOL = 1e-12
T0 = 0.125

FAMILIES = [(nt, qt) for nt in ('LEGENDRE', 'EQUID', 'CHEBY-1', 'CHEBY-2', 'CHEBY-3', 'CHEBY-4') for qt in ('RADAU-RIGHT', 'LOBATTO', 'GAUSS', 'RADAU-LEFT')]  # fmt: skip


# ---------------------------------------------------------------------------------------------------------------------
# problems: real class + parameters per level, oracle model per level
# ---------------------------------------------------------------------------------------------------------------------
PROBLEMS = {
    #  name            sweeper  linear  kind of space    default sizes (2 levels / 3 levels)          dt
    'heat_per': ('gi', True, 'per', [16, 8, 4], 0.05),
    'heat_dir': ('gi', True, 'dir', [15, 7, 3], 0.05),
    'heat2d_per': ('gi', True, 'per2d', [8, 4, 2], 0.05),
    'heatf_per': ('imex', True, 'per', [16, 8, 4], 0.05),
    'adv_per': ('gi', True, 'per', [16, 8, 4], 0.05),
    'dahl': ('gi', True, '0d', [3, 3, 3], 0.3),
    'dahl_imex': ('imex', True, '0d', [3, 3, 3], 0.3),
    'advdiff_fft': ('imex', True, 'fft', [16, 8, 4], 0.02),
    'ac_front_full': ('gi', False, 'dir', [15, 7, 3], 0.002),
    'ac_per_full': ('gi', False, 'per', [16, 8, 4], 0.002),
    'ac_per_semi': ('imex', False, 'per', [16, 8, 4], 0.002),
    'ac_per_multi': ('mi', False, 'per', [16, 8, 4], 0.002),
    'fisher': ('gi', False, 'dir', [15, 7, 3], 0.01),
    'vdp': ('gi', False, '0d', [2, 2, 2], 0.05),
}


class Setup:
    def __init__(self, **kw):
        self.__dict__.update(kw)


def problem_setup(name, sizes, sel):
    """sizes: spatial size per level. Returns class, params (per-level lists), oracle models per level (LinearModel or
    NonlinearModel), u0 on the finest level, and whether solves inside sweeps are Newton based."""
    sw, linear, kind, _, _ = PROBLEMS[name]
    L = len(sizes)
    newton = False
    if name in ('heat_per', 'heat_dir', 'heat2d_per', 'heatf_per', 'adv_per'):
        bc = 'periodic' if kind.startswith('per') else 'dirichlet-zero'
        ndim = 2 if kind == 'per2d' else 1
        freq = 2 if bc == 'periodic' else 1
        coef = [0.1, 0.2, 0.05][sel % 3]
        nv = [(n,) * ndim for n in sizes]
        params = {'nvars': [n if ndim == 1 else (n,) * ndim for n in sizes], 'freq': freq if ndim == 1 else (freq,) * ndim, 'bc': bc}
        if name == 'adv_per':
            cls, params['c'], mats = advectionNd, coef * 5, [-(coef * 5) * oc.fd_matrix(v, 1, 2, 'center', bc) for v in nv]
        else:
            cls = heatNd_forced if name == 'heatf_per' else heatNd_unforced
            params['nu'] = coef
            mats = [coef * oc.fd_matrix(v, 2, 2, 'center', bc) for v in nv]
        gs = [oc.heat_forcing(v, (freq,) * ndim, coef, bc) if name == 'heatf_per' else None for v in nv]
        models = [oc.LinearModel(A, None, g, label=name) for A, g in zip(mats, gs)]
        u0 = mlenv.generic_vector(int(np.prod(nv[0])), sel)
    elif name == 'dahl':
        lam = mlenv._LAMBDAS[sel % 3]
        cls, params = testequation0d, {'lambdas': lam.copy()}
        models = [oc.LinearModel(np.diag(lam), label=name) for _ in range(L)]
        u0 = mlenv.generic_vector(3, sel, cplx=True)
    elif name == 'dahl_imex':
        li, le = mlenv._LAMBDAS[sel % 3], mlenv._LAMBDAS_EXPL[sel % 3]
        cls, params = test_equation_IMEX, {'lambdas_implicit': li.copy(), 'lambdas_explicit': le.copy()}
        models = [oc.LinearModel(np.diag(li), np.diag(le), label=name) for _ in range(L)]
        u0 = mlenv.generic_vector(3, sel, cplx=True)
    elif name == 'advdiff_fft':
        nu, c = [0.02, 0.05, 0.01][sel % 3], [1.0, 0.5, -0.75][sel % 3]
        cls, params = advectiondiffusion1d_imex, {'nvars': list(sizes), 'nu': nu, 'c': c, 'freq': 2, 'L': 1.0}
        models = []
        for n in sizes:
            D1, D2 = oc.spectral_matrices(n, 1.0)
            models.append(oc.LinearModel(nu * D2, -c * D1, label=name))
        u0 = mlenv.generic_vector(sizes[0], sel)
    elif name.startswith('ac_'):
        eps, dw = [(0.04, -0.04), (0.06, -0.02), (0.05, -0.06)][sel % 3]
        newton = name in ('ac_front_full', 'ac_per_full', 'ac_per_multi')
        cls = {'ac_front_full': allencahn_front_fullyimplicit, 'ac_per_full': allencahn_periodic_fullyimplicit,
               'ac_per_semi': allencahn_periodic_semiimplicit, 'ac_per_multi': allencahn_periodic_multiimplicit}[name]  # fmt: skip
        params = {'nvars': list(sizes), 'eps': eps, 'dw': dw, 'newton_tol': NEWTON_TOL}
        if name.startswith('ac_front'):
            models = [oc.allencahn_front(n, eps, dw) for n in sizes]
            dx = 1.0 / (sizes[0] + 1)
            x = np.array([(i + 1) * dx - 0.5 for i in range(sizes[0])])
            u0 = 0.5 * (1 + np.tanh((x - 3.0 * np.sqrt(2) * eps * dw * T0) / (np.sqrt(2) * eps)))
        else:
            models = [oc.allencahn_periodic(n, eps, dw) for n in sizes]
            x = np.array([-0.5 + i / sizes[0] for i in range(sizes[0])])
            u0 = 0.5 * (1 + np.tanh((0.25 - np.abs(x)) / (np.sqrt(2) * eps)))
    elif name == 'fisher':
        nu, lam0 = [(1.0, 2.0), (2.0, 1.5), (1.0, 1.0)][sel % 3]
        newton = True
        cls, params = generalized_fisher, {'nvars': list(sizes), 'nu': nu, 'lambda0': lam0, 'newton_tol': NEWTON_TOL}
        models = [oc.generalized_fisher(n, nu, lam0) for n in sizes]
        dx = 10.0 / (sizes[0] + 1)
        x = np.array([-5.0 + (i + 1) * dx for i in range(sizes[0])])
        lam1 = lam0 / 2.0 * ((nu / 2.0 + 1) ** 0.5 + (nu / 2.0 + 1) ** (-0.5))
        delta = lam1 - np.sqrt(lam1**2 - lam0**2)
        u0 = (1 + (2 ** (nu / 2.0) - 1) * np.exp(-nu / 2.0 * delta * (x + 2 * lam1 * T0))) ** (-2.0 / nu)
    elif name == 'vdp':
        mu = [5.0, 2.0, 8.0][sel % 3]
        newton = True
        cls, params = vanderpol, {'mu': mu, 'newton_tol': NEWTON_TOL, 'u0': np.array([2.0, 0.0])}
        models = [oc.vanderpol(mu) for _ in range(L)]
        u0 = np.array([1.5, -0.5]) + 0.1 * mlenv.generic_vector(2, sel)
    else:
        raise KeyError(name)
    return Setup(cls=cls, params=params, models=models, u0=u0, linear=linear, sweeper=sw, newton=newton, kind=kind)


def model_f(model, U, ts):
    """right-hand side of the oracle model on node values U (M x N) at times ts; split (implicit part, explicit part) is
    only known for linear models"""
    if isinstance(model, oc.LinearModel):
        G = np.array([model.g(t) for t in ts]) if model.g is not None else 0.0
        return U @ model.A.T + G
    return np.array([model.f(U[m], ts[m]) for m in range(len(ts))])


# ---------------------------------------------------------------------------------------------------------------------
# the real step
# ---------------------------------------------------------------------------------------------------------------------
def build_controller(cfg, sel):
    name = cfg['problem']
    setup = problem_setup(name, cfg['sizes'], sel)
    L = len(cfg['sizes'])
    sp = {
        'num_nodes': [n[2] for n in cfg['nodes']],
        'node_type': [n[0] for n in cfg['nodes']],
        'quad_type': [n[1] for n in cfg['nodes']],
        'initial_guess': 'spread',
        'do_coll_update': bool(cfg.get('do_coll_update', False)),
    }
    sw = setup.sweeper
    if sw in ('gi', 'imex'):
        sp['QI'] = cfg['QI']
    if sw == 'imex':
        sp['QE'] = cfg['QE']
    if sw == 'mi':
        sp['Q1'] = cfg['QI']
        sp['Q2'] = cfg['QI']
    tr = cfg['transfer']
    if tr['cls'] == 'mesh':
        tcls, tpar = TransferMesh, {'iorder': tr['iorder'], 'rorder': tr['rorder'], 'periodic': setup.kind.startswith('per'), 'equidist_nested': tr['nested']}
    elif tr['cls'] == 'fft':
        tcls, tpar = TransferFFT, {}
    else:
        tcls, tpar = TransferIdentity, {}
    desc = {
        'problem_class': setup.cls,
        'problem_params': dict(setup.params),
        'sweeper_class': SWEEPERS[sw],
        'sweeper_params': sp,
        'level_params': {'dt': cfg['dt'], 'restol': 1e-14, 'nsweeps': list(cfg['nsweeps'])},
        'step_params': {'maxiter': 99},
        'space_transfer_class': tcls,
        'space_transfer_params': tpar,
        'base_transfer_params': {'finter': cfg['finter']},
    }
    # construction history: a hierarchy with the same node counts and quadrature types but another node family is built
    # (and dropped) first; whatever the library keeps between constructions must not reach this one
    import copy

    twin = copy.deepcopy(desc)
    twin['sweeper_params']['node_type'] = ['EQUID' if nt == 'LEGENDRE' else 'LEGENDRE' for nt in sp['node_type']]
    try:
        controller_nonMPI(1, {'logger_level': 90}, twin)
    except Exception:  # noqa: BLE001  (an unsupported twin is not this case's subject)
        pass
    controller = controller_nonMPI(1, {'logger_level': 90}, desc)
    return controller, setup


class RealStep:
    """thin driver around the controller's public stage machine for one step"""

    def __init__(self, cfg, sel):
        self.cfg = cfg
        self.controller, self.setup = build_controller(cfg, sel)
        self.S = self.controller.MS[0]
        self.levels = self.S.levels
        self.L = len(self.levels)
        self.sw = self.setup.sweeper
        self.nodes = [np.array(l.sweep.coll.nodes, dtype=float) for l in self.levels]  # read from the collocation objects
        self.Ms = [len(n) for n in self.nodes]
        self.Ns = [int(np.prod(np.shape(l.prob.u_init))) for l in self.levels]
        self.dt = cfg['dt']
        self.cplx = np.iscomplexobj(self.levels[0].prob.u_init)
        self.ncomp = 1 if self.sw == 'gi' else 2

    def reset(self, u0):
        P = self.levels[0].prob
        v = P.dtype_u(P.init)
        v[:] = np.asarray(u0).reshape(v.shape)
        self.controller.restart_block([0], [T0], v)

    def load(self, U, F1, F2=None):
        """U, F1, F2: (M x N) arrays for the finest level (F2: explicit / second component where the type has one)"""
        L0 = self.levels[0]
        P = L0.prob
        L0.f[0] = P.eval_f(L0.u[0], T0)
        for m in range(self.Ms[0]):
            u = P.dtype_u(P.init)
            u[:] = U[m].reshape(u.shape)
            f = P.dtype_f(P.init)
            if self.ncomp == 1:
                f[:] = F1[m].reshape(f.shape)
            else:
                f[0][:] = F1[m].reshape(f[0].shape)
                f[1][:] = (F2[m] if F2 is not None else 0 * F1[m]).reshape(f[1].shape)
            L0.u[m + 1] = u
            L0.f[m + 1] = f
        L0.status.unlocked = True
        L0.status.updated = True

    def load_consistent(self, U):
        """values U and right-hand sides evaluated by the level's own problem"""
        L0 = self.levels[0]
        P = L0.prob
        L0.f[0] = P.eval_f(L0.u[0], T0)
        for m in range(self.Ms[0]):
            u = P.dtype_u(P.init)
            u[:] = U[m].reshape(u.shape)
            L0.u[m + 1] = u
            L0.f[m + 1] = P.eval_f(u, T0 + self.dt * self.nodes[0][m])
        L0.status.unlocked = True
        L0.status.updated = True

    def stages(self, until):
        S = self.S
        S.status.iter = 1
        S.status.done = False
        S.status.stage = 'IT_DOWN'
        guard = 0
        while S.status.stage != until:
            self.controller.pfasst([S])
            guard += 1
            assert guard < 10, S.status.stage

    def values(self, l=0):
        lv = self.levels[l]
        return np.array([np.asarray(lv.u[m + 1]).reshape(-1) for m in range(self.Ms[l])])

    def rhs(self, l=0):
        lv = self.levels[l]
        if self.ncomp == 1:
            return np.array([np.asarray(lv.f[m + 1]).reshape(-1) for m in range(self.Ms[l])]), None
        a = np.array([np.asarray(lv.f[m + 1][0]).reshape(-1) for m in range(self.Ms[l])])
        b = np.array([np.asarray(lv.f[m + 1][1]).reshape(-1) for m in range(self.Ms[l])])
        return a, b

    def residual_vectors(self, l):
        lv = self.levels[l]
        lv.sweep.compute_residual()
        return np.array([np.asarray(lv.residual[m]).reshape(-1) for m in range(self.Ms[l])])

    def probe_space(self, l):
        """the space transfer object's restriction / prolongation between levels l and l+1 as matrices (basis probing of a
        linear operator; used for the FFT prolongation, and to *note* where the mesh transfer differs from the oracle's
        Lagrange operator, which is C11's subject)"""
        bt_levels = (self.levels[l], self.levels[l + 1])
        st = self._base_transfer(l).space_transfer
        Pf, Pc = bt_levels[0].prob, bt_levels[1].prob
        Nf, Nc = self.Ns[l], self.Ns[l + 1]
        R = np.zeros((Nc, Nf), dtype=complex if self.cplx else float)
        Pm = np.zeros((Nf, Nc), dtype=R.dtype)
        for i in range(Nf):
            u = Pf.dtype_u(Pf.init)
            u[:] = 0.0
            u.reshape(-1)[i] = 1.0
            R[:, i] = np.asarray(st.restrict(u)).reshape(-1)
        for j in range(Nc):
            u = Pc.dtype_u(Pc.init)
            u[:] = 0.0
            u.reshape(-1)[j] = 1.0
            Pm[:, j] = np.asarray(st.prolong(u)).reshape(-1)
        return R, Pm

    def _base_transfer(self, l):
        # Step keeps bound methods of one BaseTransfer object per level pair in its transfer dictionary
        d = self.S._Step__transfer_dict
        return d[(self.levels[l], self.levels[l + 1])].__self__


def own_space_ops(cfg, setup, rs):
    """oracle's spatial restriction / prolongation per level pair; None entries where the oracle does not define one"""
    sizes = cfg['sizes']
    tr = cfg['transfer']
    out = []
    for l in range(len(sizes) - 1):
        nf, nc = sizes[l], sizes[l + 1]
        if tr['cls'] == 'id' or setup.kind == '0d':
            n = rs.Ns[l]
            out.append((np.eye(n), np.eye(n)))
        elif tr['cls'] == 'fft':
            out.append((oc.injection(nf, nc) if nf != nc else np.eye(nf), None))
        else:
            ndim = 2 if setup.kind == 'per2d' else 1
            out.append(oc.space_transfer_mesh((nf,) * ndim, (nc,) * ndim, tr['iorder'], tr['rorder'], setup.kind.startswith('per')))
    return out


# ---------------------------------------------------------------------------------------------------------------------
def run_case(arg):
    cfg, sel = arg
    t_start = time.time()
    res = {'cfg': cfg, 'viol': [], 'ratios': {}, 'evals': 0, 'notes': [], 'clauses': []}
    try:
        rs = RealStep(cfg, sel)
    except Exception as e:  # every enumerated configuration is valid by construction
        res['viol'].append(({'kind': 'construction_raised', 'error': type(e).__name__}, {'msg': str(e)[:300]}))
        return res
    setup = rs.setup
    L, dt = rs.L, rs.dt
    Qs = [oc.lagrange_Q(n) for n in rs.nodes]
    tt = [oc.time_transfer(rs.nodes[l], rs.nodes[l + 1]) for l in range(L - 1)]
    Rt, Pt = [t[0] for t in tt], [t[1] for t in tt]
    own = own_space_ops(cfg, setup, rs)
    Rs_, Ps_ = [], []
    for l in range(L - 1):
        Rp, Pp = rs.probe_space(l)
        Ro, Po = own[l]
        if Po is None:
            Po = Pp  # FFT prolongation: read from the object (its treatment of the Nyquist mode is C11's subject)
            res['notes'].append('fft_prolongation_read_from_object')
        for nm, a, b in (('R', Ro, Rp), ('P', Po, Pp)):
            if float(np.max(np.abs(a - b))) > 1e-11 * max(1.0, float(np.max(np.abs(a)))):
                res['notes'].append(f'space_{nm}_differs_from_lagrange_oracle')
                if nm == 'R':
                    Ro = Rp
                else:
                    Po = Pp
        Rs_.append(Ro)
        Ps_.append(Po)
    u0 = np.asarray(setup.u0)
    u0s = [u0]
    for l in range(L - 1):
        u0s.append(Rs_[l] @ u0s[-1])
    ts = [T0 + dt * n for n in rs.nodes]
    M0, N0 = rs.Ms[0], rs.Ns[0]
    dtype = complex if rs.cplx else float
    viol = res['viol']

    def guarded(label, fn):
        try:
            fn()
            res['clauses'].append(label)
        except mlenv.PYSDC_ERRORS + (TypeError, IndexError, AttributeError, KeyError, ValueError, ZeroDivisionError, AssertionError) as e:
            viol.append(({'kind': 'implementation_raised', 'clause': label, 'error': type(e).__name__}, {'msg': str(e)[:300]}))

    # ---- clause 1: fixed point ----------------------------------------------------------------------------------
    def clause1():
        model0 = setup.models[0]
        if setup.linear:
            nl = oc.linear_as_nonlinear(model0.A, model0.g)
        else:
            nl = model0
        Ustar, resid, Jinv, scale = oc.newton_collocation(nl, rs.nodes[0], dt, u0, T0)
        assert resid < 1e-12, ('oracle collocation solve failed its own residual check', resid)
        Fstar = model_f(model0, Ustar, ts[0])
        rs.reset(u0)
        rs.load_consistent(Ustar)
        f1, f2 = rs.rhs(0)
        fsum = f1 if f2 is None else f1 + f2
        mag = float(np.max(np.abs(Ustar))) + dt * float(np.linalg.norm(Qs[0][0], np.inf)) * float(np.max(np.abs(Fstar))) + float(np.max(np.abs(u0)))
        # harness self-check: the real problem's right-hand side is the documented one the oracle transcribed
        fmis = float(np.max(np.abs(fsum - Fstar)))
        assert fmis <= 1e-9 * max(1.0, float(np.max(np.abs(Fstar)))), ('oracle right-hand side differs from the problem class', cfg['problem'], fmis)
        gain = correction_gain(cfg, setup, rs, Qs, Rt, Pt, Rs_, Ps_, Ustar, ts)
        tol_du = C1 * oc.EPS * (1.0 + gain) * mag + (gain * NEWTON_TOL * 4 if setup.newton else 0.0)
        rs.stages('IT_FINE')
        err_du = float(np.max(np.abs(rs.values(0) - Ustar)))
        # the end value belongs to a level's fixed point as well (it is what the next step of a block receives): on a rule
        # whose last node is the right end point, the end value formed by the collocation update (quadrature of the
        # right-hand sides plus the FAS correction) equals the last node value at the fixed point
        if cfg.get('do_coll_update'):
            for l in range(rs.L):
                lv = rs.levels[l]
                if not lv.sweep.coll.right_is_node or lv.u[-1] is None:
                    continue
                lv.sweep.compute_end_point()
                e_end = float(np.max(np.abs(np.asarray(lv.uend).reshape(-1) - np.asarray(lv.u[-1]).reshape(-1))))
                ratio = e_end / tol_du if np.isfinite(e_end) else np.inf
                res['ratios']['c1_end_value'] = max(res['ratios'].get('c1_end_value', 0.0), ratio)
                if not ratio <= 1.0:
                    viol.append(({'kind': 'end_value_not_at_fixed_point', 'level': l}, {'err': e_end, 'tol': tol_du, 'what': 'collocation-update end value vs last node value after the down-up cycle from the fine collocation solution'}))
        # continue through the fine sweeps of the same iteration
        while rs.S.status.stage != 'IT_CHECK':
            rs.controller.pfasst([rs.S])
        err_it = float(np.max(np.abs(rs.values(0) - Ustar)))
        fine_gain = fine_sweep_gain(cfg, setup, rs, Qs, Ustar, ts)
        tol_it = tol_du * (1.0 + fine_gain) + (fine_gain * NEWTON_TOL * 4 if setup.newton else 0.0)
        res['evals'] += 1
        for what, err, tol in (('down_up', err_du, tol_du), ('full_iteration', err_it, tol_it)):
            ratio = err / tol if np.isfinite(err) else np.inf
            res['ratios'][f'c1_{what}'] = max(res['ratios'].get(f'c1_{what}', 0.0), ratio)
            if not ratio <= 1.0:
                viol.append(({'kind': 'fixed_point_moved', 'after': what}, {'err': err, 'tol': tol, 'gain': gain, 'oracle_residual': resid}))

    # ---- clause 2: defect consistency ---------------------------------------------------------------------------
    def clause2():
        comps = rs.ncomp
        n0 = M0 * N0
        Q0 = Qs[0][0]
        R01 = np.kron(Rt[0], Rs_[0])
        probes = [('zero', None, None)]
        probes += [('U', k, 1.0) for k in range(n0)] + [('F1', k, 1.0) for k in range(n0)]
        if comps == 2:
            probes += [('F2', k, 1.0) for k in range(n0)]
        probes += [('u0', k, 1.0) for k in range(N0)]
        if rs.cplx:
            probes += [('U', k, 1j) for k in range(n0)] + [('F1', k, 1j) for k in range(n0)] + [('u0', k, 1j) for k in range(N0)]
        probes += [('sum', 0, None), ('sum', 1, None)]
        worst = 0.0
        first_bad = None
        for pi, (what, k, val) in enumerate(probes):
            U = np.zeros((M0, N0), dtype=dtype)
            F1 = np.zeros((M0, N0), dtype=dtype)
            F2 = np.zeros((M0, N0), dtype=dtype)
            v0 = np.zeros(N0, dtype=dtype)
            if what == 'U':
                U.reshape(-1)[k] = val
            elif what == 'F1':
                F1.reshape(-1)[k] = val
            elif what == 'F2':
                F2.reshape(-1)[k] = val
            elif what == 'u0':
                v0[k] = val
            elif what == 'sum':
                U[:] = mlenv.generic_vector(n0, sel + k, rs.cplx).reshape(M0, N0)
                F1[:] = mlenv.generic_vector(n0, sel + k + 5, rs.cplx).reshape(M0, N0)
                if comps == 2:
                    F2[:] = mlenv.generic_vector(n0, sel + k + 9, rs.cplx).reshape(M0, N0)
                v0[:] = mlenv.generic_vector(N0, sel + k + 2, rs.cplx)
            rs.reset(v0)
            rs.load(U, F1, F2 if comps == 2 else None)
            Fsum = F1 + F2
            rs.S.transfer(source=rs.levels[0], target=rs.levels[1])
            r1_impl = rs.residual_vectors(1)
            r0 = v0[None, :] + dt * (Q0 @ Fsum) - U
            r1 = (R01 @ r0.reshape(-1)).reshape(rs.Ms[1], rs.Ns[1])
            U1 = (R01 @ U.reshape(-1)).reshape(rs.Ms[1], rs.Ns[1])
            F1c = model_f(setup.models[1], U1, ts[1])
            nR = float(np.linalg.norm(R01, np.inf))
            Q1n = float(np.linalg.norm(Qs[1][0], np.inf))
            scale = nR * (float(np.max(np.abs(v0))) + dt * float(np.linalg.norm(Q0, np.inf)) * float(np.max(np.abs(Fsum))) + float(np.max(np.abs(U)))) + 2 * dt * Q1n * float(np.max(np.abs(F1c)))
            scale = max(scale, 1e-300)
            err = float(np.max(np.abs(r1_impl - r1)))
            ratio = err / (C2 * oc.EPS * scale) if scale > 1e-290 else (0.0 if err == 0 else np.inf)
            res['evals'] += 1
            if ratio > worst:
                worst = ratio
            if not ratio <= 1.0 and first_bad is None:
                first_bad = ({'kind': 'coarse_defect_not_restricted_fine_defect', 'pair': '0-1'}, {'probe': [what, k], 'err': err, 'tol': C2 * oc.EPS * scale})
            if L == 3:
                # arbitrary values on the middle level (its correction tau_1 stays), then the second restriction
                n1 = rs.Ms[1] * rs.Ns[1]
                dU = np.zeros(n1, dtype=dtype)
                dF = np.zeros(n1, dtype=dtype)
                dU[pi % n1] = 1.0
                dF[(3 * pi + 1) % n1] = -0.5
                dU, dF = dU.reshape(rs.Ms[1], rs.Ns[1]), dF.reshape(rs.Ms[1], rs.Ns[1])
                L1 = rs.levels[1]
                for m in range(rs.Ms[1]):
                    L1.u[m + 1] += dU[m].reshape(np.shape(L1.u[m + 1]))
                    if comps == 1:
                        L1.f[m + 1] += dF[m].reshape(np.shape(L1.f[m + 1]))
                    else:
                        L1.f[m + 1][0] += dF[m].reshape(np.shape(L1.f[m + 1][0]))
                rs.S.transfer(source=rs.levels[1], target=rs.levels[2])
                r2_impl = rs.residual_vectors(2)
                R12 = np.kron(Rt[1], Rs_[1])
                Q1 = Qs[1][0]
                tau1 = (R01 @ (dt * (Q0 @ Fsum)).reshape(-1)).reshape(rs.Ms[1], rs.Ns[1]) - dt * (Q1 @ F1c)
                u01 = Rs_[0] @ v0
                r1p = u01[None, :] + dt * (Q1 @ (F1c + dF)) - (U1 + dU) + tau1
                r2 = (R12 @ r1p.reshape(-1)).reshape(rs.Ms[2], rs.Ns[2])
                U2 = (R12 @ (U1 + dU).reshape(-1)).reshape(rs.Ms[2], rs.Ns[2])
                F2c = model_f(setup.models[2], U2, ts[2])
                nR2 = float(np.linalg.norm(R12, np.inf))
                scale2 = nR2 * (scale + float(np.max(np.abs(u01))) + dt * Q1n * (float(np.max(np.abs(F1c))) + 1.0) + float(np.max(np.abs(U1))) + 1.0) + 2 * dt * float(np.linalg.norm(Qs[2][0], np.inf)) * float(np.max(np.abs(F2c)))
                err2 = float(np.max(np.abs(r2_impl - r2)))
                ratio2 = err2 / (C2 * oc.EPS * scale2)
                res['evals'] += 1
                worst = max(worst, ratio2)
                if not ratio2 <= 1.0 and first_bad is None:
                    first_bad = ({'kind': 'coarse_defect_not_restricted_fine_defect', 'pair': '1-2 (inherited correction)'}, {'probe': [what, k], 'err': err2, 'tol': C2 * oc.EPS * scale2})
        res['ratios']['c2'] = worst
        if first_bad:
            viol.append(first_bad)

    # ---- clause 3: multigrid-in-time matrix ---------------------------------------------------------------------
    def clause3():
        imex = rs.sw == 'imex'
        if cfg['QI'] == 'LU' and not all(oc.lu_pivot_free(q[0]) for q in Qs):
            res['notes'].append('matrix_clause_skipped_LU_needs_pivoting')
            return
        lv = []
        for l in range(L):
            m = setup.models[l]
            G = np.array([m.g(t) for t in ts[l]]) if m.g is not None else None
            lv.append(oc.LevelModel(rs.nodes[l], m.AI, m.AE, cfg['QI'], cfg['QE'] if imex else 'PIC', dt, imex, G))
        ml = oc.MLModel(lv, Rt, Pt, Rs_, Ps_, u0, cfg['nsweeps'], cfg['finter'])
        st = ml.iteration(with_fine_sweeps=True)
        n0 = M0 * N0
        condmax = max(float(np.linalg.norm(np.linalg.inv(x.Sinv), np.inf) * np.linalg.norm(x.Sinv, np.inf)) for x in lv)
        mags = ml.magnitudes()  # per input column: largest intermediate magnitude
        blocks = ['U', 'FI'] + (['FE'] if imex else [])

        def run_probe(x):
            """x: dict block -> (M0 x N0) array"""
            rs.reset(u0)
            rs.load(x['U'], x['FI'], x.get('FE'))
            rs.stages('IT_CHECK')
            f1, f2 = rs.rhs(0)
            return rs.values(0).reshape(-1), f1.reshape(-1), (None if f2 is None else f2.reshape(-1))

        zero = {b: np.zeros((M0, N0), dtype=dtype) for b in blocks}
        base = run_probe(zero)
        res['evals'] += 1
        worst = 0.0
        first_bad = None

        def compare(label, got, colvec, mag):
            nonlocal worst, first_bad
            exp = {'U': st['U'] @ colvec, 'FI': st['FI'] @ colvec, 'FE': st['FE'] @ colvec}
            for nm, g in (('U', got[0]), ('FI', got[1]), ('FE', got[2])):
                if g is None:
                    continue
                tol = C3 * oc.EPS * condmax * mag
                err = float(np.max(np.abs(g - exp[nm])))
                ratio = err / tol if np.isfinite(err) else np.inf
                worst = max(worst, ratio)
                if not ratio <= 1.0 and first_bad is None:
                    first_bad = ({'kind': 'iteration_differs_from_multigrid_matrix', 'output': nm}, {'probe': label, 'err': err, 'tol': tol})

        off = np.zeros(ml.dim, dtype=dtype)
        off[-1] = 1.0
        compare(['zero'], base, off, mags[-1])
        scal = [1.0, 1j] if rs.cplx else [1.0]
        for bi, b in enumerate(blocks):
            for k in range(n0):
                for s in scal:
                    x = {bb: np.zeros((M0, N0), dtype=dtype) for bb in blocks}
                    x[b].reshape(-1)[k] = s
                    got = run_probe(x)
                    res['evals'] += 1
                    col = off.copy()
                    col[bi * n0 + k] = s
                    compare([b, k, str(s)], got, col, mags[bi * n0 + k] + mags[-1])
        for j in range(2):  # additivity probes
            x = {bb: mlenv.generic_vector(n0, sel + 3 * j + i, rs.cplx).reshape(M0, N0).astype(dtype) for i, bb in enumerate(blocks)}
            got = run_probe(x)
            res['evals'] += 1
            col = off.copy()
            for bi, b in enumerate(blocks):
                col[bi * n0 : (bi + 1) * n0] = x[b].reshape(-1)
            compare(['sum', j], got, col, float(np.abs(col[:-1]) @ mags[:-1]) + mags[-1])
        res['ratios']['c3'] = worst
        if first_bad:
            viol.append(first_bad)

    guarded('fixed_point', clause1)
    guarded('defect', clause2)
    if setup.linear and cfg.get('clause3', True) and rs.sw in ('gi', 'imex'):
        guarded('mg_matrix', clause3)
    res['wall'] = round(time.time() - t_start, 3)
    return res


def _split_jacobians(cfg, setup, rs, l, U, ts):
    """(J_I(u_m), J_E(u_m)) per node of level l for the conditioning estimate"""
    model = setup.models[l]
    out = []
    for m in range(U.shape[0]):
        if isinstance(model, oc.LinearModel):
            out.append((model.AI, model.AE) if rs.sw == 'imex' else (model.A, np.zeros_like(model.A)))
        else:
            J = model.jac(U[m], ts[m])
            if rs.sw in ('imex', 'mi') and model.lin is not None:  # Laplacian in the first part, reaction in the second
                out.append((model.lin, J - model.lin))
            else:
                out.append((J, np.zeros_like(J)))
    return out


def _sweep_inverse_norm(cfg, setup, rs, Qs, l, U, ts):
    dt = rs.dt
    M, N = U.shape
    QI = oc.qdelta_own(cfg['QI'] if cfg['QI'] in ('IE', 'LU', 'PIC') else 'IE', rs.nodes[l], Qs[l][0])
    QE = oc.qdelta_own(cfg['QE'] if cfg['QE'] in ('EE', 'PIC') else 'EE', rs.nodes[l], Qs[l][0]) if rs.sw == 'imex' else (QI if rs.sw == 'mi' else np.zeros((M, M)))
    Js = _split_jacobians(cfg, setup, rs, l, U, ts)
    S = np.eye(M * N, dtype=complex if rs.cplx else float)
    for k in range(M):
        for m in range(M):
            S[k * N : (k + 1) * N, m * N : (m + 1) * N] -= dt * (QI[k, m] * Js[m][0] + QE[k, m] * Js[m][1])
    return float(np.linalg.norm(np.linalg.inv(S), np.inf))


def correction_gain(cfg, setup, rs, Qs, Rt, Pt, Rs_, Ps_, Ustar, ts):
    """inf-norm bound of (fine defect) -> (change of the fine values by one down / up stroke), linearised at the solution"""
    L = rs.L
    U = Ustar
    g, tot = 1.0, 0.0
    for l in range(L - 1):
        R = np.kron(Rt[l], Rs_[l])
        U = (R @ U.reshape(-1)).reshape(rs.Ms[l + 1], rs.Ns[l + 1])
        g *= float(np.linalg.norm(R, np.inf))
        gl = g * _sweep_inverse_norm(cfg, setup, rs, Qs, l + 1, U, ts[l + 1]) * max(1, cfg['nsweeps'][l + 1]) * (2 if l + 1 < L - 1 else 1)
        for j in range(l, -1, -1):
            gl *= float(np.linalg.norm(np.kron(Pt[j], Ps_[j]), np.inf))
        tot += gl
    return tot


def fine_sweep_gain(cfg, setup, rs, Qs, Ustar, ts):
    dt = rs.dt
    Js = _split_jacobians(cfg, setup, rs, 0, Ustar, ts[0])
    nJ = max(float(np.linalg.norm(a + b, np.inf)) for a, b in Js)
    s = _sweep_inverse_norm(cfg, setup, rs, Qs, 0, Ustar, ts[0])
    return cfg['nsweeps'][0] * s * (1.0 + 2.0 * dt * float(np.linalg.norm(Qs[0][0], np.inf)) * nJ)


# ---------------------------------------------------------------------------------------------------------------------
# enumeration
# ---------------------------------------------------------------------------------------------------------------------
def min_nodes(qt):
    return 2 if qt in ('LOBATTO', 'RADAU-LEFT') else 1


def node_sets(tier):
    """pairs and triples of node sets: list of lists [(node_type, quad_type, M), ...]"""
    out = []
    if tier == 'quick':
        L_, R_, G_, RL = 'LOBATTO', 'RADAU-RIGHT', 'GAUSS', 'RADAU-LEFT'
        pairs = [
            [('LEGENDRE', R_, 3), ('LEGENDRE', R_, 2)], [('LEGENDRE', R_, 3), ('LEGENDRE', R_, 3)], [('LEGENDRE', R_, 5), ('LEGENDRE', R_, 3)],
            [('LEGENDRE', R_, 2), ('LEGENDRE', R_, 1)], [('LEGENDRE', L_, 3), ('LEGENDRE', L_, 2)], [('LEGENDRE', L_, 5), ('LEGENDRE', L_, 3)],
            [('LEGENDRE', G_, 3), ('LEGENDRE', G_, 2)], [('LEGENDRE', G_, 4), ('LEGENDRE', G_, 1)], [('EQUID', R_, 4), ('EQUID', R_, 2)],
            [('LEGENDRE', R_, 3), ('LEGENDRE', L_, 2)], [('CHEBY-1', G_, 4), ('LEGENDRE', G_, 2)], [('LEGENDRE', RL, 3), ('LEGENDRE', RL, 2)],
            [('EQUID', R_, 5), ('EQUID', R_, 3)], [('CHEBY-2', L_, 4), ('CHEBY-2', L_, 2)],
        ]  # fmt: skip
        triples = [
            [('LEGENDRE', R_, 5), ('LEGENDRE', R_, 3), ('LEGENDRE', R_, 2)], [('LEGENDRE', R_, 3), ('LEGENDRE', R_, 3), ('LEGENDRE', R_, 2)],
            [('LEGENDRE', R_, 3), ('LEGENDRE', R_, 2), ('LEGENDRE', R_, 1)], [('LEGENDRE', L_, 4), ('LEGENDRE', L_, 2), ('LEGENDRE', L_, 2)],
            [('LEGENDRE', G_, 4), ('EQUID', R_, 3), ('LEGENDRE', L_, 2)],
            # equal node COUNTS on two neighbouring levels but different node SETS: the transfer in time is not the identity,
            # and (middle -> coarsest) the middle level hands down a non-zero FAS correction of its own
            [('LEGENDRE', R_, 5), ('LEGENDRE', R_, 3), ('LEGENDRE', L_, 3)], [('LEGENDRE', R_, 3), ('LEGENDRE', G_, 2), ('LEGENDRE', R_, 2)],
            [('LEGENDRE', R_, 4), ('EQUID', R_, 3), ('LEGENDRE', R_, 3)],
        ]  # fmt: skip
        pairs.append([('LEGENDRE', R_, 3), ('LEGENDRE', L_, 3)])
        return pairs + triples
    for nt, qt in FAMILIES:
        for Mf in range(2, 6):
            for Mc in range(min_nodes(qt), Mf + 1):
                out.append([(nt, qt, Mf), (nt, qt, Mc)])
    for a in FAMILIES:  # mixed families, 3 -> 2 nodes
        for b in FAMILIES:
            if a != b:
                out.append([(a[0], a[1], 3), (b[0], b[1], 2)])
    for nt, qt in FAMILIES:  # triples
        for Ms in ((5, 3, 2), (4, 4, 2), (3, 2, 2), (4, 3, 2), (3, 3, 3)):
            if Ms[-1] >= min_nodes(qt):
                out.append([(nt, qt, m) for m in Ms])
    for trip in ([('LEGENDRE', 'GAUSS', 4), ('EQUID', 'RADAU-RIGHT', 3), ('LEGENDRE', 'LOBATTO', 2)], [('CHEBY-2', 'LOBATTO', 5), ('LEGENDRE', 'RADAU-RIGHT', 3), ('EQUID', 'GAUSS', 1)]):
        out.append(trip)
    F2 = [f for f in FAMILIES if f[0] in ('LEGENDRE', 'EQUID')]
    for a in F2:  # equal node counts, different node sets (pairs, and triples whose middle level hands down its own correction)
        for b in F2:
            if a != b:
                out.append([(a[0], a[1], 3), (b[0], b[1], 3)])
                out.append([('LEGENDRE', 'RADAU-RIGHT', 5), (a[0], a[1], 3), (b[0], b[1], 3)])
    return out


def default_transfer(name):
    kind = PROBLEMS[name][2]
    if kind == '0d':
        return {'cls': 'id'}
    if kind == 'fft':
        return {'cls': 'fft'}
    return {'cls': 'mesh', 'iorder': 2, 'rorder': 2, 'nested': True}


def make_cfg(problem, nodes, finter=False, transfer=None, sizes=None, QI='IE', QE='EE', nsweeps=None, clause3=True):
    L = len(nodes)
    sw, linear, kind, dsz, dt = PROBLEMS[problem]
    return {
        'problem': problem,
        'sizes': list(sizes) if sizes is not None else dsz[:L],
        'transfer': transfer or default_transfer(problem),
        'nodes': [list(n) for n in nodes],
        'finter': bool(finter),
        'QI': QI,
        'QE': QE,
        'nsweeps': list(nsweeps) if nsweeps is not None else [1] * L,
        'dt': dt,
        'clause3': clause3,
        'do_coll_update': False,
    }


def enumerate_cases(tier):
    cases = []
    base2 = [('LEGENDRE', 'RADAU-RIGHT', 3), ('LEGENDRE', 'RADAU-RIGHT', 2)]
    base3 = [('LEGENDRE', 'RADAU-RIGHT', 3), ('LEGENDRE', 'RADAU-RIGHT', 2), ('LEGENDRE', 'RADAU-RIGHT', 2)]
    # (a) node sets x finter on the periodic heat equation
    for ns in node_sets(tier):
        for fi in (False, True):
            cases.append(('nodes', make_cfg('heat_per', ns, fi, sizes=[8, 4] if (tier == 'thorough' and len(ns) == 2) else None)))
    # (b) space transfer variants (smallest nested grids on which both orders are valid Lagrange stencils)
    orders = (2, 4, 6, 8)

    def grid_sizes(kind, Lc, k):
        for n in (16, 32, 64):
            sz = [n // 2**i for i in range(Lc)] if kind == 'per' else [(n // 2**i) - 1 for i in range(Lc)]
            if (kind == 'per' and k < sz[-1]) or (kind == 'dir' and k <= sz[-1] + 2):
                return sz
        raise ValueError((kind, Lc, k))

    for kind, pb in (('per', 'heat_per'), ('dir', 'heat_dir')):
        for io in orders:
            for ro in orders:
                diag = io == ro
                for nested in (True, False):
                    for fi in (False, True):
                        for Lc in (2, 3):
                            if tier == 'quick' and not (nested and not fi and Lc == 2) and not diag:
                                continue
                            if tier == 'quick' and diag and (not nested) + fi + (Lc == 3) > 1:
                                continue
                            sizes = grid_sizes(kind, Lc, max(io, ro))
                            light = tier == 'quick' and not (diag and nested and not fi)
                            cases.append(('space', make_cfg(pb, base2 if Lc == 2 else base3, fi, {'cls': 'mesh', 'iorder': io, 'rorder': ro, 'nested': nested}, sizes, clause3=not light)))
    # (c) problems x levels x finter
    for pb in PROBLEMS:
        for Lc in (2, 3):
            for fi in (False, True):
                if tier == 'quick' and pb == 'heat2d_per' and (Lc == 2) == fi:
                    continue
                cases.append(('problem', make_cfg(pb, base2 if Lc == 2 else base3, fi, clause3=not (tier == 'quick' and pb == 'heat2d_per' and Lc == 3))))
    # (d) preconditioners and sweeps per level for the matrix clause
    for pb in ('dahl_imex', 'advdiff_fft', 'heat_dir', 'adv_per'):
        imex = PROBLEMS[pb][0] == 'imex'
        for QI in ('IE', 'LU', 'PIC'):
            for QE in ('EE', 'PIC') if imex else ('EE',):
                for nsw in ([1, 1, 1], [2, 2, 1], [1, 3, 1]):
                    for fi in (False, True):
                        if tier == 'quick':
                            if pb == 'adv_per' or nsw == [2, 2, 1] or (fi and nsw != [1, 1, 1]):
                                continue
                            if pb == 'advdiff_fft' and QE == 'PIC' and QI != 'IE':
                                continue
                        cases.append(('sweeps', make_cfg(pb, base3, fi, QI=QI, QE=QE, nsweeps=nsw)))
                        if nsw[1] == 1 or tier == 'thorough':
                            cases.append(('sweeps', make_cfg(pb, base2, fi, QI=QI, QE=QE, nsweeps=nsw[:1] + [1])))
    # (e) end-point mode: the collocation update on every level (rules with the right end point as node), node sets with a
    # non-zero last FAS correction (5 -> 2 nodes) included
    n52 = [('LEGENDRE', 'RADAU-RIGHT', 5), ('LEGENDRE', 'RADAU-RIGHT', 2)]
    n532 = [('LEGENDRE', 'RADAU-RIGHT', 5), ('LEGENDRE', 'RADAU-RIGHT', 3), ('LEGENDRE', 'RADAU-RIGHT', 2)]
    nlob = [('LEGENDRE', 'LOBATTO', 5), ('LEGENDRE', 'LOBATTO', 3)]
    for pb in PROBLEMS:
        for ns in (base2, n52, n532, nlob):
            if tier == 'quick' and pb == 'heat2d_per':
                continue
            c = make_cfg(pb, ns, False, clause3=False)
            c['do_coll_update'] = True
            cases.append(('endpoint', c))
    # de-duplicate
    seen, out = set(), []
    for grp, c in cases:
        k = common.canon(c)
        if k not in seen:
            seen.add(k)
            out.append((grp, c))
    return out


def sig_of(cfg, v):
    s = {'problem': cfg['problem'], 'nodes': cfg['nodes'], 'sizes': cfg['sizes'], 'transfer': cfg['transfer'], 'finter': cfg['finter'], 'QI': cfg['QI'], 'QE': cfg['QE'], 'nsweeps': cfg['nsweeps']}
    if cfg.get('do_coll_update'):
        s['do_coll_update'] = True
    s.update(v)
    return s


def cost(cfg):
    n0 = cfg['nodes'][0][2] * int(np.prod([cfg['sizes'][0]] * (2 if cfg['problem'] == 'heat2d_per' else 1)))
    return n0 * (3 if cfg.get('clause3', True) and PROBLEMS[cfg['problem']][1] else 1) * len(cfg['nodes'])


def run(rep, tier):
    sel = common.seed()
    rep.assumptions += [
        'oracle reads node positions from sweep.coll.nodes of every level and the problem parameters it passed itself; Q, weights, QDelta (IE, LU, EE, PIC), time and space transfer matrices, problem matrices, nonlinear right-hand sides and the collocation Newton are its own (vf/oracle/colloc.py)',
        'the real problem classes evaluate f and solve the node systems (environment); a self-check requires the oracle\'s transcribed right-hand side to agree with eval_f at the collocation solution',
        'TransferMesh_FFT prolongation matrix is read from the transfer object by basis probing (its Nyquist handling is C11\'s subject); where a mesh transfer operator differs from the oracle\'s Lagrange operator the probed operator is used and the case is noted, not judged',
        'LU preconditioner is used in the matrix clause only on node sets where partial pivoting does not permute (the oracle writes out the unpivoted factorisation)',
        'nonlinear problems: fixed-point clause on a finite alphabet of parameter values (3 per problem, chosen by VERIF_SEED) and one initial value each; defect clause by basis probing (the map is linear in (U, F, u0) for every problem because the coarse right-hand side cancels)',
        'BaseTransfer_mass is out of reach (needs FEniCS project)',
        'allencahn_front_semiimplicit is left out: its solve_system does not invert I - factor*f_impl (boundary unknowns of the extended system are not pinned; residual 0.4 of the solver contract, reported for C12), so no IMEX sweep on it has the collocation solution as fixed point, with or without coarse levels',
    ]
    cases = enumerate_cases(tier)
    common.rng('c10-order').shuffle(cases)
    cases.sort(key=lambda gc: -cost(gc[1]))  # long cases first (scheduling only)
    budget = common.Budget(80 if tier == 'quick' else 17 * 60)
    results = []
    chunk = 64
    done = 0
    for i in range(0, len(cases), chunk):
        if budget.over():
            break
        part = cases[i : i + chunk]
        out = common.pmap(run_case, [(c, sel) for _, c in part])
        results += list(zip(part, out))
        done += len(part)
    evals = 0
    worst = {}
    groups = {}
    gwall = {}
    clause_counts = {}
    notes = {}
    best = {}
    samples = []
    for (grp, cfg), r in results:
        evals += r['evals']
        groups[grp] = groups.get(grp, 0) + 1
        gwall[grp] = round(gwall.get(grp, 0.0) + r.get('wall', 0.0), 1)
        for k, v in r['ratios'].items():
            worst[k] = max(worst.get(k, 0.0), v)
        for c in r['clauses']:
            clause_counts[c] = clause_counts.get(c, 0) + 1
        for n in set(r['notes']):
            notes[n] = notes.get(n, 0) + 1
        if len(samples) < 4 and r['clauses']:
            samples.append({'group': grp, 'cfg': cfg, 'evaluations': r['evals'], 'err_over_tol': r['ratios']})
        for v, det in r['viol']:
            key = common.canon(v)
            cand = (cost(cfg), len(common.canon(cfg)), sig_of(cfg, v), det, cfg)
            if key not in best or cand[:2] < best[key][:2]:
                best[key] = cand
    for key, (_, _, sig, det, cfg) in sorted(best.items(), key=lambda kv: kv[1][:2]):
        rep.violation(sig, det, {'cfg': cfg, 'sel': sel})
    # in-run defect clause
    icases = inrun_cases(tier)
    iseen = set()
    nrestr = nprev = 0
    iworst = 0.0
    for arg, rec in zip(icases, common.pmap(inrun_case, icases, chunksize=2)):
        nrestr += rec['n']
        nprev += rec['after_prev_done']
        iworst = max(iworst, rec['worst'])
        for v, det in rec['viol']:
            if common.canon(v) not in iseen:
                iseen.add(common.canon(v))
                rep.violation(v, det, {'inrun': list(arg)})
    evals += nrestr
    rep.coverage['in_run'] = {'runs': len(icases), 'restrictions_checked': nrestr, 'of_which_after_the_predecessor_finished': nprev, 'worst_mismatch_over_scale': iworst, 'tolerance': 1e-12}
    allr = max(worst.values()) if worst else 0.0
    rep.coverage.update(
        {
            'evaluations': evals,
            'distinct_nontrivial': sum(1 for _, r in results if r['clauses']),
            'rule': 'evaluations = real stage-machine executions / transfers on one loaded input (collocation solution, basis vector, zero, sum); a case = distinct (problem, node sets per level, spatial sizes, space transfer class and orders, finter, preconditioners, sweeps per level); non-trivial = at least one clause ran to a comparison on it',
            'exhaustive': done == len(cases),
            'bounds_completed': {'cases_enumerated': len(cases), 'cases_run': done, 'time_cap_hit': budget.hit},
            'cases_per_group': groups,
            'case_wall_s_per_group': gwall,
            'cases_per_clause': clause_counts,
            'notes_counts': notes,
            'worst_err_over_tol_per_clause': worst,
            'worst_err_over_tol': allr,
            'worst_headroom': (1.0 / allr) if allr > 0 else None,
            'tolerances': f'fixed point {C1}*eps*(1+gain)*magnitude (+4*gain*newton_tol for Newton problems); defect {C2}*eps*sum of term magnitudes; matrix {C3}*eps*cond*intermediate magnitude',
            'sum_of_case_wall_s': round(sum(r.get('wall', 0.0) for _, r in results), 1),
            'samples': samples,
        }
    )


# ---------------------------------------------------------------------------------------------------------------------
# in-run clause: the defect identity right after EVERY restriction of a real multi-step run (steps that go on iterating
# after their predecessor has finished, several blocks), not only on a freshly loaded single step
# ---------------------------------------------------------------------------------------------------------------------
INRUN_PROBLEMS = ('testeq', 'heat', 'advection')


def inrun_cases(tier):
    out = []
    for prob in INRUN_PROBLEMS:
        for P in (1, 2, 3) if tier == 'quick' else (1, 2, 3, 4):
            for nlev in (2, 3):
                for predict in ('pfasst_burnin', 'fine_only', None):
                    for restol in (1e-8, 1e-11):
                        for nsw in (1, 2) if tier == 'thorough' else (1,):
                            out.append((prob, P, nlev, predict, restol, nsw))
    return out


_INRUN = {}


def _checked_restrict(self):
    """module-level on purpose: the controller copies its steps, and the copies must share this function and its records"""
    rec, owner, orig, prob = _INRUN['rec'], _INRUN['owner'], _INRUN['orig'], _INRUN['rec']['prob']
    orig(self)
    F, G = self.fine, self.coarse
    MF, MG = F.sweep.coll.num_nodes, G.sweep.coll.num_nodes
    iF, iG = F.sweep.integrate(), G.sweep.integrate()
    R = self.space_transfer.restrict
    dF = [F.u[0] + iF[m] - F.u[m + 1] + (F.tau[m] if F.tau[m] is not None else 0.0) for m in range(MF)]
    rdF = [R(d) for d in dF]
    scale = max([1.0] + [abs(G.u[m]) for m in range(MG + 1)] + [abs(x) for x in iG])
    S = owner.get(id(self.fine))
    for n in range(MG):
        want = sum(self.Rcoll[n, m] * rdF[m] for m in range(MF))
        got = G.u[0] + iG[n] - G.u[n + 1] + G.tau[n]
        err = abs(got - want) / scale
        rec['worst'] = max(rec['worst'], err)
        if err > 1e-12 and not rec['viol']:
            u0err = abs(G.u[0] - R(F.u[0]))
            rec['viol'].append(({'kind': 'coarse_defect_not_restricted_fine_defect_in_run', 'problem': prob}, {'node': n + 1, 'mismatch_over_scale': float(err), 'coarse_u0_minus_restricted_fine_u0': float(u0err), 'restricted_fine_defect': float(abs(want)), 'step_slot': getattr(S.status, 'slot', None) if S else None, 'iter': S.status.iter if S else None, 'stage': S.status.stage if S else None, 'prev_done': bool(S.status.prev_done) if S else None, 'time': float(F.time), 'levels': (F.level_index, G.level_index)}))
    rec['n'] += 1
    if S is not None and S.status.prev_done and not S.status.first:
        rec['after_prev_done'] += 1


def inrun_case(arg):
    from pySDC.core.base_transfer import BaseTransfer
    from pySDC.implementations.sweeper_classes.generic_implicit import generic_implicit

    prob, P, nlev, predict, restol, nsw = arg
    common.silence_logging()
    dt = 0.25
    if prob == 'testeq':
        desc = {'problem_class': testequation0d, 'problem_params': {'lambdas': np.array([-1.0 + 0.5j, -4.0, 6.0j]), 'u0': 1.0}, 'space_transfer_class': TransferIdentity}
        nodes = [4, 3, 2][:nlev] if nlev == 3 else [3, 2]
    elif prob == 'heat':
        desc = {'problem_class': heatNd_unforced, 'problem_params': {'nvars': [31, 15, 7][:nlev], 'nu': 0.5, 'freq': 2, 'bc': 'dirichlet-zero'}, 'space_transfer_class': TransferMesh, 'space_transfer_params': {'rorder': 2, 'iorder': 4}}
        nodes = [3] * nlev
    else:
        desc = {'problem_class': advectionNd, 'problem_params': {'nvars': [32, 16, 8][:nlev], 'c': 1.0, 'freq': 2, 'order': 4, 'stencil_type': 'center', 'bc': 'periodic'}, 'space_transfer_class': TransferMesh, 'space_transfer_params': {'rorder': 2, 'iorder': 4, 'periodic': True}}
        nodes = [3, 3, 2][:nlev]
    desc.update({'sweeper_class': generic_implicit, 'sweeper_params': {'quad_type': 'RADAU-RIGHT', 'num_nodes': nodes, 'QI': 'LU'}, 'level_params': {'restol': restol, 'dt': dt, 'nsweeps': [nsw] + [1] * (nlev - 1)}, 'step_params': {'maxiter': 25}})
    cp = {'logger_level': 90, 'dump_setup': False}
    if predict:
        cp['predict_type'] = predict
    rec = {'n': 0, 'after_prev_done': 0, 'worst': 0.0, 'viol': [], 'prob': prob}
    owner = {}
    _INRUN.update({'rec': rec, 'owner': owner, 'orig': BaseTransfer.restrict})
    orig = BaseTransfer.restrict
    BaseTransfer.restrict = _checked_restrict
    try:
        ctrl = controller_nonMPI(num_procs=P, controller_params=cp, description=desc)
        for S in ctrl.MS:
            for Lv in S.levels:
                owner[id(Lv)] = S
        u0 = ctrl.MS[0].levels[0].prob.u_exact(0.0)
        ctrl.run(u0=u0, t0=0.0, Tend=2 * P * dt)
    except Exception as e:  # noqa: BLE001  (a valid multi-level run must not raise)
        if not rec['viol']:
            rec['viol'].append(({'kind': 'valid_multilevel_run_raised', 'problem': prob}, {'error': f'{type(e).__name__}: {e}'[:200]}))
    finally:
        BaseTransfer.restrict = orig
    return rec


def replay(rep, case):
    if 'inrun' in case:
        for v, det in inrun_case(tuple(case['inrun']))['viol']:
            rep.violation(v, det, case)
        return
    r = run_case((case['cfg'], case.get('sel', 0)))
    for v, det in r['viol']:
        rep.violation(sig_of(case['cfg'], v), det, case)
    if not r['viol']:
        print('ratios:', r['ratios'], 'clauses:', r['clauses'])
