"""C06 — accepted steps tile [t0, Tend] contiguously and chain their values exactly.

Part A (E2 lattice): fixed-step runs of the real controller_nonMPI for every member of a (t0, dt, N, Tend formation,
remainder, P, L) lattice; reference model: exact rational step count + the tiling/chaining clauses on the recorded history.
Part B (E1): the same clauses on every history with restarts and step-size changes explored by the C09 harness.
"""

import math
from fractions import Fraction

import numpy as np

from vf import common
from vf.env import block
from vf.engine import explore
from vf.props import _e1

LEVEL = 'model_checking'

POST = ('vf.props._hist:check_tiling', 'vf.props.c06:check_count')
T0S = [0.0, 0.1, -3.7, 1e3, 1e6]
DTS = [0.1, 0.125, 0.3, 1.0 / 3.0, 1e-3, 2.0**-4]
REMS = [0.0, 1e-12, 0.25, 0.5, 1 - 1e-12]


def expected_count(t0, dt, Tend):
    """Admissible step counts [n_lo, n_hi] for "the smallest N with t0 + N*dt >= Tend up to rounding".

    x = (Tend - t0)/dt is evaluated in exact rational arithmetic on the float inputs.  n_hi = ceil(x) is the answer
    without any rounding slack; n_lo = ceil(x - delta) with delta = (n_hi + 8) * eps * max(|t0|, |Tend|) / dt, the
    largest rounding error an accumulated time can carry, is the answer with full slack.  Anything in between is
    accepted, so the check never prefers one defensible rounding over another; a count above n_hi is a step that
    starts at or beyond Tend, a count below n_lo stops early."""
    x = (Fraction(Tend) - Fraction(t0)) / Fraction(dt)
    n_hi = max(1, math.ceil(x))
    eps = Fraction(2) ** -52
    delta = (n_hi + 8) * eps * max(abs(Fraction(t0)), abs(Fraction(Tend))) / Fraction(dt)
    n_lo = max(1, math.ceil(x - delta))
    return n_lo, n_hi


def check_count(cur):
    """Fixed step size: number of accepted steps within the admissible range, for whatever P."""
    if cur.outcome0 not in (('ok',), ('nothing_to_do',)):
        return  # exceptions are reported by the harness itself
    cfg = cur.cfg
    from vf.props._hist import accepted_chain

    # the controller refusing to run at all ("Nothing to do") although Tend > t0 is a count of zero
    n = len(accepted_chain(cur)) if cur.outcome0 == ('ok',) else 0
    lo, hi = expected_count(cfg['t0'], cfg['dt'], cur.Tend)
    if not (lo <= n <= hi):
        # Is this the recorded finding (activity test `time < Tend - 10*eps` with an *absolute* threshold)?  A five-line
        # float model of exactly that rule predicts the count it produces; only a count that equals the prediction is
        # attributed to it.  Anything else keeps the exact inputs in its signature and is reported as new.
        if n == defect_model_count(cfg['t0'], cfg['dt'], cur.Tend):
            sig = {'kind': 'step_count', 'cause': 'absolute 10*eps activity threshold in controller run()', 'direction': 'extra_step' if n > hi else 'early_stop'}
        else:
            sig = {'kind': 'step_count', 't0': cfg['t0'], 'dt': cfg['dt'], 'Tend': cur.Tend}
        cur.viol.append((sig, {'accepted': n, 'expected': [lo, hi], 'P': cfg['P'], 'L': cfg['L'], 't0': cfg['t0'], 'dt': cfg['dt'], 'Tend': cur.Tend}))


def defect_model_count(t0, dt, Tend):
    eps = float(np.finfo(float).eps)
    t, n = t0, 0
    while t < Tend - 10 * eps and n < 10**6:
        n += 1
        t = t + dt
    return n


def _form(t0, dt, n, how):
    if how == 'product':
        return t0 + n * dt
    T = t0
    for _ in range(n):
        T = T + dt
    return T


def make_tend(t0, dt, N, how, rem):
    """Tend that needs N steps: N full steps (rem == 0) or N-1 full steps plus the fraction rem of one."""
    if rem == 0.0:
        return _form(t0, dt, N, how)
    return _form(t0, dt, N - 1, how) + rem * dt


def lattice(tier):
    Ns = list(range(1, 13)) + [37, 100, 101]
    if tier == 'thorough':
        Ns += [1000]
    cases = []
    for t0 in T0S:
        for dt in DTS:
            for N in Ns:
                for how in ('product', 'sum'):
                    if how == 'sum' and N > 101:
                        continue
                    for rem in REMS:
                        if N > 12 and rem not in (0.0, 0.5):
                            continue
                        if tier == 'quick' and rem in (0.25, 1 - 1e-12):
                            continue
                        Tend = make_tend(t0, dt, N, how, rem)
                        if not Tend > t0:
                            continue
                        cases.append((t0, dt, Tend, N))
    # distinct (t0, dt, Tend)
    seen = {}
    for c in cases:
        seen.setdefault(c[:3], c)
    return list(seen.values())


def pl_variants(tier, N):
    """(P, L) pairs per lattice point: all P up to 8 for short runs (blocks longer than the interval), a subset for long runs."""
    if tier == 'quick':
        if N <= 4:
            return [(1, 1), (2, 1), (3, 1), (5, 1), (8, 1), (2, 2), (3, 2), (1, 0)]
        if N <= 12:
            return [(1, 1), (3, 1)] + ([(4, 1), (2, 2)] if N in (7, 12) else [])
        return [(1, 1), (3, 1)]
    if N <= 12:
        return [(P, 1) for P in range(1, 9)] + [(1, 2), (2, 2), (3, 2), (4, 2), (1, 0)]
    if N <= 101:
        return [(1, 1), (3, 1), (8, 1)]
    return [(1, 1), (7, 1)]


def fixed_cfg(t0, dt, Tend, P, L):
    quad = 'RADAU-RIGHT'
    if L == 0:  # single level on GAUSS nodes: the end value comes from the quadrature formula, not from the last node
        L, quad = 1, 'GAUSS'
    return block.default_cfg(
        quad_type=quad,
        P=P,
        K=1,
        L=L,
        nodes=([1] if quad == 'RADAU-RIGHT' else [2]) if L == 1 else [2, 1],
        predict='pfasst_burnin' if L > 1 else None,
        t0=t0,
        dt=dt,
        Tend=Tend,
        conv_mode='never',
        checks=('protocol',),
        post_checks=POST,
        max_blocks=2000,
        nothing_to_do_ok=True,
    )


def _run_fixed(args):
    t0, dt, Tend, N, P, L = args
    cfg = fixed_cfg(t0, dt, Tend, P, L)
    out, ctx = explore.run_once(block.BlockRun(cfg), [])
    nst = len(set(out.states))
    return args, out.violations, nst, len(out.states), out.outcome[0]


def run(rep, tier):
    rep.assumptions += [
        'L = 0 in a sample / replay denotes the single-level, single-step variant on GAUSS nodes (end value by quadrature); with several parallel steps and an end value that depends on u[0] the bitwise chaining inside a block only holds at convergence, which this one-iteration harness does not reach',
        'fixed-step part: 1-node (2/1 nodes on two levels) SDC with one iteration on testequation0d; the time bookkeeping under test does not depend on the numerical method',
        'step-count reference: x=(Tend-t0)/dt evaluated exactly on the float inputs; admissible counts ceil(x - delta)..ceil(x) with delta the largest accumulated rounding (see expected_count)',
    ]
    # ---- part A
    cases = []
    for t0, dt, Tend, N in lattice(tier):
        for P, L in pl_variants(tier, N):
            cases.append((t0, dt, Tend, N, P, L))
    common.rng('c06').shuffle(cases)
    states = set()
    ntrans = 0
    nviol = 0
    outcomes = {}
    best = {}
    kcount = {}
    for args, viols, nst, nmacro, oc in common.pimap_unordered(_run_fixed, cases, chunksize=8):
        ntrans += nmacro
        outcomes[str(oc)] = outcomes.get(str(oc), 0) + 1
        for sig, det in viols:
            key = common.canon(sig)
            kcount[sig.get('direction', sig['kind'])] = kcount.get(sig.get('direction', sig['kind']), 0) + 1
            cand = (args[4], args[5], det, args)
            if key not in best or cand[:2] < best[key][:2]:
                best[key] = cand + (sig,)
    for key, (P, L, det, args, sig) in best.items():
        rep.violation(sig, det, {'fixed': list(args)})
    rep.coverage['fixed_step_runs'] = len(cases)
    rep.coverage['fixed_step_lattice'] = {'t0': T0S, 'dt': DTS, 'remainders': REMS, 'points': len(lattice(tier))}
    rep.coverage['fixed_step_outcomes'] = outcomes
    rep.coverage['fixed_step_cases_outside_admissible_count'] = kcount
    rep.coverage['samples'] = [{'t0': c[0], 'dt': c[1], 'Tend': c[2], 'N': c[3], 'P': c[4], 'L': c[5]} for c in cases[:3]]
    # ---- part B: histories with restarts and step-size changes
    from vf.props import c09

    if tier == 'quick':
        vs = [c09.to_cfg(c, est_n=4, post_checks=('vf.props._hist:check_tiling',)) for c in c09.ball(1) if c['limiter'] in ('none', 'all') and c['K'] == 1]
        bound = 2
    else:
        vs = [c09.to_cfg(c, post_checks=('vf.props._hist:check_tiling',), **({'est_n': 4} if c['limiter'] == 'rel_min_slope' else {})) for c in c09.ball(1, Ps=(1, 2, 3, 4))]
        bound = 2
    vs += [c09.cfg(P=P, adaptive=None, restart_script=True, restarting={'max_restarts': 2, 'restart_from_first_step': ff}, post_checks=('vf.props._hist:check_tiling',)) for P in (2, 3) for ff in (False, True)]
    # a detector that raises the restart flag in any convergence check, possibly while the step's predecessor still iterates
    vs += [c09.cfg(P=P, K=K, L=L, jac=jac, predict='pfasst_burnin' if L > 1 else None, nblocks=2, adaptive=None, restart_script=True, restart_early=True, restarting={'max_restarts': 2, 'restart_from_first_step': False}, post_checks=('vf.props._hist:check_tiling',)) for P, K, L in (((2, 2, 1), (3, 2, 1), (2, 2, 2)) if tier == 'quick' else ((2, 2, 1), (3, 2, 1), (2, 3, 1), (2, 2, 2), (3, 2, 2), (4, 2, 1))) for jac in (False, True)]
    # a detector behind BasicRestarting in the control order: its flag is not passed on, so the flagged steps need not be the tail of the block
    vs += [c09.cfg(P=P, jac=jac, adaptive=None, restart_script=True, restart_late=True, restarting={'max_restarts': 10, 'restart_from_first_step': False}, post_checks=('vf.props._hist:check_tiling',)) for P in (3, 4) for jac in (False, True)]
    # a second run() on the same controller, continued where the first (adaptive) one stopped: the inactive steps of
    # a partially filled last block keep their old step size, which the time set-up of the next run must cope with
    for P, tend in ((3, 'two_and_a_half'), (3, 'far')) + (((4, 'far'), (2, 'two_and_a_half')) if tier == 'thorough' else ()):
        c = dict(c09.ball(0)[0])
        c['P'], c['tend'] = P, tend
        vs.append(c09.to_cfg(c, est_n=4, second_run=0.5, post_checks=('vf.props._hist:check_tiling',)))
    res = _e1.explore_variants(rep, make, vs, bound=bound, label='histories')
    # convergence patterns: answer sequences "below / above the tolerance" per (step, check) with <= 2 (3) answers "below"
    # for blocks of 3 and 4 steps: a step has to keep receiving until its predecessor has really finished (chain clause)
    cv = [block.default_cfg(P=P, K=K, L=L, jac=jac, predict='pfasst_burnin' if L > 1 else None, nblocks=2, conv_cost=1, checks=('protocol',), post_checks=('vf.props._hist:check_tiling',)) for P, K, L in (((3, 2, 1), (3, 3, 1), (4, 2, 1), (3, 2, 2)) if tier == 'quick' else ((3, 2, 1), (3, 3, 1), (4, 2, 1), (4, 3, 1), (3, 2, 2), (3, 3, 2), (4, 2, 2))) for jac in ((True, False) if L == 1 else (True,))]
    res += _e1.explore_variants(rep, make, cv, bound=2 if tier == 'quick' else 3, label='convergence patterns')
    rep.coverage['history_executions'] = sum(st.executions for _, st in res)
    rep.coverage['traces_validated_against_impl'] = rep.coverage.get('traces_validated_against_impl', 0) + len(cases)
    rep.coverage['transitions'] = rep.coverage.get('transitions', 0) + ntrans
    rep.coverage['exhaustive'] = not any(st.capped for _, st in res)
    rep.coverage['rule'] = 'part A: every (t0, dt, Tend, P, L) of the lattice once; part B: every estimate / restart script with <= %d non-default answers per configuration' % bound


def make(cfg):
    return block.BlockRun(cfg)


def replay(rep, case):
    if 'fixed' in case:
        args, viols, _, _, oc = _run_fixed(tuple(case['fixed']))
        for sig, det in viols:
            rep.violation(sig, det, case)
        return
    _e1.replay_case(rep, make, case)
