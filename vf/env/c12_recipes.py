"""C12 — constructor recipes, sibling table, closed-form table and class-specific knowledge for the
problem classes under pySDC/implementations/problem_classes.

Everything in here is *data about the classes* obtained by reading them (constructor signatures, which
solver a class uses and with which tolerance attribute, which classes are offered in several splittings,
which `u_exact` are closed-form solutions of the ODE that `eval_f` defines).  Nothing in here computes a
verdict; `vf/props/c12.py` does.
"""

import importlib
import inspect
import os

import numpy as np

PKG = 'pySDC.implementations.problem_classes'
OPTIONAL_LIBS = ('cupy', 'petsc4py', 'dolfin', 'firedrake', 'mpi4py', 'mpi4py_fft', 'gusto', 'fenics')


def discover():
    """Import every module of the problem_classes package; collect subclasses of Problem defined there."""
    from pySDC.core.problem import Problem

    pkg = importlib.import_module(PKG)
    d = os.path.dirname(pkg.__file__)
    classes, not_importable = {}, []
    for fn in sorted(os.listdir(d)):
        if not fn.endswith('.py') or fn == '__init__.py':
            continue
        mn = f'{PKG}.{fn[:-3]}'
        try:
            m = importlib.import_module(mn)
        except Exception as e:  # noqa: BLE001  (ModuleNotFoundError of an optional library, usually)
            not_importable.append({'module': fn, 'reason': f'{type(e).__name__}: {str(e)[:80]}'})
            continue
        for n, c in inspect.getmembers(m, inspect.isclass):
            if issubclass(c, Problem) and c.__module__ == mn:
                classes[n] = c
    return classes, not_importable


# ---------------------------------------------------------------------------------------------------
# variants: class name -> function(tier) -> list of (label, params)
# ---------------------------------------------------------------------------------------------------
def _prod(**dims):
    keys = list(dims)
    out = [{}]
    for k in keys:
        out = [dict(o, **{k: v}) for o in out for v in dims[k]]
    return out


def _lab(p, skip=()):
    return ','.join(f'{k}={_short(v)}' for k, v in p.items() if k not in skip)


def _short(v):
    if isinstance(v, np.ndarray):
        return 'arr' + str(v.size)
    return str(v).replace(' ', '')


# iteration cap of the Krylov variants (the default 10000 only makes a non-converging solve slower; CG / full GMRES need
# at most n <= 64 iterations in exact arithmetic)
LINITER = 500


def _fd_sizes(bc, ndim, order=2):
    base = {1: 16, 2: 8, 3: 4}[ndim]
    if ndim == 3 and order > 2 and bc != 'periodic':
        base = 8  # the one-sided 4th-order boundary stencils need more than 4 points
    n = base - 1 if bc == 'dirichlet-zero' else base
    return n if ndim == 1 else (n,) * ndim


def v_heat(tier, forced=False):
    out = []
    ndims = (1, 2, 3)
    for bc in ('periodic', 'dirichlet-zero', 'neumann-zero'):
        for solver in ('direct', 'CG', 'GMRES'):
            for ndim in ndims:
                orders = (2, 4) if (tier == 'thorough' or (solver == 'direct' and ndim < 3)) else (2,)
                for order in orders:
                    p = dict(
                        nvars=_fd_sizes(bc, ndim, order),
                        nu=0.1,
                        freq=2 if ndim == 1 else (2,) * ndim,
                        bc=bc,
                        solver_type=solver,
                        order=order,
                        stencil_type='center',
                        liniter=LINITER,
                    )
                    out.append((f'bc={bc},solver={solver},ndim={ndim},order={order}', p))
    if not forced:
        # the Gaussian initial condition (freq=-1 forces periodic BCs, 1D only)
        out.append(('freq=-1(gaussian),solver=direct,ndim=1', dict(nvars=16, nu=0.1, freq=-1, solver_type='direct')))
    return out


def v_advection(tier):
    out = []
    # CG is not enumerated: the constructor itself warns that CG is not suitable (non-symmetric operator)
    for solver in ('direct', 'GMRES'):
        for ndim in (1, 2, 3):
            if ndim == 3 and tier == 'quick' and solver != 'direct':
                continue
            for stencil, orders in (('center', (2, 4)), ('upwind', (1, 2, 3, 4, 5))):
                for order in orders:
                    if tier == 'quick' and ndim > 1 and order not in (2, 5):
                        continue
                    p = dict(
                        nvars=_fd_sizes('periodic', ndim),
                        c=0.7,
                        freq=2 if ndim == 1 else (2,) * ndim,
                        bc='periodic',
                        solver_type=solver,
                        order=order,
                        stencil_type=stencil,
                        liniter=LINITER,
                    )
                    out.append((f'solver={solver},ndim={ndim},stencil={stencil},order={order}', p))
    out.append(('freq=-1(gaussian),direct', dict(nvars=16, c=0.7, freq=-1, solver_type='direct', order=2)))
    return out


def v_generic_fd(tier):
    out = []
    for derivative, coeff in ((2, 0.3), (1, -0.5)):
        for bc in ('periodic', 'dirichlet-zero', 'neumann-zero'):
            for solver in ('direct', 'GMRES'):
                for ndim in (1, 2):
                    p = dict(
                        nvars=_fd_sizes(bc, ndim),
                        coeff=coeff,
                        derivative=derivative,
                        freq=2 if ndim == 1 else (2,) * ndim,
                        bc=bc,
                        solver_type=solver,
                        order=2,
                        stencil_type='center',
                        liniter=LINITER,
                    )
                    out.append((f'derivative={derivative},bc={bc},solver={solver},ndim={ndim}', p))
    return out


def v_ac1d_front(tier):
    out = []
    for nvars in (15, 31):
        for stop in (False, True):
            out.append((f'nvars={nvars},stop_at_maxiter={stop}', dict(nvars=nvars, stop_at_maxiter=stop, newton_maxiter=50)))
    return out


def v_ac1d_periodic(tier):
    return [(f'nvars={n}', dict(nvars=n, newton_maxiter=50)) for n in (16, 32)]


def v_ac2d_fd(tier):
    out = []
    for order in (2, 4):
        for ratio in (None, 0.1):
            for ltol in (1e-8, 1e-11):
                if tier == 'quick' and (order, ratio, ltol) not in ((2, None, 1e-8), (4, None, 1e-11), (2, 0.1, 1e-8)):
                    continue
                p = dict(nvars=(8, 8), nu=2, eps=0.04, order=order, inexact_linear_ratio=ratio, lin_tol=ltol, newton_maxiter=50)
                out.append((f'order={order},inexact_linear_ratio={ratio},lin_tol={ltol}', p))
    # the exponent of the nonlinearity: odd values make u**(nu+1) even in u (sign handling of the reaction term)
    for nu in (1,):  # nu = 3 makes the implicit systems at factor 0.1 ill-posed (the reference Newton does not converge either)
        out.append((f'order=2,nu={nu}', dict(nvars=(8, 8), nu=nu, eps=0.04, order=2, inexact_linear_ratio=None, lin_tol=1e-10, newton_maxiter=50)))
    return out


def v_ac2d_fft(tier):
    return [
        (f'init_type={it},nu={nu}', dict(nvars=(8, 8), nu=nu, eps=0.04, init_type=it))
        for it in ('circle', 'checkerboard')
        for nu in (2, 3)
    ]  # init_type='random' draws from the global numpy RNG: not deterministic, not enumerated


def v_advdiff_fft(tier):
    return [(f'freq={f},nvars={n}', dict(nvars=n, c=0.8, freq=f, nu=0.02)) for f in (2, -1, 0) for n in (16, 32)]


def v_battery_n(tier):
    return [
        ('ncapacitors=1', dict(ncapacitors=1)),
        ('ncapacitors=2', dict(ncapacitors=2)),
        ('ncapacitors=1,L=2', dict(ncapacitors=1, L=2.0, Rs=0.7)),
        ('ncapacitors=2,L=2,C', dict(ncapacitors=2, L=2.0, C=np.array([1.0, 0.5]), V_ref=np.array([1.0, 0.8]))),
        ('ncapacitors=3', dict(ncapacitors=3, C=np.array([1.0, 0.5, 2.0]), V_ref=np.array([1.0, 0.8, 0.9]))),
    ]


def v_battery(tier):
    return [('default', {}), ('L=2,Rs=0.7', dict(L=2.0, Rs=0.7)), ('C=0.5', dict(C=np.array([0.5])))]


def v_boussinesq(tier):
    out = []
    for order in (2, 4):
        for tol in (1e-5, 1e-10):
            p = dict(
                nvars=(4, 12, 8),
                x_bounds=(-150.0, 150.0),
                z_bounds=(0.0, 10.0),
                order=order,
                order_upw=5 if order == 4 else 3,
                gmres_tol_limit=tol,
                gmres_maxiter=100,
                gmres_restart=10,
            )
            out.append((f'order={order},gmres_tol_limit={tol}', p))
    return out


def v_spectral_1d(tier, key='nvars'):
    out = []
    for solver, sargs in (('cached_direct', None), ('direct', None), ('gmres', {'rtol': 1e-12, 'atol': 0, 'maxiter': 10})):
        for lp in (True, False):
            for dr in (True, False):
                if tier == 'quick' and solver != 'cached_direct' and not (lp and dr):
                    continue
                p = {key: 16, 'solver_type': solver, 'left_preconditioner': lp, 'Dirichlet_recombination': dr}
                if sargs:
                    p['solver_args'] = dict(sargs)
                out.append((f'solver={solver},left_prec={lp},Dirichlet_recomb={dr}', p))
    return out


def v_heat1d_cheb(tier):
    out = []
    for lab, p in v_spectral_1d(tier):
        for a, b in ((0, 0), (1.0, -0.5)):
            for mode in ('T2U', 'T2T'):
                if tier == 'quick' and mode == 'T2T' and 'cached' not in lab:
                    continue
                out.append((f'{lab},a={a},b={b},mode={mode}', dict(p, a=a, b=b, f=1, nu=0.7, mode=mode)))
    return out


def v_heat1d_ultra(tier):
    out = []
    for lab, p in v_spectral_1d(tier):
        for a, b in ((0, 0), (1.0, -0.5)):
            out.append((f'{lab},a={a},b={b}', dict(p, a=a, b=b, f=1, nu=0.7)))
    return out


def v_heat2d(tier, other):
    out = []
    for bx, by in (('fft', other), (other, 'fft'), (other, other)):
        for solver in ('cached_direct', 'direct'):
            abc = (0.0, 0.0, 0.0)
            nx = 8 if bx == 'fft' else 9
            ny = 8 if by == 'fft' else 9
            p = dict(nx=nx, ny=ny, base_x=bx, base_y=by, a=abc[0], b=abc[1], c=abc[2], nu=0.7, solver_type=solver)
            out.append((f'base_x={bx},base_y={by},solver={solver}', p))
    # inhomogeneous BCs where both bases allow it
    out.append(
        (
            f'base_x={other},base_y={other},a=1,b=-0.5,c=0.25',
            dict(nx=9, ny=9, base_x=other, base_y=other, a=1.0, b=-0.5, c=0.25, nu=0.7),
        )
    )
    return out


def v_burgers1d(tier):
    out = []
    for lab, p in v_spectral_1d(tier, key='N'):
        for mode in ('T2U', 'T2T'):
            if tier == 'quick' and mode == 'T2T' and 'cached' not in lab:
                continue
            out.append((f'{lab},mode={mode}', dict(p, epsilon=0.1, BCl=1, BCr=-1, f=0, mode=mode)))
    out.append(('f=1,BCl=0.5,BCr=-1', dict(N=16, epsilon=0.1, BCl=0.5, BCr=-1, f=1)))
    return out


def v_burgers2d(tier):
    return [
        (f'solver={s},mode={m}', dict(nx=8, nz=9, epsilon=0.1, fux=2, fuz=1, mode=m, solver_type=s))
        for s in ('cached_direct', 'direct')
        for m in ('T2U', 'T2T')
    ]


def v_quench(tier):
    out = []
    for direct in (True, False):
        for leak_type in ('linear', 'exponential'):
            for trans in ('step', 'Gaussian'):
                for bc in ('neumann-zero', 'dirichlet-zero'):
                    for order in (2, 4):
                        for ratio in (None, 0.1):
                            if tier == 'quick' and (order == 4 or ratio or (bc == 'dirichlet-zero' and not direct)):
                                continue
                            if ratio and direct:
                                continue
                            p = dict(
                                nvars=15 if bc == 'dirichlet-zero' else 16,
                                direct_solver=direct,
                                leak_type=leak_type,
                                leak_transition=trans,
                                bc=bc,
                                order=order,
                                inexact_linear_ratio=ratio,
                                newton_maxiter=50,
                            )
                            out.append(
                                (f'direct={direct},leak={leak_type},transition={trans},bc={bc},order={order},ratio={ratio}', p)
                            )
    return out


LAMBDAS = np.array([-1.0, -10.0 + 3.0j, 2.0j, 0.3, -1000.0, 0.0, -0.5 - 20.0j])
LAMBDAS_MILD = np.array([-1.0, -3.0 + 3.0j, 2.0j, 0.3, 0.0, -0.5 - 4.0j])


NEAR_SINGULAR = np.array([1.0 + 3.0e-6, 10.0 * (1.0 - 2.0e-6), 0.01 * (1.0 + 2.5e-6), -1.0 + 0.5j], dtype=complex)


def v_testeq(tier):
    return [
        ('lambdas=pool7,u0=1', dict(lambdas=LAMBDAS.copy(), u0=1.0)),
        ('lambdas=mild6,u0=0.7', dict(lambdas=LAMBDAS_MILD.copy(), u0=0.7)),
        ('lambdas=[-2],u0=1', dict(lambdas=np.array([-2.0 + 0j]), u0=1.0)),
        # regular but close to singular for the factors 1, 0.1 and 100 of the alphabet (|factor*lambda - 1| of 2e-6 .. 3e-6)
        ('lambdas=near_1/factor,u0=1', dict(lambdas=NEAR_SINGULAR.copy(), u0=1.0)),
    ]


def v_testeq_imex(tier):
    return [
        ('impl=pool7,expl=0.5*conj', dict(lambdas_implicit=LAMBDAS.copy(), lambdas_explicit=0.5 * np.conj(LAMBDAS), u0=1.0)),
        ('impl=mild6,expl=rev', dict(lambdas_implicit=LAMBDAS_MILD.copy(), lambdas_explicit=LAMBDAS_MILD[::-1].copy(), u0=0.7)),
        ('impl=mild6,expl=None', dict(lambdas_implicit=0.5 * LAMBDAS_MILD, u0=1.0)),
        ('impl=near_1/factor,expl=rev', dict(lambdas_implicit=NEAR_SINGULAR.copy(), lambdas_explicit=NEAR_SINGULAR[::-1].copy(), u0=1.0)),
    ]


def v_swfw(tier):
    return [
        ('ls=3,lf=3', dict(lambda_s=np.array([-1.0, 0.5j, 0.2]), lambda_f=np.array([-1000.0, -10.0 + 5.0j, 3.0j]), u0=1.0)),
        ('ls=2,lf=2(mild)', dict(lambda_s=np.array([-1.0, 0.5j]), lambda_f=np.array([-3.0, 2.0j]), u0=0.7)),
    ]


def v_penning(tier):
    u0 = np.array([[10, 0, 0], [100, 0, 100], [1], [1]], dtype=object)
    u0b = np.array([[1.0, 0.5, -0.3], [2.0, -1.0, 0.7], [1], [1]], dtype=object)
    return [
        ('nparts=1,wB=25,wE=4.9', dict(omega_B=25.0, omega_E=4.9, u0=u0, nparts=1, sig=0.1)),
        ('nparts=1,wB=5,wE=1', dict(omega_B=5.0, omega_E=1.0, u0=u0b, nparts=1, sig=0.1)),
        ('nparts=3,wB=25,wE=4.9', dict(omega_B=25.0, omega_E=4.9, u0=u0, nparts=3, sig=0.1)),
    ]


def v_newton_std(**extra):
    def f(tier):
        return [(_lab(p) or 'default', p) for p in _prod(**extra)] if extra else [('default', {})]

    return f


VARIANTS = {
    'acoustic_1d_imex': lambda tier: [
        (f'nvars=(2,{n}),order_adv={o}', dict(nvars=(2, n), cs=0.5, cadv=0.1, order_adv=o, waveno=2)) for n in (16, 24) for o in (5, 2)
    ],
    'advectiondiffusion1d_imex': v_advdiff_fft,
    'advectiondiffusion1d_implicit': v_advdiff_fft,
    'advectionNd': v_advection,
    'allencahn_front_fullyimplicit': v_ac1d_front,
    'allencahn_front_semiimplicit': v_ac1d_front,
    'allencahn_front_finel': v_ac1d_front,
    'allencahn_periodic_fullyimplicit': v_ac1d_periodic,
    'allencahn_periodic_semiimplicit': v_ac1d_periodic,
    'allencahn_periodic_multiimplicit': v_ac1d_periodic,
    'allencahn_fullyimplicit': v_ac2d_fd,
    'allencahn_semiimplicit': v_ac2d_fd,
    'allencahn_semiimplicit_v2': v_ac2d_fd,
    'allencahn_multiimplicit': v_ac2d_fd,
    'allencahn_multiimplicit_v2': v_ac2d_fd,
    'allencahn2d_imex': v_ac2d_fft,
    'allencahn2d_imex_stab': v_ac2d_fft,
    'auzinger': lambda tier: [('default', {}), ('newton_maxiter=100,newton_tol=1e-12', dict(newton_maxiter=100, newton_tol=1e-12))],
    'battery_n_capacitors': v_battery_n,
    'battery': v_battery,
    'battery_implicit': v_battery,
    'boussinesq_2d_imex': v_boussinesq,
    'buck_converter': lambda tier: [('fsw=1e3', {}), ('fsw=7(second branch at t=0.1)', dict(fsw=7.0)), ('duty=0.2,fsw=3', dict(duty=0.2, fsw=3.0))],
    'Burgers1D': v_burgers1d,
    'Burgers2D': v_burgers2d,
    'DiscontinuousTestODE': v_newton_std(),
    'ExactDiscontinuousTestODE': v_newton_std(),
    'swfw_scalar': v_swfw,
    'fermi_pasta_ulam_tsingou': lambda tier: [(f'npart={n},alpha={a}', dict(npart=n, alpha=a, k=1.0)) for n in (16, 32) for a in (0.25, 0.0)],
    'full_solar_system': lambda tier: [(f'sun_only={s}', dict(sun_only=s)) for s in (False, True)],
    'outer_solar_system': lambda tier: [(f'sun_only={s}', dict(sun_only=s)) for s in (False, True)],
    'generalized_fisher': lambda tier: [
        (f'nvars={n},nu={nu},lambda0={l0}', dict(nvars=n, nu=nu, lambda0=l0, newton_maxiter=50)) for n in (15, 31) for nu, l0 in ((1.0, 2.0), (2.0, 1.0))
    ],
    'harmonic_oscillator': lambda tier: [
        (f'k={k},mu={mu}', dict(k=k, mu=mu, u0=(1.0, 0.3))) for k, mu in ((1.0, 0.0), (2.0, 0.5), (1.0, 2.0), (1.0, 3.0))
    ],
    'Heat1DChebychev': v_heat1d_cheb,
    'Heat1DUltraspherical': v_heat1d_ultra,
    'Heat2DChebychev': lambda tier: v_heat2d(tier, 'chebychev'),
    'Heat2DUltraspherical': lambda tier: v_heat2d(tier, 'ultraspherical'),
    'heatNd_forced': lambda tier: v_heat(tier, forced=True),
    'heatNd_unforced': v_heat,
    'henon_heiles': v_newton_std(),
    'logistics_equation': lambda tier: [
        (f'direct={d},lam={lam},u0={u0}', dict(direct=d, lam=lam, u0=u0)) for d in (True, False) for lam, u0 in ((1, 0.5), (2.5, 0.2))
    ],
    'LorenzAttractor': lambda tier: [('default', {}), ('u0=(2,-1,20),newton_tol=1e-12', dict(u0=(2.0, -1.0, 20.0), newton_tol=1e-12))],
    'penningtrap': v_penning,
    'piline': lambda tier: [('default', {}), ('Rs=2,Lpi=0.5', dict(Rs=2.0, Lpi=0.5, Rl=3.0))],
    'Quench': v_quench,
    'QuenchIMEX': v_quench,
    'test_equation_IMEX': v_testeq_imex,
    'testequation0d': v_testeq,
    'vanderpol': lambda tier: [
        (f'mu={mu},relative_tolerance={rel},crash_at_maxiter={cr}', dict(mu=mu, relative_tolerance=rel, crash_at_maxiter=cr, newton_maxiter=50))
        for mu in (5.0, 0.5)
        for rel in (False, True)
        for cr in (True, False)
    ],
    'GenericNDimFinDiff': v_generic_fd,
    'nonlinear_ODE_1': lambda tier: [('default', {}), ('u0=0.5', dict(u0=0.5))],
    'ProtheroRobinson': lambda tier: [(f'epsilon={e},nonLinear={nl}', dict(epsilon=e, nonLinear=nl)) for e in (1e-3, 0.1) for nl in (False, True)],
    'ProtheroRobinsonAutonomous': lambda tier: [
        (f'epsilon={e},nonLinear={nl}', dict(epsilon=e, nonLinear=nl)) for e in (1e-3, 0.1) for nl in (False, True)
    ],
    'Kaps': lambda tier: [(f'epsilon={e}', dict(epsilon=e)) for e in (1e-3, 0.1, 1.0)],
    'ChemicalReaction3Var': v_newton_std(),
    'JacobiElliptic': v_newton_std(),
    'polynomial_testequation': lambda tier: [(f'degree={d}', dict(degree=d)) for d in (1, 2, 4)],
    'polynomial_testequation_IMEX': lambda tier: [(f'degree={d}', dict(degree=d)) for d in (1, 2, 4)],
}

# classes that cannot be instantiated on their own (abstract bases without eval_f / u_exact)
ABSTRACT = {'GenericSpectralLinear': 'abstract base: no eval_f / operators until a subclass sets L, M and BCs'}


# ---------------------------------------------------------------------------------------------------
# solver knowledge: how the class's solve_system decides that it is done, read from the source
#   kind   'direct'   sparse / dense LU, FFT diagonal solve, closed formula  -> rounding-level residual
#          'krylov'   scipy cg / gmres with rtol=<attr>, atol=0             -> ||r||_2 <= rtol * ||b||_2
#          'newton'   Newton loop that stops on  ||g||_inf < newton_tol      (absolute, max-norm)
#          'newton_rel'  vanderpol(relative_tolerance=True): ||g||_inf / ||u||_inf < newton_tol
#   rtol   name of the attribute (or callable prob -> float) holding the configured tolerance
#   reports_maxiter   how the class says that it stopped at maxiter ('raise', 'warn', None = silent, read from source)
# ---------------------------------------------------------------------------------------------------
def _fd_kind(p):
    return {'kind': 'direct'} if p.solver_type == 'direct' else {'kind': 'krylov', 'rtol': p.lintol}


def _spectral_kind(p):
    st = p.solver_type.lower()
    if 'direct' in st:
        return {'kind': 'direct', 'spectral': True}
    return {'kind': 'krylov', 'rtol': p.solver_args.get('rtol', 1e-5), 'spectral': True}


def _newton(attr='newton_tol'):
    return lambda p: {'kind': 'newton', 'atol': getattr(p, attr)}


SOLVER = {
    'acoustic_1d_imex': lambda p: {'kind': 'direct'},
    'advectiondiffusion1d_imex': lambda p: {'kind': 'direct'},
    'advectiondiffusion1d_implicit': lambda p: {'kind': 'direct'},
    'advectionNd': _fd_kind,
    'heatNd_unforced': _fd_kind,
    'heatNd_forced': _fd_kind,
    'GenericNDimFinDiff': _fd_kind,
    'allencahn_front_fullyimplicit': _newton(),
    'allencahn_front_semiimplicit': lambda p: {'kind': 'direct'},
    'allencahn_front_finel': _newton(),
    'allencahn_periodic_fullyimplicit': _newton(),
    'allencahn_periodic_semiimplicit': lambda p: {'kind': 'direct'},
    'allencahn_periodic_multiimplicit': {'solve_system_1': lambda p: {'kind': 'direct'}, 'solve_system_2': _newton()},
    'allencahn_fullyimplicit': _newton(),
    'allencahn_semiimplicit': lambda p: {'kind': 'krylov', 'rtol': p.lin_tol},
    'allencahn_semiimplicit_v2': _newton(),
    'allencahn_multiimplicit': {'solve_system_1': lambda p: {'kind': 'krylov', 'rtol': p.lin_tol}, 'solve_system_2': _newton()},
    'allencahn_multiimplicit_v2': {'solve_system_1': _newton(), 'solve_system_2': lambda p: {'kind': 'direct'}},
    'allencahn2d_imex': lambda p: {'kind': 'direct'},
    'allencahn2d_imex_stab': lambda p: {'kind': 'direct'},
    'auzinger': _newton(),
    'battery_n_capacitors': lambda p: {'kind': 'direct'},
    'battery': lambda p: {'kind': 'direct'},
    'battery_implicit': _newton(),
    'boussinesq_2d_imex': lambda p: {'kind': 'krylov', 'rtol': p.gmres_tol_limit},
    'buck_converter': lambda p: {'kind': 'direct'},
    'Burgers1D': _spectral_kind,
    'Burgers2D': _spectral_kind,
    'Heat1DChebychev': _spectral_kind,
    'Heat1DUltraspherical': _spectral_kind,
    'Heat2DChebychev': _spectral_kind,
    'Heat2DUltraspherical': _spectral_kind,
    'DiscontinuousTestODE': _newton(),
    'swfw_scalar': lambda p: {'kind': 'direct'},
    'generalized_fisher': _newton(),
    'logistics_equation': lambda p: {'kind': 'direct'} if p.direct else {'kind': 'newton', 'atol': p.newton_tol},
    'LorenzAttractor': _newton(),
    'piline': lambda p: {'kind': 'direct'},
    'Quench': _newton(),
    'QuenchIMEX': lambda p: {'kind': 'direct'},
    'test_equation_IMEX': lambda p: {'kind': 'direct'},
    'testequation0d': lambda p: {'kind': 'direct'},
    'vanderpol': lambda p: {'kind': 'newton_rel' if p.relative_tolerance else 'newton', 'atol': p.newton_tol},
    'nonlinear_ODE_1': _newton(),
    'ProtheroRobinson': _newton(),
    'ProtheroRobinsonAutonomous': _newton(),
    'Kaps': _newton(),
    'ChemicalReaction3Var': _newton(),
    'JacobiElliptic': _newton(),
}

# classes whose implicit part is affine in u (for fixed t and fixed internal switch state): their contract is
# decided for *all* right-hand sides by the lattice (basis argument); the others are an alphabet only
LINEAR_IMPL = {
    'acoustic_1d_imex', 'advectiondiffusion1d_imex', 'advectiondiffusion1d_implicit', 'advectionNd', 'heatNd_unforced',
    'heatNd_forced', 'GenericNDimFinDiff', 'allencahn_front_semiimplicit', 'allencahn_periodic_semiimplicit',
    'allencahn_semiimplicit', 'allencahn2d_imex', 'allencahn2d_imex_stab', 'battery_n_capacitors', 'battery',
    'boussinesq_2d_imex', 'buck_converter', 'Burgers1D', 'Burgers2D', 'Heat1DChebychev', 'Heat1DUltraspherical',
    'Heat2DChebychev', 'Heat2DUltraspherical', 'swfw_scalar', 'piline', 'QuenchIMEX', 'test_equation_IMEX',
    'testequation0d',
}  # fmt: skip
LINEAR_PART = {('allencahn_periodic_multiimplicit', 'solve_system_1'), ('allencahn_multiimplicit', 'solve_system_1'), ('allencahn_multiimplicit_v2', 'solve_system_2')}

# classes whose eval_f reads a matrix that the *last* solve_system call selected (switching circuits): eval_f is only
# meaningful right after a solve on the same instance, which is how the sweepers use it
STATEFUL = {'battery_n_capacitors', 'battery', 'battery_implicit', 'buck_converter'}


# right-hand sides that are discontinuous in u: solve_system picks the branch from rhs, eval_f from u.  A case in which
# rhs and the returned u lie on different branches has no solution the solver could be asked for: counted, not judged.
def _branch_battery(p, v, t):
    v = np.asarray(v)
    return tuple(bool(v[k] <= p.V_ref[k - 1]) for k in range(1, v.size))


def _branch_disc(p, v, t):
    return bool(np.asarray(v)[0] - 5 >= 0)


BRANCH = {'battery_implicit': _branch_battery, 'DiscontinuousTestODE': _branch_disc}


# ---------------------------------------------------------------------------------------------------
# split siblings: (unsplit or reference class, split class, params-translation) — detected by reading the files
# ---------------------------------------------------------------------------------------------------
def _same(p):
    return dict(p)


def _testeq_to_imex(p):
    lam = p['lambdas']
    return dict(lambdas_implicit=0.25 * lam + 0.1j, lambdas_explicit=0.75 * lam - 0.1j, u0=p['u0'])


SIBLINGS = [
    ('allencahn_front_fullyimplicit', 'allencahn_front_semiimplicit', _same),
    ('allencahn_periodic_fullyimplicit', 'allencahn_periodic_semiimplicit', _same),
    ('allencahn_periodic_fullyimplicit', 'allencahn_periodic_multiimplicit', _same),
    ('allencahn_fullyimplicit', 'allencahn_semiimplicit', _same),
    ('allencahn_fullyimplicit', 'allencahn_semiimplicit_v2', _same),
    ('allencahn_fullyimplicit', 'allencahn_multiimplicit', _same),
    ('allencahn_fullyimplicit', 'allencahn_multiimplicit_v2', _same),
    ('allencahn2d_imex', 'allencahn2d_imex_stab', _same),
    ('advectiondiffusion1d_implicit', 'advectiondiffusion1d_imex', _same),
    ('Quench', 'QuenchIMEX', _same),
    ('battery_implicit', 'battery', _same),
    ('battery', 'battery_n_capacitors', lambda p: dict(p, ncapacitors=1)),
    ('testequation0d', 'test_equation_IMEX', _testeq_to_imex),
    ('polynomial_testequation', 'polynomial_testequation_IMEX', _same),
]

# ---------------------------------------------------------------------------------------------------
# closed-form u_exact: classes whose u_exact(t) is an explicit formula that solves  u' = eval_f(u, t)  exactly
# (read from the source; u_exact via scipy reference integration, t==0-only initial conditions and PDE solutions that
# only solve the semi-discrete system up to discretisation error are NOT in this table and are counted as such)
#   ic: 'u0'  -> the class has a constructor parameter u0 and u_exact(0) must equal it
#       tuple -> the initial condition the class documents
#   when: predicate on the constructor parameters (closed form only for these)
# ---------------------------------------------------------------------------------------------------
CLOSED_FORM = {
    'testequation0d': {'ic': 'u0'},
    'test_equation_IMEX': {'ic': 'u0'},
    'swfw_scalar': {'ic': 'u0'},
    'logistics_equation': {'ic': 'u0'},
    'nonlinear_ODE_1': {'ic': 'u0'},
    'auzinger': {'ic': (1.0, 0.0)},
    'ProtheroRobinson': {'ic': (1.0,)},
    'ProtheroRobinsonAutonomous': {'ic': (1.0, 0.0)},
    'Kaps': {'ic': (1.0, 1.0)},
    'DiscontinuousTestODE': {'ic': (1.0,), 'times': (0.1, 0.7, 2.5)},
    'ExactDiscontinuousTestODE': {'ic': (1.0,), 'times': (0.1, 0.7, 2.5)},
    'polynomial_testequation': {'ic': None},
    'polynomial_testequation_IMEX': {'ic': None},
    'harmonic_oscillator': {'ic': 'u0'},
    'penningtrap': {'ic': 'u0', 'when': lambda p: p['nparts'] == 1},
    # semi-discrete heat equation: sin modes are eigenvectors of the 2nd-order centred Laplacian (periodic, Dirichlet)
    # and u_exact uses the *discrete* eigenvalue, so it is an exact solution of the ODE system the class defines
    'heatNd_unforced': {
        'ic': None,
        'when': lambda p: p.get('order', 2) == 2
        and p.get('bc', 'periodic') in ('periodic', 'dirichlet-zero')
        and p.get('freq', 2) != -1
        and p.get('solver_type', 'direct') == 'direct',
    },
    # Fourier collocation: a resolved sine mode is differentiated exactly
    'advectiondiffusion1d_imex': {'ic': None, 'when': lambda p: p['freq'] > 0},
    'advectiondiffusion1d_implicit': {'ic': None, 'when': lambda p: p['freq'] > 0},
}
