"""C16 — the pySDC-facing half: build handles from a configuration, observe a reader, compare with the model,
run the crash states of one append / one header creation.  Also the entry point of the *fresh reader process*:

    python -m vf.env.c16_io <job.pkl>      (cwd = /verif; writes <job.pkl>.out)

The child runs the very same observation + comparison code as the parent, in a process that has never seen the
writer's objects.
"""

import os
import pickle
import struct
import sys

import numpy as np

from pySDC.helpers.fieldsIO import DTYPES, FieldsIO, Rectilinear, Scalar

from vf.engine import crash
from vf.oracle import fieldfile as model

CLASSES = {'Scalar': Scalar, 'Rectilinear': Rectilinear}


# ---------------------------------------------------------------------------------------------------------
# configurations
# ---------------------------------------------------------------------------------------------------------
def cfg_dtype(cfg):
    return DTYPES[cfg['dt']]


def cfg_dname(cfg):
    return np.dtype(DTYPES[cfg['dt']]).name


def cfg_header(cfg):
    """model header of a configuration"""
    return (cfg['cls'], cfg_dname(cfg), int(cfg['nVar']), tuple(model.coords_bits(cfg['grid'], cfg.get('cv', 0))))


def cfg_items(cfg):
    n = int(cfg['nVar'])
    for g in cfg['grid']:
        n *= g
    return n


def cfg_key(cfg):
    return (cfg['cls'], cfg['dt'], cfg['nVar'], tuple(cfg['grid']), cfg.get('cv', 0))


def cfg_rank(cfg):
    """simplicity order used to pick the minimal failing case"""
    return (cfg_items(cfg) * np.dtype(DTYPES[cfg['dt']]).itemsize, len(cfg['grid']), cfg['nVar'], cfg['dt'], cfg.get('cv', 0))


def new_writer(cfg, path):
    """A specialised handle with the header set, not yet initialised."""
    h = CLASSES[cfg['cls']](cfg_dtype(cfg), path)
    if cfg['cls'] == 'Scalar':
        h.setHeader(nVar=cfg['nVar'])
    else:
        coords = [np.frombuffer(b, dtype=np.float64).copy() for b in model.coords_bits(cfg['grid'], cfg.get('cv', 0))]
        h.setHeader(nVar=cfg['nVar'], coords=coords)
    return h


LAYOUTS = ('C', 'F', 'strided', 'reversed')


def field_array(cfg, fbits, layout='C'):
    """The array handed to addField: Scalar (nVar,), Rectilinear (nVar, *grid).  `layout` is how the same logical array
    lies in memory: C-contiguous, Fortran-contiguous (what `u.T` of an (nX, nVar) solver array or a Fortran-wrapped
    solver gives), every second element of a larger buffer, or a reversed view."""
    a = np.frombuffer(fbits, dtype=cfg_dtype(cfg)).copy()
    if cfg['cls'] == 'Rectilinear':
        a = a.reshape((cfg['nVar'], *cfg['grid']))
    if layout == 'F':
        b = np.asfortranarray(a)
    elif layout == 'strided':
        big = np.zeros(a.shape[:-1] + (2 * a.shape[-1],), dtype=a.dtype)
        big[..., ::2] = a
        b = big[..., ::2]
    elif layout == 'reversed':
        b = a[..., ::-1].copy()[..., ::-1]
    else:
        return a
    return b


def time_value(tbits):
    return struct.unpack('<d', tbits)[0]


def record(cfg, k, off):
    """k-th record (time bits, field bits) of a history with seed offset `off`."""
    pool = _pool(cfg_dname(cfg))
    return model.time_bits(k, off), model.field_bytes(pool, cfg_items(cfg), k, off)


_POOLS = {}


def _pool(dname):
    if dname not in _POOLS:
        _POOLS[dname] = model.scalar_pool(dname)
    return _POOLS[dname]


# ---------------------------------------------------------------------------------------------------------
# observation + comparison
# ---------------------------------------------------------------------------------------------------------
def observe_header(h):
    coords = h.header.get('coords', []) if isinstance(h.header, dict) else None
    cb = []
    for c in coords:
        c = np.asarray(c)
        cb.append((c.dtype.name, c.ndim, c.tobytes()))
    return (type(h).__name__, np.dtype(h.dtype).name, h.header['nVar'], tuple(cb))


def header_mismatch(h, header):
    try:
        got = observe_header(h)
    except Exception as e:  # noqa: BLE001
        return {'header_raised': repr(e)}
    want = (header[0], header[1], header[2], tuple(('float64', 1, b) for b in header[3]))
    if got[0] != want[0] or got[1] != want[1] or got[2] != want[2] or isinstance(got[2], bool) or got[3] != want[3]:
        return {'expected': _hdr_repr(want), 'observed': _hdr_repr(got)}
    return None


def _hdr_repr(x):
    return {'class': x[0], 'dtype': x[1], 'nVar': int(x[2]) if isinstance(x[2], (int, np.integer)) else repr(x[2]), 'coords': [(c[0], c[1], c[2].hex()) for c in x[3]]}


def _rec_check(cfg_shape, dtype, got, want):
    """got = (t, field) as returned by readField, want = (tbits, fbits)"""
    t, u = got
    if not isinstance(t, float) or struct.pack('<d', t) != want[0]:
        return {'time_expected': want[0].hex(), 'time_observed': struct.pack('<d', t).hex() if isinstance(t, float) else repr(t)}
    if not isinstance(u, np.ndarray) or u.dtype != np.dtype(dtype):
        return {'field_type': repr(type(u)), 'dtype': repr(getattr(u, 'dtype', None))}
    if tuple(u.shape) != tuple(cfg_shape):
        return {'shape_expected': list(cfg_shape), 'shape_observed': list(u.shape)}
    ub = np.ascontiguousarray(u).tobytes()
    if ub != want[1]:
        j = next(i for i in range(min(len(ub), len(want[1]))) if ub[i] != want[1][i]) if len(ub) == len(want[1]) else -1
        return {'first_differing_byte': j, 'field_expected': want[1][:64].hex(), 'field_observed': ub[:64].hex()}
    return None


def verify(h, header, records, level='full'):
    """Compare what reader `h` reports with the model.  Returns None or (what, index, detail); checks in a fixed
    order: header, nFields, records by ascending index (times[i], time(i), readField(i), and the same through the
    negative index), finally the out-of-range indices n and -n-1 (must not return anything).
    level='prefix': only the header and the first len(records) records through non-negative indices (used where
    the property does not speak about what follows them)."""
    n = len(records)
    hm = header_mismatch(h, header)
    if hm is not None:
        return ('header', None, hm)
    shape = (header[2],) if header[0] == 'Scalar' else (header[2], *[len(b) // 8 for b in header[3]])
    dtype = header[1]
    try:
        nF = h.nFields
    except Exception as e:  # noqa: BLE001
        return ('nfields', None, {'raised': repr(e)})
    if level == 'full' and (not isinstance(nF, int) or nF != n):
        return ('nfields', None, {'expected': n, 'observed': repr(nF)})
    try:
        times = h.times
    except Exception as e:  # noqa: BLE001
        return ('times', None, {'raised': repr(e)})
    if level == 'full' and len(times) != n:
        return ('nfields', None, {'expected_len_times': n, 'observed': len(times)})
    kept = []
    for i in range(n):
        if i >= len(times) or not isinstance(times[i], float) or struct.pack('<d', times[i]) != records[i][0]:
            return ('record', i, {'via': 'times', 'expected': records[i][0].hex(), 'observed': repr(times[i]) if i < len(times) else 'missing'})
        idxs = (i,) if level == 'prefix' else (i, i - n)
        for idx in idxs:
            try:
                t = h.time(idx)
                got = h.readField(idx)
            except Exception as e:  # noqa: BLE001
                return ('record', i, {'via': f'readField({idx})', 'raised': repr(e)})
            if not isinstance(t, float) or struct.pack('<d', t) != records[i][0]:
                return ('record', i, {'via': f'time({idx})', 'expected': records[i][0].hex(), 'observed': repr(t)})
            bad = _rec_check(shape, dtype, got, records[i])
            if bad:
                bad['via'] = f'readField({idx})'
                return ('record', i, bad)
            kept.append((i, idx, got))
    # what a read returned stays what it was: the caller may hold several fields of one handle at a time
    for i, idx, got in kept:
        bad = _rec_check(shape, dtype, got, records[i])
        if bad:
            bad['via'] = f'readField({idx}), looked at again after the later reads through the same handle'
            return ('record', i, bad)
    if level == 'full':
        for idx in (n, -n - 1):
            for name in ('readField', 'time'):
                try:
                    got = getattr(h, name)(idx)
                except Exception:  # noqa: BLE001
                    continue
                return ('out_of_range_returned', idx, {'call': f'{name}({idx})', 'nFields': n, 'returned': repr(got)[:200]})
    return None


def open_readers(path, cls):
    """(label, opener) of the two re-opening routes: generic and through the specialised class."""
    return (('FieldsIO.fromFile', lambda: FieldsIO.fromFile(path)), (f'{cls}.fromFile', lambda: CLASSES[cls].fromFile(path)))


def verify_file(path, header, records, level='full', routes=(0, 1)):
    """Open the file through the re-opening routes (0 generic, 1 specialised class) and verify each.
    Returns None or (what, index, detail)."""
    readers = open_readers(path, header[0])
    for label, opener in (readers[i] for i in routes):
        try:
            h = opener()
        except Exception as e:  # noqa: BLE001
            return ('reopen_raised', None, {'reader': label, 'raised': repr(e)})
        bad = verify(h, header, records, level)
        if bad:
            bad[2]['reader'] = label
            return bad
    return None


# ---------------------------------------------------------------------------------------------------------
# crash states of one append
# ---------------------------------------------------------------------------------------------------------
def run_append_crash_states(workdir, cfg, base, delta, records, torn_record, new_record, ks=None, zero_fill=False):
    """`base` = bytes of the file with len(records) completed records, `delta` = the bytes the torn append would
    have added (it would have stored `torn_record`).  For every crash point k: recover, compare, append
    `new_record` through the recovered handle, re-open (both routes), compare again.

    Returns dict: states (int), fails = [(k, phase, what, index, detail)] (first failure per state),
    outcomes = counts of observations the property does not judge."""
    header = cfg_header(cfg)
    path = os.path.join(workdir, 'crash.pysdc')
    fails = []
    outcomes = {}
    states = 0
    n_torn = 0

    def count(key):
        outcomes[key] = outcomes.get(key, 0) + 1

    full = len(delta)
    for k, content in crash.crash_states(base, delta, zero_fill=zero_fill, ks=ks):
        states += 1
        crash.materialise(path, content)
        torn = 0 < k < full
        n_torn += torn
        if k == full:
            completed = records + [torn_record]
        else:
            completed = records
        judged_full = not (zero_fill and k < full)  # zero-filled tail: only the completed records are judged
        level = 'full' if judged_full else 'prefix'
        # -- recovery
        try:
            h = FieldsIO.fromFile(path)
        except Exception as e:  # noqa: BLE001
            fails.append((k, 'recovery', 'reopen_raised', None, {'raised': repr(e)}))
            continue
        bad = verify(h, header, completed, level)
        if bad:
            fails.append((k, 'recovery', *bad))
            continue
        try:
            n_rep = h.nFields
        except Exception as e:  # noqa: BLE001
            fails.append((k, 'recovery', 'nfields', None, {'raised': repr(e)}))
            continue
        if not judged_full:
            count(f'zero_filled_tail: nFields reported = completed+{n_rep - len(completed)}')
        # -- continue writing through the recovered handle
        try:
            h.addField(time_value(new_record[0]), field_array(cfg, new_record[1]))
        except Exception as e:  # noqa: BLE001
            fails.append((k, 'append_after_recovery', 'append_raised', None, {'raised': repr(e)}))
            continue
        if judged_full:
            bad = verify_file(path, header, completed + [new_record], 'full', routes=(0,))
            if bad:
                # index n_rep is where the new record has to appear; lower indices are previously completed records
                fails.append((k, 'append_after_recovery', *bad))
                continue
        else:
            bad = verify_file(path, header, completed, 'prefix', routes=(0,))
            if bad:
                fails.append((k, 'append_after_recovery', *bad))
                continue
            # observation only: does the new record read back exactly at the index nFields reported after recovery?
            try:
                h2 = FieldsIO.fromFile(path)
                got = h2.readField(n_rep)
                shape = (header[2],) if header[0] == 'Scalar' else (header[2], *cfg['grid'])
                ok = _rec_check(shape, header[1], got, new_record) is None and h2.nFields == n_rep + 1
            except Exception:  # noqa: BLE001
                ok = False
            count('zero_filled_tail: new record read back exactly at reported nFields' if ok else 'zero_filled_tail: new record NOT read back at reported nFields')
        if torn:
            count('zero_filled_tail: torn states with completed records intact' if zero_fill else 'torn states fully recovered and continued')
    return {'states': states, 'torn': n_torn, 'fails': fails, 'outcomes': outcomes}


def run_header_crash_states(workdir, cfg, hbytes, ks=None, zero_fill=False):
    """Crash points of header creation: the file holds hbytes[:k] (k < len).  Re-opening must be refused or give
    a handle that reports no fields."""
    path = os.path.join(workdir, 'hcrash.pysdc')
    fails = []
    outcomes = {}
    states = 0
    header = cfg_header(cfg)
    full = len(hbytes)
    for k, content in crash.crash_states(b'', hbytes, zero_fill=zero_fill, ks=ks):
        states += 1
        crash.materialise(path, content)
        try:
            h = FieldsIO.fromFile(path)
        except Exception as e:  # noqa: BLE001
            key = f'refused:{type(e).__name__}'
            outcomes[key] = outcomes.get(key, 0) + 1
            if k == full:
                fails.append((k, 'header', 'complete_header_refused', None, {'raised': repr(e)}))
            continue
        if k == full:
            bad = verify(h, header, [], 'full')
            if bad:
                fails.append((k, 'header', *bad))
            else:
                outcomes['complete_header_ok'] = outcomes.get('complete_header_ok', 0) + 1
            continue
        try:
            nF = h.nFields
            times = h.times
        except Exception as e:  # noqa: BLE001
            key = f'opened_but_counting_raises:{type(e).__name__}'
            outcomes[key] = outcomes.get(key, 0) + 1
            continue
        reports = nF != 0 or len(times) != 0
        if not reports:
            try:
                got = h.readField(0)
                reports = True
            except Exception:  # noqa: BLE001
                got = None
        if reports:
            if zero_fill:
                outcomes['zero_filled_header: fields reported (not judged)'] = outcomes.get('zero_filled_header: fields reported (not judged)', 0) + 1
            else:
                fails.append((k, 'header', 'torn_header_reports_fields', None, {'nFields': repr(nF), 'times': repr(times)[:100]}))
            continue
        key = 'opened_zero_fields_header_' + ('equal' if header_mismatch(h, header) is None else 'differs')
        outcomes[key] = outcomes.get(key, 0) + 1
    return {'states': states, 'fails': fails, 'outcomes': outcomes}


# ---------------------------------------------------------------------------------------------------------
# fresh-process entry point
# ---------------------------------------------------------------------------------------------------------
def child_main(jobfile):
    import logging
    import warnings

    logging.disable(logging.CRITICAL)
    warnings.filterwarnings('ignore')
    import pySDC

    with open(jobfile, 'rb') as f:
        job = pickle.load(f)
    out = {'pysdc': os.path.realpath(pySDC.__file__), 'pid': os.getpid(), 'results': []}
    for item in job['items']:
        if item['mode'] == 'read':
            out['results'].append(verify_file(item['path'], item['header'], item['records'], 'full'))
        elif item['mode'] == 'append_crash':
            with crash.Scratch('c16') as wd:
                out['results'].append(
                    run_append_crash_states(wd, item['cfg'], item['base'], item['delta'], item['records'], item['torn_record'], item['new_record'], item.get('ks'), item.get('zero_fill', False))
                )
        elif item['mode'] == 'header_crash':
            with crash.Scratch('c16') as wd:
                out['results'].append(run_header_crash_states(wd, item['cfg'], item['hbytes'], item.get('ks'), item.get('zero_fill', False)))
        else:
            raise ValueError(item['mode'])
    with open(jobfile + '.out', 'wb') as f:
        pickle.dump(out, f)


def run_child(workdir, items, tag='job'):
    """Run `items` in a fresh interpreter (not forked: nothing of this process's state is inherited)."""
    import subprocess

    jobfile = os.path.join(workdir, f'{tag}.pkl')
    with open(jobfile, 'wb') as f:
        pickle.dump({'items': items}, f)
    root = os.path.dirname(os.path.dirname(os.path.dirname(os.path.abspath(__file__))))
    p = subprocess.run([sys.executable, '-m', 'vf.env.c16_io', jobfile], cwd=root, capture_output=True, text=True, timeout=3600)
    if p.returncode != 0 or not os.path.exists(jobfile + '.out'):
        raise RuntimeError(f'reader subprocess failed rc={p.returncode}: {p.stderr[-2000:]}')
    with open(jobfile + '.out', 'rb') as f:
        out = pickle.load(f)
    import pySDC

    assert out['pysdc'] == os.path.realpath(pySDC.__file__), f"child imported pySDC from {out['pysdc']}"
    assert out['pid'] != os.getpid()
    os.unlink(jobfile)
    os.unlink(jobfile + '.out')
    return out['results']


if __name__ == '__main__':
    child_main(sys.argv[1])
