"""Descriptions for *real* adaptive runs (no scripted environment): the estimators of pySDC on real problems."""

import numpy as np


def make(cfg):
    r = cfg['real']
    est, prob, tol = r['estimator'], r['problem'], r['tol']
    from pySDC.implementations.sweeper_classes.generic_implicit import generic_implicit

    sweeper_class = generic_implicit
    sweeper_params = {'quad_type': 'RADAU-RIGHT', 'num_nodes': 3, 'QI': 'IE'}
    level_params = {'dt': r.get('dt', 0.05)}
    step_params = {'maxiter': 4}
    if prob == 'vdp':
        from pySDC.implementations.problem_classes.Van_der_Pol_implicit import vanderpol

        pclass, pparams = vanderpol, {'mu': 5.0, 'newton_tol': 1e-10, 'newton_maxiter': 99, 'u0': np.array([2.0, 0.0])}
    elif prob == 'lorenz':
        from pySDC.implementations.problem_classes.Lorenz import LorenzAttractor

        pclass, pparams = LorenzAttractor, {'newton_tol': 1e-10, 'newton_maxiter': 99}
        level_params['dt'] = r.get('dt', 0.02)
    elif prob == 'heat':
        from pySDC.implementations.problem_classes.HeatEquation_ND_FD import heatNd_unforced

        pclass, pparams = heatNd_unforced, {'nvars': 15, 'nu': 0.5, 'freq': 2, 'bc': 'dirichlet-zero'}
    elif prob == 'dahlquist':
        from pySDC.implementations.problem_classes.TestEquation_0D import testequation0d

        pclass, pparams = testequation0d, {'lambdas': np.array([-8.0 + 2j, -0.5, 3.0j]), 'u0': 1.0}
    else:
        raise KeyError(prob)
    cc = {}
    restarting = dict(r.get('restarting', {}))
    limiter = dict(r.get('limiter', {}))
    if est == 'embedded':
        from pySDC.implementations.convergence_controller_classes.adaptivity import Adaptivity

        cc[Adaptivity] = {'e_tol': tol, **limiter}
    elif est == 'rk':
        from pySDC.implementations.convergence_controller_classes.adaptivity import AdaptivityRK
        from pySDC.implementations.sweeper_classes import Runge_Kutta

        sweeper_class = getattr(Runge_Kutta, r.get('rk', 'ESDIRK53'))
        sweeper_params = {}
        step_params = {'maxiter': 1}
        cc[AdaptivityRK] = {'e_tol': tol, **limiter}
    elif est == 'polynomial':
        from pySDC.implementations.convergence_controller_classes.adaptivity import AdaptivityPolynomialError

        level_params['restol'] = 1e-9
        step_params = {'maxiter': 30}
        cc[AdaptivityPolynomialError] = {'e_tol': tol, **limiter}
    elif est == 'extrapolation':
        from pySDC.implementations.convergence_controller_classes.adaptivity import AdaptivityExtrapolationWithinQ

        level_params['restol'] = 1e-9
        step_params = {'maxiter': 30}
        cc[AdaptivityExtrapolationWithinQ] = {'e_tol': tol, **limiter}
    else:
        raise KeyError(est)
    if restarting:
        from pySDC.implementations.convergence_controller_classes.basic_restarting import BasicRestartingNonMPI

        cc[BasicRestartingNonMPI] = restarting
    desc = {
        'problem_class': pclass,
        'problem_params': pparams,
        'sweeper_class': sweeper_class,
        'sweeper_params': sweeper_params,
        'level_params': level_params,
        'step_params': step_params,
        'convergence_controllers': cc,
    }
    cp = {'logger_level': 90, 'dump_setup': False, 'mssdc_jac': False}
    return cp, desc
