"""Harness that drives the *real* controller_nonMPI with a scripted numerical environment (engine E1).

Only public plug-in points are used: a sweeper subclass (compute_residual answers from the explorer on the finest
level in IT_CHECK), convergence-controller subclasses (forced flags / scripted error estimates / direct restart
requests), a recorder hook class, and a controller subclass that observes `pfasst()` / `recv_full()` and calls the
real implementation via super().
"""

import re

import numpy as np

from pySDC.core.convergence_controller import ConvergenceController
from pySDC.core.errors import CommunicationError, ControllerError, ConvergenceError, UnlockError
from pySDC.core.hooks import Hooks
from pySDC.implementations.controller_classes.controller_nonMPI import controller_nonMPI
from pySDC.implementations.problem_classes.TestEquation_0D import testequation0d
from pySDC.implementations.sweeper_classes.generic_implicit import generic_implicit
from pySDC.implementations.transfer_classes.TransferMesh_NoCoarse import mesh_to_mesh as IdentityTransfer

from vf.engine.explore import Outcome, ReplayDivergence

RESTOL = 0.5
CUR = None  # the running execution's context (one execution at a time per process)


class Horizon(Exception):
    pass


class Cur:
    def __init__(self, ctx, cfg):
        self.ctx = ctx
        self.cfg = cfg
        self.log = []  # recorder: (name, slot, level, iter, time, extra)
        self.viol = []  # (signature, detail)
        self.states = []
        self.controller = None
        self.block = 0
        self.macro = 0  # pfasst calls in the current block
        self.conv = {}  # (block, slot, check) -> bool  answers given
        self.forced = {}  # (block, slot, check) -> 'done' | 'continue'
        self.snap = {}  # slot -> snapshot at DONE
        self.recvs = 0
        self.step_of_level = {}
        self.est = {}
        self.restart_req = {}
        self.sent = {}
        self.pending_flag = {}

    def v(self, kind, **detail):
        self.viol.append(({'kind': kind, 'cfg': cfg_key(self.cfg)}, detail))


def cfg_key(cfg):
    return {k: cfg[k] for k in sorted(cfg) if k not in ('checks',)}


# ------------------------------------------------------------------------------------------------
# scripted sweeper: real generic_implicit, residual on the finest level in IT_CHECK comes from the explorer
# ------------------------------------------------------------------------------------------------
class ScriptedSweeper(generic_implicit):
    def compute_residual(self, stage=''):
        super().compute_residual(stage=stage)
        L = self.level
        cur = CUR
        if cur is None or L.level_index != 0 or stage != 'IT_CHECK':
            return None
        S = cur.step_of_level[id(L)]
        cfg = cur.cfg
        key = (cur.block, S.status.slot, S.status.iter)
        flag = None
        if cfg.get('forced'):
            # the flag for this (step, check) is drawn first so that the residual answer is only asked where the
            # real code can read it; ScriptedFlags applies the flag at control order 150
            c = cur.ctx.choose(3, f'flag b{cur.block} s{S.status.slot} c{S.status.iter}', 1)
            flag = {0: None, 1: 'done', 2: 'continue'}[c]
            cur.pending_flag[S.status.slot] = flag
            if flag:
                cur.forced[key] = flag
        sticky_done = any(v == 'done' for k, v in cur.forced.items() if k[0] == cur.block and k[1] == S.status.slot)
        if cfg.get('conv_mode', 'choose') == 'never' or L.params.restol < 0:
            conv = False
        elif flag != 'continue' and (S.status.iter >= S.params.maxiter or sticky_done):
            # the answer cannot be read: the budget test / forced stop alone decides (a changed test shows in niter)
            conv = False
        else:
            nans = bool(cfg.get('nan_answers'))
            ans = cur.ctx.choose(3 if nans else 2, f'conv b{cur.block} s{S.status.slot} c{S.status.iter}', cfg.get('conv_cost', 0))
            conv = (ans == 0) if (cfg.get('conv_flip') and ans != 2) else ans == 1  # conv_flip: the default answer is 'converged'
            if ans == 2:
                # a residual that is not a number (right-hand side left its domain, inf - inf): not below any tolerance
                cur.conv[key] = False
                L.status.residual = float('nan')
                return None
        cur.conv[key] = conv
        L.status.residual = 0.25 * RESTOL if conv else 4.0 * RESTOL
        return None


# ------------------------------------------------------------------------------------------------
# scripted forced flags (control order 150: after restarting/spreading, before CheckConvergence at 200)
# ------------------------------------------------------------------------------------------------
class ScriptedFlags(ConvergenceController):
    def setup(self, controller, params, description, **kwargs):
        return {'control_order': 150, **super().setup(controller, params, description, **kwargs)}

    def check_iteration_status(self, controller, S, **kwargs):
        cur = CUR
        if cur is None:
            return None
        flag = cur.pending_flag.pop(S.status.slot, None)
        if flag == 'done':
            S.status.force_done = True
        elif flag == 'continue':
            S.status.force_continue = True
        return None


# ------------------------------------------------------------------------------------------------
# recorder hook
# ------------------------------------------------------------------------------------------------
def _mk(name):
    def cb(self, step, level_number, **kwargs):
        getattr(Hooks, name)(self, step, level_number, **kwargs)
        cur = CUR
        if cur is None:
            return
        if step is None:
            cur.log.append((name, None, level_number, None, None, None))
            return
        L = step.levels[level_number if level_number is not None else 0]
        extra = None
        if name in ('pre_step', 'post_step'):
            L0 = step.levels[0]
            extra = {
                'dt': L0.dt,
                'restart': bool(step.status.get('restart')),
                'u0': np.asarray(L0.u[0]).tobytes() if L0.u[0] is not None else None,
                'u0_id': id(L0.u[0]),
                'uend': np.asarray(L0.uend).tobytes() if L0.uend is not None else None,
                'uend_id': id(L0.uend),
                'riar': step.status.get('restarts_in_a_row'),
                'dt_new': L0.status.dt_new,
                'err': L0.status.get('error_embedded_estimate'),
                'est': cur.est.get((cur.block, step.status.slot)),
                'rreq': cur.restart_req.get((cur.block, step.status.slot)),
                'time': L0.time,
                'block': cur.block,
                'first': step.status.first,
                'last': step.status.last,
                'residual': L0.status.residual,
                'work': {k: v.niter for k, v in L0.prob.work_counters.items()},
                'n_eval': getattr(L0.prob, 'n_eval', None),
                'n_solve': getattr(L0.prob, 'n_solve', None),
            }
        cur.log.append((name, step.status.slot, level_number, step.status.iter, L.time, extra))

    cb.__name__ = name
    return cb


class Recorder(Hooks):
    pass


for _n in (
    'pre_setup pre_run pre_predict pre_step pre_iteration pre_sweep pre_comm post_comm post_sweep '
    'post_iteration post_step post_predict post_run post_setup'
).split():
    setattr(Recorder, _n, _mk(_n))


# ------------------------------------------------------------------------------------------------
# observing controller
# ------------------------------------------------------------------------------------------------
def _bytes_level(L):
    parts = []
    for arr in (L.u, L.f):
        for x in arr:
            parts.append(None if x is None else x.tobytes())
    parts.append(None if L.uend is None else L.uend.tobytes())
    return tuple(parts)


def _snapshot(S):
    return (S.status.iter, tuple(_bytes_level(L) for L in S.levels))


class ObservingController(controller_nonMPI):
    def restart_block(self, active_slots, time, u0):
        cur = CUR
        if cur is not None:
            if 'recv' in cur.cfg['checks']:
                for rec in cur.sent.values():
                    self._check_unconsumed(cur, rec, 'end of block')
            cur.sent = {}
            cur.model_prev_done = {}  # the harness's own record: which steps know (in THIS block) that their predecessor finished
            cur.block += 1
            cur.macro = 0
            cur.snap = {}
            cur.active = list(active_slots)
            if cur.block > cur.cfg['max_blocks'] + 1:
                raise Horizon(f'more than {cur.cfg["max_blocks"]} blocks')
        return super().restart_block(active_slots, time, u0)

    def _check_unconsumed(self, cur, rec, why):
        if rec is not None and rec['consumed'] == 0 and rec['listening']:
            cur.v('transfer_never_consumed', sender=rec['slot'], level=rec['level'], tag=rec['tag'], stage=rec['stage'], noticed=why)

    def send_full(self, S, level=None, add_to_stats=False):
        cur = CUR
        Lv = S.levels[level]
        before = (Lv.tag, id(Lv.uend))
        super().send_full(S, level=level, add_to_stats=add_to_stats)
        if cur is not None and 'recv' in cur.cfg['checks'] and S.status.last and (Lv.tag, id(Lv.uend)) != before:
            # the last active step of a block has no receiver: it must not provide anything (providing = computing the
            # end value anew and stamping the tag)
            cur.v('transfer_without_receiver', sender=S.status.slot, level=level, tag=Lv.tag, stage=S.status.stage, active=list(cur.active))
        if cur is not None and 'recv' in cur.cfg['checks'] and not S.status.last:
            # bookkeeping for "every forward transfer is consumed": a transfer provided for a successor that is still
            # listening (not finished, predecessor not known to be finished) must be received exactly once before the
            # next transfer on that level replaces it
            key = (S.status.slot, level)
            self._check_unconsumed(cur, cur.sent.get(key), 'replaced by the next transfer on this level')
            succ = [T for T in self.MS if T.status.slot == S.status.slot + 1 and T.status.slot in cur.active]
            listening = bool(succ) and not getattr(cur, 'model_prev_done', {}).get(succ[0].status.slot, False) and not succ[0].status.done
            cur.sent[key] = {'slot': S.status.slot, 'level': level, 'tag': S.levels[level].tag, 'stage': S.status.stage, 'consumed': 0, 'listening': listening}

    def it_check(self, local_MS_running):
        super().it_check(local_MS_running)
        cur = CUR
        if cur is not None:
            pd = getattr(cur, 'model_prev_done', None)
            if pd is None:
                pd = cur.model_prev_done = {}
            for S in local_MS_running:
                if not S.status.first:
                    pd[S.status.slot] = bool(S.prev.status.done)

    def recv_full(self, S, level=None, add_to_stats=False):
        cur = CUR
        will = not S.status.prev_done and not S.status.first
        if cur is not None and will and 'recv' in cur.cfg['checks']:
            rec = cur.sent.get((S.prev.status.slot, level))
            if rec is None:
                cur.v('receive_without_transfer', slot=S.status.slot, level=level, stage=S.status.stage)
            else:
                rec['consumed'] += 1
                if rec['consumed'] > 1:
                    cur.v('transfer_consumed_twice', sender=rec['slot'], level=level, tag=rec['tag'], sent_in=rec['stage'], received_again_in=S.status.stage)
        if cur is not None and will and 'recv' in cur.cfg['checks']:
            src = S.prev.levels[level]
            want = (level, S.status.iter, S.prev.status.slot)
            if src.tag != want:
                cur.v('recv_tag', slot=S.status.slot, level=level, tag=src.tag, want=want, stage=S.status.stage)
            if S.prev.status.slot != S.status.slot - 1:
                cur.v('recv_sender', slot=S.status.slot, sender=S.prev.status.slot)
            # the sender's uend must be the end point of the node values it holds now (RADAU-RIGHT: last node)
            if src.uend is None or src.u[-1] is None or src.uend.tobytes() != src.u[-1].tobytes():
                cur.v('recv_stale_uend', slot=S.status.slot, level=level, stage=S.status.stage, iter=S.status.iter)
        super().recv_full(S, level=level, add_to_stats=add_to_stats)
        if cur is not None and will and 'recv' in cur.cfg['checks']:
            cur.recvs += 1
            tgt = S.levels[level]
            src = S.prev.levels[level]
            if tgt.u[0] is src.uend:
                cur.v('recv_alias', slot=S.status.slot, level=level)
            if tgt.u[0].tobytes() != src.uend.tobytes():
                cur.v('recv_value', slot=S.status.slot, level=level, stage=S.status.stage)
            f0 = tgt.prob.eval_f(tgt.u[0], tgt.time)
            if tgt.f[0] is None or f0.tobytes() != tgt.f[0].tobytes():
                cur.v('recv_f0_not_refreshed', slot=S.status.slot, level=level, stage=S.status.stage)

    def pfasst(self, local_MS_active):
        cur = CUR
        if cur is None:
            return super().pfasst(local_MS_active)
        cur.macro += 1
        if cur.macro > cur.cfg['max_macro']:
            raise Horizon(f'block {cur.block}: more than {cur.cfg["max_macro"]} macro steps')
        before = [S.status.stage for S in local_MS_active]
        res = super().pfasst(local_MS_active)
        checks = cur.cfg['checks']
        # canonical state for counting
        st = tuple(
            (
                S.status.slot,
                S.status.stage,
                S.status.iter,
                bool(S.status.done),
                bool(S.status.prev_done),
                bool(S.status.first),
                bool(S.status.last),
                bool(S.status.get('restart')),
                S.status.get('restarts_in_a_row'),
                tuple(L.tag for L in S.levels),
            )
            for S in local_MS_active
        )
        cur.states.append((cur.block if cur.cfg.get('state_block', False) else 0, st))
        if 'protocol' in checks:
            stages = [S.status.stage for S in local_MS_active]
            # (a) DONE steps form a prefix in slot order
            seen_running = False
            for S in local_MS_active:
                if S.status.stage != 'DONE':
                    seen_running = True
                elif seen_running:
                    cur.v('done_not_prefix', stages=stages, block=cur.block)
                    break
            # (b) running steps share one stage
            run = [s for s in stages if s != 'DONE']
            if len(set(run)) > 1:
                cur.v('stages_differ', stages=stages, block=cur.block)
            # (c) done flag and DONE stage agree
            for S in local_MS_active:
                if (S.status.stage == 'DONE') != bool(S.status.done):
                    cur.v('done_flag_vs_stage', slot=S.status.slot, stage=S.status.stage, done=S.status.done)
            # (d) frozen after DONE
            for S in local_MS_active:
                if S.status.stage == 'DONE':
                    snap = _snapshot(S)
                    old = cur.snap.get(S.status.slot)
                    if old is None:
                        cur.snap[S.status.slot] = snap
                    elif old != snap:
                        cur.v('done_step_changed', slot=S.status.slot, block=cur.block, macro=cur.macro)
            # (e) return value is "all done"
            if bool(res) != all(s == 'DONE' for s in stages):
                cur.v('block_done_flag', res=bool(res), stages=stages)
        return res


# ------------------------------------------------------------------------------------------------
# configuration -> description
# ------------------------------------------------------------------------------------------------
NODES_BY_LEVEL = {1: [3], 2: [3, 2], 3: [3, 2, 1]}


def default_cfg(**over):
    cfg = dict(
        P=2,
        K=2,
        L=1,
        nsweeps=1,
        predict=None,
        jac=True,
        all_to_done=False,
        forced=False,
        nblocks=1,
        dt=0.125,
        t0=0.0,
        Tend=None,
        conv_mode='choose',
        conv_cost=0,
        checks=('protocol', 'recv', 'grammar', 'model'),
        hooks=(),
        extra_cc=(),
        state_block=False,
    )
    cfg.update(over)
    return cfg


REGISTRY = {}


def register(cls):
    REGISTRY[cls.__name__] = cls
    return cls


class DiagnosticHook(Hooks):
    """A user hook that evaluates the right-hand side once after every step (as a hook computing an energy, a defect or
    an error against a numerically integrated reference does).  Listed after the hooks under test, so the work it causes
    happens between their post_step and the next pre_step: it belongs to no step."""

    def post_step(self, step, level_number):
        super().post_step(step, level_number)
        L = step.levels[0]
        L.prob.eval_f(L.uend, L.time + L.dt)


def resolve(name):
    if not isinstance(name, str):
        return name
    if name in REGISTRY:
        return REGISTRY[name]
    import importlib

    mod, _, cls = name.rpartition('.')
    return getattr(importlib.import_module(mod), cls)


def build(cfg):
    L = cfg['L']
    nodes = cfg.get('nodes') or NODES_BY_LEVEL[L]
    level_params = {'restol': RESTOL, 'dt': cfg['dt']}
    if L > 1:
        level_params['nsweeps'] = [cfg['nsweeps']] * (L - 1) + [1]
    else:
        level_params['nsweeps'] = cfg['nsweeps']
    sweeper_params = {'quad_type': cfg.get('quad_type', 'RADAU-RIGHT'), 'num_nodes': nodes if L > 1 else nodes[0], 'QI': 'LU'}
    problem_params = {'lambdas': np.array([-1.0 + 0.5j, -0.3]), 'u0': 1.0}
    description = {
        'problem_class': CountingProblem,
        'problem_params': problem_params,
        'sweeper_class': ScriptedSweeper,
        'sweeper_params': sweeper_params,
        'level_params': level_params,
        'step_params': {'maxiter': cfg['K']},
        'convergence_controllers': {},
    }
    if L > 1:
        description['space_transfer_class'] = IdentityTransfer
    if cfg.get('forced'):
        description['convergence_controllers'][ScriptedFlags] = {}
    if cfg.get('adaptive') is not None or cfg.get('restart_script'):
        import vf.env.adaptive  # noqa: F401  (registers the scripted controllers)
    if cfg.get('adaptive') is not None:
        if not cfg.get('nonconv'):
            level_params['restol'] = -1.0
        if cfg.get('adaptive_family') == 'polynomial':
            # restart_at_maxiter off: with the fixed-sweep harness "converged" means "budget used up"; with cfg['nonconv'] the
            # residual answers are scripted against a positive tolerance and a step that uses up its budget with a residual
            # above it is rejected as "collocation problem not converged"
            description['convergence_controllers'][resolve('ScriptedAdaptivityPolynomial')] = {'e_tol': 1.0, 'restart_at_maxiter': bool(cfg.get('nonconv')), **cfg['adaptive']}
        else:
            description['convergence_controllers'][resolve('ScriptedAdaptivity')] = {'e_tol': 1.0, **cfg['adaptive']}
    if cfg.get('restarting') is not None:
        from pySDC.implementations.convergence_controller_classes.basic_restarting import BasicRestartingNonMPI

        description['convergence_controllers'][BasicRestartingNonMPI] = dict(cfg['restarting'])
        if cfg.get('restarting_first'):
            # the user may list the controllers in either order; dependencies are then resolved in another order
            ccs = description['convergence_controllers']
            description['convergence_controllers'] = {BasicRestartingNonMPI: ccs.pop(BasicRestartingNonMPI), **ccs}
    if cfg.get('restart_script'):
        level_params['restol'] = -1.0
        # restart_late: the detector sits behind BasicRestarting in the control order (as the shipped AdaptivityCollocation, 220):
        # its flag is not passed on to the later steps of the block in the same check
        description['convergence_controllers'][resolve('ScriptedRestart')] = {'control_order': 220} if cfg.get('restart_late') else {}
    for cc, pars in cfg.get('cc', []):
        description['convergence_controllers'][resolve(cc)] = dict(pars)
    controller_params = {
        'logger_level': 90,
        'hook_class': [Recorder] + [resolve(h) for h in cfg.get('hook_classes', [])],
        'mssdc_jac': cfg['jac'],
        'predict_type': cfg['predict'],
        'all_to_done': cfg['all_to_done'],
        'dump_setup': False,
    }
    return controller_params, description


def horizon(cfg):
    nforce = 2 if cfg.get('forced') else 0
    cfg = dict(cfg)
    cfg.setdefault('max_macro', 3 + 5 * (cfg['K'] + nforce + 2))
    cfg.setdefault('max_blocks', cfg['nblocks'])
    return cfg


# ------------------------------------------------------------------------------------------------
# reference model of the block protocol (C07 / C03B)
# ------------------------------------------------------------------------------------------------
def model_block(P, K, conv, forced, all_to_done):
    """conv(p, c) -> bool answer given at check c of step p (False if never asked);
    forced(p, c) -> None | 'done' | 'continue'.   Returns niter per step (check index at which it finished)."""
    done_at = [None] * P
    force_done = [False] * P
    c = 0
    while any(d is None for d in done_at):
        own = []
        for p in range(P):
            if done_at[p] is not None:
                own.append(True)
                continue
            fl = forced(p, c)
            if fl == 'done':
                force_done[p] = True
            o = (conv(p, c) or c >= K or force_done[p]) and fl != 'continue'
            own.append(o)
        if all_to_done:
            running = [p for p in range(P) if done_at[p] is None]
            if all(own[p] for p in running):
                for p in running:
                    done_at[p] = c
        else:
            prev = True
            for p in range(P):
                if done_at[p] is not None:
                    continue
                d = own[p] and prev
                if d:
                    done_at[p] = c
                prev = d
        c += 1
        if c > K + 10:
            raise RuntimeError('model does not terminate')
    return done_at


GRAMMAR = re.compile(r'^S(Pp)?(I(Ww)+i)*E$')
CODE = {
    'pre_step': 'S',
    'pre_predict': 'P',
    'post_predict': 'p',
    'pre_iteration': 'I',
    'pre_sweep': 'W',
    'post_sweep': 'w',
    'post_iteration': 'i',
    'post_step': 'E',
}


def split_attempts(log):
    """Group the recorder log into step attempts: list of dicts(slot, block, events[(name, level, iter, time, extra)])."""
    open_ = {}
    attempts = []
    for name, slot, lvl, it, t, extra in log:
        if slot is None or name not in CODE:
            continue
        if name == 'pre_step':
            a = {'slot': slot, 'events': [], 'block': extra['block'], 'time': t, 'pre': extra}
            attempts.append(a)
            open_[slot] = a
        a = open_.get(slot)
        if a is None:
            a = {'slot': slot, 'events': [], 'block': None, 'time': t, 'pre': None, 'orphan': True}
            attempts.append(a)
            open_[slot] = a
        a['events'].append((name, lvl, it, t, extra))
        if name == 'post_step':
            a['post'] = extra
            a['niter_cb'] = sum(1 for e in a['events'] if e[0] == 'pre_iteration')
            a['iter_at_post'] = it
            del open_[slot]
    return attempts


def resolve_fn(name):
    import importlib

    mod, _, fn = name.partition(':')
    return getattr(importlib.import_module(mod), fn)


def instrument_adaptivity(cur, ctrl):
    """Observe (without changing) what the real adaptivity controllers use: the local error estimate and the arguments
    of compute_optimal_step_size per (block, slot)."""
    from pySDC.implementations.convergence_controller_classes.adaptivity import AdaptivityBase

    cur.real_prop = {}
    for C in ctrl.convergence_controllers:
        if not isinstance(C, AdaptivityBase):
            continue
        cur.real_adaptivity = C

        def wrap(C=C):
            g_new, g_est, g_opt = C.get_new_step_size, C.get_local_error_estimate, C.compute_optimal_step_size

            def get_new_step_size(controller, S, **kw):
                cur._slot = S.status.slot
                return g_new(controller, S, **kw)

            def get_local_error_estimate(controller, S, **kw):
                e = g_est(controller, S, **kw)
                cur.est[(cur.block, S.status.slot)] = e
                return e

            def compute_optimal_step_size(beta, dt, e_tol, e_est, order):
                out = g_opt(beta, dt, e_tol, e_est, order)
                cur.real_prop[(cur.block, getattr(cur, '_slot', None))] = (beta, dt, e_tol, e_est, order, out)
                return out

            C.get_new_step_size = get_new_step_size
            C.get_local_error_estimate = get_local_error_estimate
            C.compute_optimal_step_size = compute_optimal_step_size

        wrap()


class CountingProblem(testequation0d):
    """testequation0d that counts its own eval_f / solve_system calls (ground truth for the work statistics)."""

    def __init__(self, *args, **kwargs):
        super().__init__(*args, **kwargs)
        self.n_eval = 0
        self.n_solve = 0

    def eval_f(self, u, t):
        self.n_eval += 1
        return super().eval_f(u, t)

    def solve_system(self, rhs, factor, u0, t):
        self.n_solve += 1
        return super().solve_system(rhs, factor, u0, t)


class BlockRun:
    """Picklable harness: one execution of the real controller under the scripted environment."""

    def __init__(self, cfg):
        self.cfg = horizon(cfg)

    def __call__(self, ctx):
        global CUR
        cfg = self.cfg
        cur = Cur(ctx, cfg)
        CUR = cur
        outcome = None
        stats = None
        uend = None
        try:
            if cfg.get('factory'):
                cp, desc = resolve_fn(cfg['factory'])(cfg)
                cp['hook_class'] = [Recorder] + list(cp.get('hook_class', []))
            else:
                cp, desc = build(cfg)
            ctrl = ObservingController(num_procs=cfg['P'], controller_params=cp, description=desc)
            cur.controller = ctrl
            for S in ctrl.MS:
                for L in S.levels:
                    cur.step_of_level[id(L)] = S
            P0 = ctrl.MS[0].levels[0].prob
            if cfg.get('factory'):
                u0 = P0.u_exact(cfg['t0'])
                instrument_adaptivity(cur, ctrl)
            else:
                u0 = P0.dtype_u(P0.init, val=1.0)
                u0[:] = [1.0 + 0.25j, -0.5]
            cur.u0_bytes = u0.tobytes()
            cur.u0_obj = u0
            Tend = cfg['Tend'] if cfg['Tend'] is not None else cfg['t0'] + cfg['nblocks'] * cfg['P'] * cfg['dt']
            cur.Tend = Tend
            uend, stats = ctrl.run(u0=u0, t0=cfg['t0'], Tend=Tend)
            outcome = ('ok',)
        except Horizon as e:
            cur.v('non_termination', msg=str(e))
            outcome = ('horizon',)
        except (CommunicationError, ControllerError, UnlockError) as e:
            if cfg.get('nothing_to_do_ok') and isinstance(e, ControllerError) and 'Nothing to do' in str(e):
                outcome = ('nothing_to_do',)
            else:
                cur.v('protocol_exception', exc=type(e).__name__, msg=str(e)[:200])
                outcome = ('exc', type(e).__name__)
        except ConvergenceError as e:
            outcome = ('convergence_error',)
            cur.convergence_error = str(e)
        except (ReplayDivergence, KeyboardInterrupt):
            raise
        except Exception as e:  # noqa: the library under test crashed on an explored path
            import traceback

            tb = traceback.extract_tb(e.__traceback__)
            where = next((f'{fr.filename.split("/pySDC/")[-1]}:{fr.name}' for fr in reversed(tb) if '/pySDC/' in fr.filename), 'harness')
            if where == 'harness':
                raise
            cur.v('unexpected_exception', exc=type(e).__name__, msg=str(e)[:200], where=where)
            outcome = ('exc', type(e).__name__)
        finally:
            CUR = None
        cur.stats = stats
        cur.uend = uend
        cur.outcome0 = outcome
        checks = cfg['checks']
        attempts = split_attempts(cur.log)
        cur.attempts = attempts
        if outcome == ('ok',):
            if 'grammar' in checks:
                self.check_grammar(cur, attempts)
            if 'model' in checks:
                self.check_model(cur, attempts)
        for fn in cfg.get('post_checks', ()):
            mod, _, name = fn.partition(':')
            import importlib

            getattr(importlib.import_module(mod), name)(cur)
        if cfg.get('second_run') and outcome == ('ok',) and uend is not None:
            self.second_leg(cur, ctrl, uend)
        if cfg.get('debug'):
            print('\n'.join(describe(cur)))
            if cfg.get('debug_types') and stats is not None:
                for k in sorted(stats.keys(), key=lambda k: (str(k.type), k.time, k.num_restarts)):
                    if k.type in cfg['debug_types']:
                        v = stats[k]
                        print('   stat', k.type, 't=%r' % k.time, 'proc', k.process, 'iter', k.iter, 'nr', k.num_restarts, 'val', v if not hasattr(v, 'tobytes') else '<arr>')
        niters = tuple((a['block'], a['slot'], a.get('iter_at_post')) for a in attempts)
        self.last_cur = cur
        return Outcome(cur.viol, cur.states, (outcome, niters), extra=cur.extra if hasattr(cur, "extra") else None)

    def second_leg(self, cur, ctrl, uend):
        """A second run() on the same controller, continued from the value and time the first one reached; the same
        per-leg clause checks are applied to it (violations are tagged with leg=2)."""
        global CUR
        import importlib

        cfg = dict(cur.cfg)
        from vf.props._hist import accepted_chain

        acc = accepted_chain(cur)
        last = acc[-1]
        t0 = last['time'] + last['post']['dt']
        cfg['t0'] = t0
        cfg['Tend'] = t0 + cfg['second_run']
        import math

        # the horizon counts blocks over both runs; adaptive configurations bring their own (large) horizon
        cfg['max_blocks'] = max(cfg['max_blocks'], cur.block + int(math.ceil(cfg['second_run'] / (cfg['P'] * cfg['dt']))) + 1)
        cur2 = Cur(cur.ctx, cfg)
        cur2.block = cur.block
        cur2.is_second_leg = True
        cur2.controller = ctrl
        cur2.step_of_level = cur.step_of_level
        if hasattr(cur, 'real_prop'):
            cur2.real_prop = cur.real_prop
        cur2.u0_bytes = uend.tobytes()
        cur2.u0_obj = uend
        cur2.Tend = cfg['Tend']
        CUR = cur2
        outcome = None
        u2 = stats2 = None
        try:
            u2, stats2 = ctrl.run(u0=uend, t0=t0, Tend=cfg['Tend'])
            outcome = ('ok',)
        except Horizon as e:
            cur2.v('non_termination', msg=str(e))
            outcome = ('horizon',)
        except ConvergenceError:
            outcome = ('convergence_error',)
        except (ReplayDivergence, KeyboardInterrupt):
            raise
        except Exception as e:  # noqa
            cur2.v('unexpected_exception', exc=type(e).__name__, msg=str(e)[:200], where='second run')
            outcome = ('exc', type(e).__name__)
        finally:
            CUR = None
        cur2.stats, cur2.uend, cur2.outcome0 = stats2, u2, outcome
        cur2.attempts = split_attempts(cur2.log)
        if outcome == ('ok',):
            if 'grammar' in cfg['checks']:
                self.check_grammar(cur2, cur2.attempts)
            if 'model' in cfg['checks']:
                self.check_model(cur2, cur2.attempts)
        for fn in cfg.get('post_checks', ()):
            mod, _, name = fn.partition(':')
            getattr(importlib.import_module(mod), name)(cur2)
        for sig, det in cur2.viol:
            sig = dict(sig)
            sig['leg'] = 2
            cur.viol.append((sig, det))
        cur.states += cur2.states
        cur.attempts += cur2.attempts

    # ---- per-execution checks ---------------------------------------------------------------
    @staticmethod
    def check_grammar(cur, attempts):
        for a in attempts:
            s = ''.join(CODE[e[0]] for e in a['events'])
            if a.get('orphan') or not GRAMMAR.match(s):
                cur.v('callback_grammar', slot=a['slot'], block=a['block'], callbacks=s)
            # iteration numbers inside the attempt: pre_iteration carries 1,2,3..., post_step carries the count
            its = [e[2] for e in a['events'] if e[0] == 'pre_iteration']
            if its != list(range(1, len(its) + 1)):
                cur.v('iteration_numbering', slot=a['slot'], block=a['block'], iters=its)
            if 'post' in a and a['iter_at_post'] != a['niter_cb']:
                cur.v('niter_vs_callbacks', slot=a['slot'], block=a['block'], niter=a['iter_at_post'], callbacks=a['niter_cb'])

    @staticmethod
    def check_model(cur, attempts):
        cfg = cur.cfg
        from pySDC.helpers.stats_helper import get_sorted

        blocks = sorted({a['block'] for a in attempts})
        for b in blocks:
            att = [a for a in attempts if a['block'] == b]
            P = len(att)
            slots = [a['slot'] for a in att]
            if slots != list(range(P)):
                cur.v('block_slots', block=b, slots=slots)
                continue
            want = model_block(
                P,
                cfg['K'],
                lambda p, c: cur.conv.get((b, p, c), False),
                lambda p, c: cur.forced.get((b, p, c)),
                cfg['all_to_done'],
            )
            got = [a.get('iter_at_post') for a in att]
            if got != want:
                cur.v(
                    'niter_model',
                    block=b,
                    got=got,
                    want=want,
                    conv={f'{k[1]},{k[2]}': v for k, v in cur.conv.items() if k[0] == b},
                    forced={f'{k[1]},{k[2]}': v for k, v in cur.forced.items() if k[0] == b},
                )
            # completion order = slot order (post_step callbacks in non-decreasing check index, ties by slot)
            order = [e[1] for e in [(x[0], x[1]) for x in cur.log if x[0] == 'post_step' and x[5]['block'] == b]]
            if order != sorted(order):
                cur.v('completion_order', block=b, order=order)
            if cfg['all_to_done'] and len(set(got)) > 1:
                cur.v('all_to_done_niter', block=b, got=got)
            # budget: iter <= K unless continuation was forced
            nfc = sum(1 for k, v in cur.forced.items() if k[0] == b and v == 'continue')
            for a in att:
                if a.get('iter_at_post') is not None and a['iter_at_post'] > cfg['K'] and nfc == 0:
                    cur.v('budget_exceeded', block=b, slot=a['slot'], niter=a['iter_at_post'])
        # stats 'niter' agree with the recorder
        if cur.stats is not None and not cfg.get('restarts'):
            nit = get_sorted(cur.stats, type='niter', sortby='time')
            rec = sorted((a['time'], a.get('iter_at_post')) for a in attempts)
            if [(t, v) for t, v in nit] != rec:
                cur.v('niter_stats', stats=nit, recorder=rec)


def describe(cur):
    """Human-readable history of an execution (debugging / replay output)."""
    lines = []
    for a in cur.attempts:
        p = a.get('post') or {}
        lines.append(
            f"b{a['block']} s{a['slot']} t={a['time']!r} dt={a['pre']['dt']!r} riar={a['pre']['riar']} "
            f"restart={p.get('restart')} est={p.get('est')} dt_new={p.get('dt_new')} niter={a.get('iter_at_post')}"
        )
    return lines
