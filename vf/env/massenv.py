"""A finite-element-like linear problem with a non-trivial mass matrix, in plain numpy:  M u' = K u + M g(t).
Environment of the mass-matrix clause of C03 (imex_1st_order_mass + base_transfer_mass on several levels); the shipped
users of that sweeper need FEniCS, which this sandbox does not have."""

import numpy as np

from pySDC.core.problem import Problem
from pySDC.core.space_transfer import SpaceTransfer
from pySDC.implementations.datatype_classes.mesh import imex_mesh, mesh


class MassHeat(Problem):
    dtype_u = mesh
    dtype_f = imex_mesh

    def __init__(self, nvars=7, nu=0.5):
        super().__init__(init=(nvars, None, np.dtype('float64')))
        self._makeAttributeAndRegister('nvars', 'nu', localVars=locals(), readOnly=True)
        h = 1.0 / (nvars + 1)
        self.xvalues = np.linspace(h, 1.0 - h, nvars)
        e = np.ones(nvars)
        self.M = (np.diag(4 * e) + np.diag(e[:-1], 1) + np.diag(e[:-1], -1)) / 6.0
        self.K = -nu / h**2 * (np.diag(2 * e) - np.diag(e[:-1], 1) - np.diag(e[:-1], -1))
        self.fix_bc_for_residual = False

    def apply_mass_matrix(self, u):
        me = self.dtype_u(self.init)
        me[:] = self.M @ np.asarray(u)
        return me

    def eval_f(self, u, t):
        f = self.dtype_f(self.init)
        f.impl[:] = self.K @ np.asarray(u)
        f.expl[:] = self.M @ (np.cos(t) * np.sin(np.pi * self.xvalues))
        return f

    def solve_system(self, rhs, factor, u0, t):
        me = self.dtype_u(self.init)
        me[:] = np.linalg.solve(self.M - factor * self.K, np.asarray(rhs))
        return me

    def u_exact(self, t):
        me = self.dtype_u(self.init)
        me[:] = np.sin(np.pi * self.xvalues) + 0.3 * np.sin(3 * np.pi * self.xvalues)
        return me


class InjectionTransfer(SpaceTransfer):
    """nested grids (2n+1 -> n): project = injection of values; restrict acts on mass-weighted quantities (from the finest
    level: injection of M_f^-1 x, below: injection); prolong = linear interpolation"""

    def __init__(self, fine_prob, coarse_prob, params):
        super().__init__(fine_prob, coarse_prob, params)
        nf, nc = fine_prob.nvars, coarse_prob.nvars
        assert nf == 2 * nc + 1
        self.J = np.zeros((nc, nf))
        for i in range(nc):
            self.J[i, 2 * i + 1] = 1.0
        self.P = np.zeros((nf, nc))
        for i in range(nc):
            self.P[2 * i + 1, i] = 1.0
            self.P[2 * i, i] += 0.5
            self.P[2 * i + 2, i] += 0.5
        self.R = self.J @ np.linalg.inv(fine_prob.M) if nf == self.params.finest_nvars else self.J.copy()

    def project(self, F):
        G = self.coarse_prob.dtype_u(self.coarse_prob.init)
        G[:] = self.J @ np.asarray(F)
        return G

    def restrict(self, F):
        G = self.coarse_prob.dtype_u(self.coarse_prob.init)
        G[:] = self.R @ np.asarray(F)
        return G

    def prolong(self, G):
        F = self.fine_prob.dtype_u(self.fine_prob.init)
        F[:] = self.P @ np.asarray(G)
        return F
