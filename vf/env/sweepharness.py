"""Seam helpers for C02/C04: build a real Step/Level, write arbitrary node values, read them back, extract the
linear operator of a *problem* object by probing eval_f (the problem is environment, the sweeper is the code under test)."""

import numpy as np

from pySDC.core.step import Step


def build_level(problem_class, problem_params, sweeper_class, sweeper_params, dt, t0=0.0, sweep_index=1):
    desc = {
        'problem_class': problem_class,
        'problem_params': dict(problem_params),
        'sweeper_class': sweeper_class,
        'sweeper_params': dict(sweeper_params),
        'level_params': {'dt': dt},
        'step_params': {'maxiter': 1},
    }
    S = Step(desc)
    L = S.levels[0]
    L.status.time = t0
    L.status.unlocked = True
    L.status.sweep = sweep_index
    return S, L


def set_dt(L, dt):
    L.params.dt = dt


# ---- mesh-type problems ---------------------------------------------------------------------------------------------
def mk_u(P, vec):
    u = P.dtype_u(P.init)
    u[:] = np.asarray(vec).reshape(u.shape)
    return u


def rd(x):
    return np.array(np.asarray(x), copy=True).reshape(-1)


def comp_of(f, comp):
    return rd(f) if comp is None else rd(getattr(f, comp))


def probe_splits(P, comps, n, times_ref=(0.0,)):
    """For a problem with eval_f(u, t) affine in u: returns per component (A (n x n), g callable).  A is probed at
    times_ref[0]; g(t) = component of eval_f(0, t) (evaluated by the *problem*, at times the oracle asks for)."""
    t = times_ref[0]
    zero = mk_u(P, np.zeros(n))
    f0 = P.eval_f(zero, t)
    out = []
    for comp in comps:
        base = comp_of(f0, comp)
        A = np.zeros((n, n), dtype=base.dtype)
        for i in range(n):
            e = np.zeros(n)
            e[i] = 1.0
            A[:, i] = comp_of(P.eval_f(mk_u(P, e), t), comp) - base

        def g(tt, comp=comp):
            return comp_of(P.eval_f(mk_u(P, np.zeros(n)), tt), comp)

        out.append((A, g))
    return out


def write_state(L, P, Ufull, nodes, tau=None):
    """u[0..M] <- rows of Ufull, f[m] = eval_f(u[m], t_m), tau[m] (M rows) or None."""
    M = len(nodes)
    t0, dt = L.time, L.dt
    for m in range(M + 1):
        L.u[m] = mk_u(P, Ufull[m])
        tm = t0 if m == 0 else t0 + dt * nodes[m - 1]
        L.f[m] = P.eval_f(L.u[m], tm)
    for m in range(M):
        L.tau[m] = None if tau is None else mk_u(P, tau[m])
    L.uend = None
    L.status.unlocked = True
    L.status.updated = False


def read_u(L, M):
    return np.array([rd(L.u[m]) for m in range(M + 1)])


def read_f(L, M, comp):
    return np.array([comp_of(L.f[m], comp) for m in range(M + 1)])


# ---- particles-type problems ----------------------------------------------------------------------------------------
def mk_part(P, pos, vel):
    u = P.dtype_u(P.init)
    u.pos[:] = np.asarray(pos).reshape(u.pos.shape)
    u.vel[:] = np.asarray(vel).reshape(u.vel.shape)
    return u


def write_state_part(L, P, X, V, nodes, tau_x=None, tau_v=None):
    M = len(nodes)
    t0, dt = L.time, L.dt
    for m in range(M + 1):
        L.u[m] = mk_part(P, X[m], V[m])
        tm = t0 if m == 0 else t0 + dt * nodes[m - 1]
        L.f[m] = P.eval_f(L.u[m], tm)
    for m in range(M):
        L.tau[m] = None if tau_x is None else mk_part(P, tau_x[m], tau_v[m])
    L.uend = None
    L.status.unlocked = True


def read_part(L, M):
    X = np.array([rd(L.u[m].pos) for m in range(M + 1)])
    V = np.array([rd(L.u[m].vel) for m in range(M + 1)])
    return X, V
