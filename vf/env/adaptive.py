"""Scripted error estimates and direct restart requests for the E1 harness (C06/C09/C14).

ScriptedAdaptivity is the real `Adaptivity` convergence controller (real get_new_step_size / compute_optimal_step_size /
determine_restart / limiter dependencies) whose *only* override is `get_local_error_estimate`, which asks the explorer.
"""

from pySDC.core.convergence_controller import ConvergenceController
from pySDC.implementations.convergence_controller_classes.adaptivity import Adaptivity, AdaptivityPolynomialError

from vf.env import block

# multiples of e_tol; index 0 is the default answer (accept, moderate growth)
EST_ALPHABET = [0.5, 2.0, 0.01, 1.0, 100.0, 0.999]


@block.register
class ScriptedAdaptivity(Adaptivity):
    def get_local_error_estimate(self, controller, S, **kwargs):
        cur = block.CUR
        if cur is None:
            return super().get_local_error_estimate(controller, S, **kwargs)
        key = (cur.block, S.status.slot)
        if key not in cur.est:
            n = cur.cfg.get('est_n', len(EST_ALPHABET))
            c = cur.ctx.choose(n, f'est b{cur.block} s{S.status.slot}', 1)
            cur.est[key] = EST_ALPHABET[c] * self.params.e_tol
        return cur.est[key]


def _scripted_estimate(self, controller, S, **kwargs):
    cur = block.CUR
    if cur is None:
        return type(self).__mro__[1].get_local_error_estimate(self, controller, S, **kwargs)
    key = (cur.block, S.status.slot)
    if key not in cur.est:
        n = cur.cfg.get('est_n', len(EST_ALPHABET))
        c = cur.ctx.choose(n, f'est b{cur.block} s{S.status.slot}', 1)
        cur.est[key] = EST_ALPHABET[c] * self.params.e_tol
    return cur.est[key]


@block.register
class ScriptedAdaptivityPolynomial(AdaptivityPolynomialError):
    """The real AdaptivityPolynomialError (family 'adaptivity for converged collocation problems': restart decision only
    once the collocation problem counts as converged, interpolation between restarts, real EstimatePolynomialError as
    dependency) with only the number it reads as error estimate replaced by the explorer's answer."""

    get_local_error_estimate = _scripted_estimate


@block.register
class ScriptedRestart(ConvergenceController):
    """Raises S.status.restart directly (no step-size proposal) at any (block, slot); control order 94, i.e. just
    before BasicRestarting (95) propagates restarts."""

    def setup(self, controller, params, description, **kwargs):
        return {'control_order': 94, **super().setup(controller, params, description, **kwargs)}

    def determine_restart(self, controller, S, **kwargs):
        cur = block.CUR
        if cur is None:
            return None
        key = (cur.block, S.status.slot)
        if cur.cfg.get('restart_early'):
            # a detector that may raise the flag in ANY convergence check of the step (iteration >= 1), i.e. possibly
            # while the step and its predecessors are still iterating; asked once per check until it has fired
            if S.status.iter < 1:
                return None
            if not cur.restart_req.get(key):
                cur.restart_req[key] = cur.ctx.choose(2, f'rst b{cur.block} s{S.status.slot} k{S.status.iter}', 1) == 1
                if cur.restart_req[key]:
                    cur.restart_iter = getattr(cur, 'restart_iter', {})
                    cur.restart_iter[key] = S.status.iter
                    # raised once, in this check only: the flag has to survive on its own until the block ends
                    S.status.restart = True
            return None
        if S.status.iter < S.params.maxiter:
            return None
        if key not in cur.restart_req:
            cur.restart_req[key] = cur.ctx.choose(2, f'rst b{cur.block} s{S.status.slot}', 1) == 1
        if cur.restart_req[key]:
            S.status.restart = True
        return None
