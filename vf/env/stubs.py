"""Stub linear problem classes for the sweeper-algebra check (C02) and the order check (C04).

They are *environment*, not code under test: small dense linear constant-coefficient problems with an optional
time-dependent forcing g(t) = g0 + g1 t + g2 t^2 (so that a wrong node time in eval_f / solve_system is visible).
All matrix / vector parameters must be passed as numpy arrays (a python list would mean "one entry per level").
"""

import numpy as np

from pySDC.core.problem import Problem
from pySDC.implementations.datatype_classes.mesh import mesh, imex_mesh, comp2_mesh
from pySDC.implementations.datatype_classes.particles import particles, acceleration
from pySDC.projects.DAE.misc.problemDAE import ProblemDAE


def _poly(coeffs, t):
    """coeffs: (3, n) array -> g0 + g1 t + g2 t^2"""
    return coeffs[0] + coeffs[1] * t + coeffs[2] * t * t


def _z(n, dtype):
    return np.zeros((3, n), dtype=dtype)


class LinearDense(Problem):
    """u' = A u + g(t), one (implicit) part."""

    dtype_u = mesh
    dtype_f = mesh

    def __init__(self, A, g=None, dtype='float64'):
        A = np.asarray(A)
        n = A.shape[0]
        dt_ = np.dtype(dtype)
        super().__init__(init=(n, None, dt_))
        g = _z(n, dt_) if g is None else np.asarray(g)
        self._makeAttributeAndRegister('A', 'g', 'dtype', localVars=locals(), readOnly=True)
        self.n = n

    def eval_f(self, u, t):
        f = self.dtype_f(self.init)
        f[:] = self.A @ np.asarray(u) + _poly(self.g, t)
        return f

    def solve_system(self, rhs, factor, u0, t):
        me = self.dtype_u(self.init)
        me[:] = np.linalg.solve(np.eye(self.n) - factor * self.A, np.asarray(rhs) + factor * _poly(self.g, t))
        return me

    def u_exact(self, t):
        me = self.dtype_u(self.init)
        me[:] = 1.0
        return me


class LinearDenseIMEX(Problem):
    """u' = (AI u + gI(t)) + (AE u + gE(t))."""

    dtype_u = mesh
    dtype_f = imex_mesh

    def __init__(self, AI, AE, gI=None, gE=None, dtype='float64'):
        AI, AE = np.asarray(AI), np.asarray(AE)
        n = AI.shape[0]
        dt_ = np.dtype(dtype)
        super().__init__(init=(n, None, dt_))
        gI = _z(n, dt_) if gI is None else np.asarray(gI)
        gE = _z(n, dt_) if gE is None else np.asarray(gE)
        self._makeAttributeAndRegister('AI', 'AE', 'gI', 'gE', 'dtype', localVars=locals(), readOnly=True)
        self.n = n

    def eval_f(self, u, t):
        f = self.dtype_f(self.init)
        f.impl[:] = self.AI @ np.asarray(u) + _poly(self.gI, t)
        f.expl[:] = self.AE @ np.asarray(u) + _poly(self.gE, t)
        return f

    def solve_system(self, rhs, factor, u0, t):
        me = self.dtype_u(self.init)
        me[:] = np.linalg.solve(np.eye(self.n) - factor * self.AI, np.asarray(rhs) + factor * _poly(self.gI, t))
        return me

    def u_exact(self, t):
        me = self.dtype_u(self.init)
        me[:] = 1.0
        return me


class LinearMassIMEX(LinearDenseIMEX):
    """Mass u' = (AI u + gI) + (AE u + gE);  eval_f returns the right-hand side without Mass^-1,
    solve_system solves (Mass - factor AI) u = rhs + factor gI(t)  — the convention of the FEniCS problems."""

    fix_bc_for_residual = False

    def __init__(self, Mass, AI, AE, gI=None, gE=None, dtype='float64'):
        super().__init__(AI, AE, gI, gE, dtype)
        Mass = np.asarray(Mass)
        self._makeAttributeAndRegister('Mass', localVars=locals(), readOnly=True)

    def apply_mass_matrix(self, u):
        me = self.dtype_u(self.init)
        me[:] = self.Mass @ np.asarray(u)
        return me

    def solve_system(self, rhs, factor, u0, t):
        me = self.dtype_u(self.init)
        me[:] = np.linalg.solve(self.Mass - factor * self.AI, np.asarray(rhs) + factor * _poly(self.gI, t))
        return me


class LinearMulti(Problem):
    """u' = (A1 u + g1(t)) + (A2 u + g2(t)), both parts implicit (multi_implicit sweeper)."""

    dtype_u = mesh
    dtype_f = comp2_mesh

    def __init__(self, A1, A2, g1=None, g2=None, dtype='float64'):
        A1, A2 = np.asarray(A1), np.asarray(A2)
        n = A1.shape[0]
        dt_ = np.dtype(dtype)
        super().__init__(init=(n, None, dt_))
        g1 = _z(n, dt_) if g1 is None else np.asarray(g1)
        g2 = _z(n, dt_) if g2 is None else np.asarray(g2)
        self._makeAttributeAndRegister('A1', 'A2', 'g1', 'g2', 'dtype', localVars=locals(), readOnly=True)
        self.n = n

    def eval_f(self, u, t):
        f = self.dtype_f(self.init)
        f.comp1[:] = self.A1 @ np.asarray(u) + _poly(self.g1, t)
        f.comp2[:] = self.A2 @ np.asarray(u) + _poly(self.g2, t)
        return f

    def solve_system_1(self, rhs, factor, u0, t):
        me = self.dtype_u(self.init)
        me[:] = np.linalg.solve(np.eye(self.n) - factor * self.A1, np.asarray(rhs) + factor * _poly(self.g1, t))
        return me

    def solve_system_2(self, rhs, factor, u0, t):
        me = self.dtype_u(self.init)
        me[:] = np.linalg.solve(np.eye(self.n) - factor * self.A2, np.asarray(rhs) + factor * _poly(self.g2, t))
        return me


class LinearSecondOrder(Problem):
    """x'' = K x + g(t)  (force independent of the velocity), particles / acceleration data types."""

    dtype_u = particles
    dtype_f = acceleration

    def __init__(self, K, g=None, dtype='float64'):
        K = np.asarray(K)
        n = K.shape[0]
        dt_ = np.dtype(dtype)
        super().__init__(init=(n, None, dt_))
        g = _z(n, dt_) if g is None else np.asarray(g)
        self._makeAttributeAndRegister('K', 'g', 'dtype', localVars=locals(), readOnly=True)
        self.n = n

    def eval_f(self, u, t):
        me = self.dtype_f(self.init)
        me[:] = self.K @ np.asarray(u.pos) + _poly(self.g, t)
        return me

    def build_f(self, f, part, t):
        me = acceleration(self.init)
        me[:] = np.asarray(f)
        return me

    def u_exact(self, t):
        me = self.dtype_u(self.init)
        me.pos[:] = 1.0
        me.vel[:] = 0.0
        return me


class LinearDAE(ProblemDAE):
    """E u' = A u + g(t) on the flattened MeshDAE (2 x nvars) vector; eval_f returns the residual  E u' - A u - g(t).
    solve_system is a direct linear solve of the (affine) implicit system the sweeper hands over."""

    def __init__(self, E, A, g=None, nvars=2, semi_explicit=False):
        super().__init__(nvars=nvars, newton_tol=1e-14)
        E, A = np.asarray(E, dtype=float), np.asarray(A, dtype=float)
        N = 2 * nvars
        g = np.zeros((3, N)) if g is None else np.asarray(g, dtype=float)
        self._makeAttributeAndRegister('E', 'A', 'g', 'semi_explicit', localVars=locals(), readOnly=True)
        self.N = N

    def eval_f(self, u, du, t):
        f = self.dtype_f(self.init)
        r = self.E @ np.asarray(du).reshape(self.N) - self.A @ np.asarray(u).reshape(self.N) - _poly(self.g, t)
        f[:] = r.reshape(f.shape)
        return f

    def solve_system(self, impl_sys, u_approx, factor, u0, t):
        me = self.dtype_u(self.init)
        N = self.N

        def call(x):
            arg = self.dtype_u(self.init)
            arg[:] = x.reshape(arg.shape)
            return np.asarray(impl_sys(arg, self, factor, u_approx, t)).reshape(N).copy()

        r0 = call(np.zeros(N))
        J = np.zeros((N, N))
        for i in range(N):
            e = np.zeros(N)
            e[i] = 1.0
            J[:, i] = call(e) - r0
        x = np.linalg.solve(J, -r0)
        me[:] = x.reshape(me.shape)
        return me

    def du_exact(self, t):
        return self.dtype_u(self.init)

    def u_exact(self, t):
        return self.dtype_u(self.init)
