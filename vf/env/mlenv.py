"""Environment shared by C01 and C10: builds *real* pySDC descriptions (problem / sweeper / transfer classes of /repo) for
a symbolic configuration and, side by side, the matching oracle model from vf.oracle.colloc (which never touches pySDC).

The only class defined here that takes part in a run is `linear_split`, a two-component linear test problem for the
multi_implicit sweeper (pySDC ships no linear problem with solve_system_1/2); it is environment, not code under test.
"""

import numpy as np

from pySDC.core.errors import (
    CollocationError,
    ControllerError,
    ParameterError,
    ProblemError,
    TransferError,
)
from pySDC.core.hooks import Hooks
from pySDC.core.problem import Problem
from pySDC.implementations.controller_classes.controller_nonMPI import controller_nonMPI
from pySDC.implementations.datatype_classes.mesh import comp2_mesh, mesh
from pySDC.implementations.hooks.log_solution import LogSolution
from pySDC.implementations.problem_classes.AdvectionEquation_ND_FD import advectionNd
from pySDC.implementations.problem_classes.HeatEquation_ND_FD import heatNd_forced, heatNd_unforced
from pySDC.implementations.problem_classes.TestEquation_0D import test_equation_IMEX, testequation0d
from pySDC.implementations.sweeper_classes.explicit import explicit
from pySDC.implementations.sweeper_classes.generic_implicit import generic_implicit
from pySDC.implementations.sweeper_classes.imex_1st_order import imex_1st_order
from pySDC.implementations.sweeper_classes.multi_implicit import multi_implicit
from pySDC.implementations.transfer_classes.TransferMesh import mesh_to_mesh as TransferMesh
from pySDC.implementations.transfer_classes.TransferMesh_NoCoarse import mesh_to_mesh as TransferIdentity

from vf.oracle import colloc as oc

PYSDC_ERRORS = (CollocationError, ControllerError, ParameterError, ProblemError, TransferError)

SWEEPERS = {'gi': generic_implicit, 'imex': imex_1st_order, 'ex': explicit, 'mi': multi_implicit}

# fixed pools of generic, well-conditioned data; VERIF_SEED only selects which member is used
_POOL = [0.6180339887, 1.4142135624, 0.5772156649, 1.2020569032, 0.9159655942, 1.6449340668, 0.7390851332, 1.3247179572,
         0.8346268417, 1.1319882488, 0.6931471806, 1.0986122887, 0.5671432904, 1.4513692349, 0.7642236536, 1.2824271291]  # fmt: skip
_LAMBDAS = [
    np.array([-1.0 + 0.5j, -0.25 + 2.0j, -3.0 + 0.0j]),
    np.array([-0.5 - 1.0j, -2.0 + 0.75j, -0.125 + 1.5j]),
    np.array([-1.5 + 1.0j, -0.75 - 0.5j, -2.5 + 0.25j]),
]
_LAMBDAS_EXPL = [
    np.array([0.0 + 0.75j, 0.0 - 0.5j, 0.1 + 0.25j]),
    np.array([0.0 - 0.5j, -0.1 + 0.5j, 0.0 + 1.0j]),
    np.array([0.05 + 0.5j, 0.0 + 0.25j, 0.0 - 0.75j]),
]


def generic_vector(n, sel, cplx=False):
    v = np.array([_POOL[(i * 5 + 3 * sel) % len(_POOL)] * (-1.0 if (i + sel) % 3 == 0 else 1.0) for i in range(n)])
    if cplx:
        w = np.array([_POOL[(i * 7 + 2 * sel + 1) % len(_POOL)] for i in range(n)])
        return v + 0.5j * w
    return v


# ---------------------------------------------------------------------------------------------------------------------
class linear_split(Problem):
    """u' = A1 u + A2 u with dense matrices, both parts solved exactly (environment for the multi_implicit sweeper)"""

    dtype_u = mesh
    dtype_f = comp2_mesh

    def __init__(self, A1=None, A2=None):
        A1 = np.asarray(A1, dtype=float)
        A2 = np.asarray(A2, dtype=float)
        super().__init__(init=(A1.shape[0], None, np.dtype('float64')))
        self._makeAttributeAndRegister('A1', 'A2', localVars=locals(), readOnly=True)
        self.Id = np.eye(A1.shape[0])

    def eval_f(self, u, t):
        f = self.dtype_f(self.init)
        f.comp1[:] = self.A1 @ np.asarray(u)
        f.comp2[:] = self.A2 @ np.asarray(u)
        return f

    def solve_system_1(self, rhs, factor, u0, t):
        me = self.dtype_u(self.init)
        me[:] = np.linalg.solve(self.Id - factor * self.A1, np.asarray(rhs))
        return me

    def solve_system_2(self, rhs, factor, u0, t):
        me = self.dtype_u(self.init)
        me[:] = np.linalg.solve(self.Id - factor * self.A2, np.asarray(rhs))
        return me


def _circulant(first_col):
    n = len(first_col)
    return np.array([[first_col[(i - j) % n] for j in range(n)] for i in range(n)])


SPLIT_A1 = _circulant([-2.0, 1.0, 0.0, 1.0]) * 0.75  # diffusion-like, symmetric
SPLIT_A2 = _circulant([0.0, 0.5, 0.0, -0.5]) * 1.25 - 0.25 * np.eye(4)  # advection-like + damping, normal, commutes


# ---------------------------------------------------------------------------------------------------------------------
# problem registry: name -> builder(level_sizes) returning the pieces of the description and the oracle models
# ---------------------------------------------------------------------------------------------------------------------
class ProblemSetup:
    """problem_class, problem_params (dict with per-level python lists), per-level oracle LinearModel, u0 (numpy), transfer
    class + params, eigenvalue pairs (implicit, explicit) of the finest level for the contraction estimate"""

    def __init__(self, **kw):
        self.__dict__.update(kw)


def _fd_sizes(kind, nlev, space_coarsen):
    base = {'per': 16, 'dir': 15, 'per2d': 8, 'dir2d': 7}[kind]
    sizes = [base]
    for _ in range(1, nlev):
        if not space_coarsen:
            sizes.append(sizes[-1])
        elif kind in ('per', 'per2d'):
            sizes.append(sizes[-1] // 2)
        else:
            sizes.append((sizes[-1] - 1) // 2)
    return sizes


def problem_setup(name, nlev, space_coarsen, sel):
    """sel: integer picked from VERIF_SEED (generic data selection only)"""
    if name in ('dahl1', 'dahl3'):
        lam = _LAMBDAS[sel % 3][: (1 if name == 'dahl1' else 3)]
        models = [oc.LinearModel(np.diag(lam), label=name) for _ in range(nlev)]
        return ProblemSetup(
            cls=testequation0d, params={'lambdas': lam.copy()}, models=models, u0=generic_vector(len(lam), sel, cplx=True),
            transfer=TransferIdentity, transfer_params={}, eig=(lam, np.zeros_like(lam)), nvars=[(len(lam),)] * nlev, fd=None,
        )  # fmt: skip
    if name == 'dahl_imex':
        li, le = _LAMBDAS[sel % 3], _LAMBDAS_EXPL[sel % 3]
        models = [oc.LinearModel(np.diag(li), np.diag(le), label=name) for _ in range(nlev)]
        return ProblemSetup(
            cls=test_equation_IMEX, params={'lambdas_implicit': li.copy(), 'lambdas_explicit': le.copy()}, models=models,
            u0=generic_vector(3, sel, cplx=True), transfer=TransferIdentity, transfer_params={}, eig=(li, le),
            nvars=[(3,)] * nlev, fd=None,
        )  # fmt: skip
    if name == 'split':
        A1, A2 = SPLIT_A1, SPLIT_A2
        models = [oc.LinearModel(A1, A2, label=name) for _ in range(nlev)]
        ev = np.linalg.eigvals(A1 + A2)
        return ProblemSetup(
            cls=linear_split, params={'A1': A1.copy(), 'A2': A2.copy()}, models=models, u0=generic_vector(4, sel),
            transfer=TransferIdentity, transfer_params={}, eig=(ev, np.zeros_like(ev)), nvars=[(4,)] * nlev, fd=None,
        )  # fmt: skip

    # finite-difference problems -------------------------------------------------------------------------------------
    table = {
        #  name          class            kind     coefficient  derivative order stencil (pySDC, oracle)   forced
        'heat1d_per': (heatNd_unforced, 'per', 0.1, 2, 2, ('center', 'center'), False),
        'heat1d_per4': (heatNd_unforced, 'per', 0.1, 2, 4, ('center', 'center'), False),
        'heat1d_dir': (heatNd_unforced, 'dir', 0.3, 2, 2, ('center', 'center'), False),
        'heat2d_per': (heatNd_unforced, 'per2d', 0.05, 2, 2, ('center', 'center'), False),
        'heatf_per': (heatNd_forced, 'per', 0.1, 2, 2, ('center', 'center'), True),
        'heatf_dir': (heatNd_forced, 'dir', 0.3, 2, 2, ('center', 'center'), True),
        'adv_c2': (advectionNd, 'per', 0.5, 1, 2, ('center', 'center'), False),
        'adv_c4': (advectionNd, 'per', 0.5, 1, 4, ('center', 'center'), False),
        'adv_up1': (advectionNd, 'per', 0.5, 1, 1, ('upwind', 'upwind_backward'), False),
        'adv_up2': (advectionNd, 'per', 0.5, 1, 2, ('upwind', 'upwind_backward'), False),
    }
    cls, kind, coef, deriv, order, (st_impl, st_or), forced = table[name]
    ndim = 2 if kind.endswith('2d') else 1
    bc = 'periodic' if kind.startswith('per') else 'dirichlet-zero'
    sizes = _fd_sizes(kind, nlev, space_coarsen)
    nv = [tuple([n] * ndim) for n in sizes]
    freq = 2 if bc == 'periodic' else 1
    params = {
        'nvars': [n if ndim == 1 else (n,) * ndim for n in sizes],
        'freq': freq if ndim == 1 else (freq,) * ndim,
        'bc': bc,
        'order': order,
        'stencil_type': st_impl,
    }
    if cls is advectionNd:
        params['c'] = coef
        sign = -1.0
    else:
        params['nu'] = coef
        sign = 1.0
    models = []
    for v in nv:
        A = sign * coef * oc.fd_matrix(v, deriv, order, st_or, bc)
        g = oc.heat_forcing(v, (freq,) * ndim, coef, bc) if forced else None
        models.append(oc.LinearModel(A, None, g, label=name))
    n0 = int(np.prod(nv[0]))
    ev = np.linalg.eigvals(models[0].A)
    return ProblemSetup(
        cls=cls, params=params, models=models, u0=generic_vector(n0, sel), transfer=TransferMesh,
        transfer_params={'rorder': 2, 'iorder': 2, 'periodic': bc == 'periodic'}, eig=(ev, np.zeros_like(ev)), nvars=nv,
        fd={'bc': bc, 'ndim': ndim},
    )  # fmt: skip


# ---------------------------------------------------------------------------------------------------------------------
# recorder hook (plug-in point of the controller; observes only)
# ---------------------------------------------------------------------------------------------------------------------
REC = None  # dict collecting the observations of the current run (one run at a time per process)


class Recorder(Hooks):
    """pre_step numbers the steps in the order the controller starts them (blocks in order, slots in order within a
    block); post_step stores the fine-level state of the finished step under that number."""

    def pre_step(self, step, level_number):
        super().pre_step(step, level_number)
        if REC is None:
            return
        REC['index'][id(step)] = REC['count']
        REC['count'] += 1

    def post_step(self, step, level_number):
        super().post_step(step, level_number)
        if REC is None:
            return
        L = step.levels[0]
        REC['steps'].append(
            {
                'n': REC['index'].get(id(step)),
                'time': float(L.time),
                'dt': float(L.dt),
                'slot': int(step.status.slot),
                'iter': int(step.status.iter),
                'residual': None if L.status.residual is None else float(L.status.residual),
                'u': [None if u is None else np.array(u) for u in L.u],
                'uend': None if L.uend is None else np.array(L.uend),
            }
        )


def start_recording():
    global REC
    REC = {'index': {}, 'count': 0, 'steps': []}
    return REC


def stop_recording():
    global REC
    out, REC = REC, None
    return out
