"""C08 harness: real MPI classes of pySDC on the simulated mpi4py, compared with their serial counterparts.

`simmpi.install()` must have been called before this module is imported.
"""

import hashlib

import numpy as np

from vf.engine import simmpi

simmpi.install()

from pySDC.core.errors import ConvergenceError  # noqa: E402
from pySDC.helpers.stats_helper import filter_stats  # noqa: E402
from pySDC.implementations.controller_classes.controller_MPI import controller_MPI  # noqa: E402
from pySDC.implementations.controller_classes.controller_nonMPI import controller_nonMPI  # noqa: E402
from pySDC.implementations.convergence_controller_classes.adaptivity import Adaptivity  # noqa: E402
from pySDC.implementations.hooks.log_solution import LogSolution  # noqa: E402
from pySDC.implementations.problem_classes.HeatEquation_ND_FD import heatNd_unforced  # noqa: E402
from pySDC.implementations.problem_classes.TestEquation_0D import test_equation_IMEX, testequation0d  # noqa: E402
from pySDC.implementations.sweeper_classes.generic_implicit import generic_implicit  # noqa: E402
from pySDC.implementations.sweeper_classes.generic_implicit_MPI import generic_implicit_MPI  # noqa: E402
from pySDC.implementations.sweeper_classes.imex_1st_order import imex_1st_order  # noqa: E402
from pySDC.implementations.sweeper_classes.imex_1st_order_MPI import imex_1st_order_MPI  # noqa: E402
from pySDC.implementations.transfer_classes.BaseTransferMPI import base_transfer_MPI  # noqa: E402
from pySDC.implementations.transfer_classes.TransferMesh import mesh_to_mesh  # noqa: E402
from pySDC.implementations.transfer_classes.TransferMesh_NoCoarse import mesh_to_mesh as IdentityTransfer  # noqa: E402

from vf.engine.explore import Outcome  # noqa: E402

EST = {}  # script of error estimates for the running configuration: {(round(time, 9), round(dt, 9)): multiple of e_tol}


class TableAdaptivity(Adaptivity):
    """Real Adaptivity; the local error estimate is a fixed function of (start time, step size) given by cfg['script']
    (identical for the serial and the MPI run, independent of scheduling)."""

    def get_local_error_estimate(self, controller, S, **kwargs):
        L = S.levels[0]
        return EST.get((round(L.time, 9), round(L.dt, 9)), 0.5) * self.params.e_tol


def default_cfg(**over):
    cfg = dict(
        kind='time',  # 'time' (controller_MPI) | 'nodes' (MPI sweeper in controller_nonMPI) | 'spacetime'
        P=3,
        M=3,
        L=1,
        problem='dahlquist',
        sweeper='implicit',
        QI='LU',
        predict=None,
        jac=True,
        all_to_done=False,
        restol=1e-8,
        maxiter=5,
        dt=0.1,
        nsteps=4,  # Tend = nsteps * dt (a partially filled last block when nsteps % P != 0)
        residual_type='full_abs',
        initial_guess='spread',
        nsweeps=1,
        adaptive=None,  # {'e_tol':..., limiter...}
        restarting=None,
        script={},  # {(time, dt): multiple} rejections
        eager=False,
        early=False,
        finter=False,
        quad=('RADAU-RIGHT',),  # quadrature type per level (last entry repeating)
        node_type=('LEGENDRE',),  # node family per level
        do_coll_update=False,  # end value by quadrature of the right-hand sides instead of copying the last node
    )
    cfg.update(over)
    return cfg


def describe(cfg, sweeper_comm=None):
    """Fresh (controller_params, description) for cfg; `sweeper_comm` switches to the node-parallel sweepers."""
    L = cfg['L']
    M = cfg['M']
    if cfg['problem'] == 'dahlquist':
        pclass, pparams = testequation0d, {'lambdas': np.array([-1.0 + 0.5j, -0.3, 0.7j]), 'u0': 1.0}
    elif cfg['problem'] == 'imex':
        pclass, pparams = test_equation_IMEX, {'lambdas_implicit': np.array([-2.0, -0.5 + 1j]), 'lambdas_explicit': np.array([0.3j, -0.1]), 'u0': 1.0}
    elif cfg['problem'] == 'heat':
        pclass, pparams = heatNd_unforced, {'nvars': 8, 'nu': 0.1, 'freq': 2, 'bc': 'periodic'}
    else:
        raise KeyError(cfg['problem'])
    pparams = dict(pparams)
    if sweeper_comm is not None:
        sclass = generic_implicit_MPI if cfg['sweeper'] == 'implicit' else imex_1st_order_MPI
        nodes = M  # one rank per node on every level
    else:
        sclass = generic_implicit if cfg['sweeper'] == 'implicit' else imex_1st_order
        nodes = [M - i for i in range(L)] if (L > 1 and cfg['kind'] == 'time') else M
    quad, ntype = list(cfg.get('quad') or ('RADAU-RIGHT',)), list(cfg.get('node_type') or ('LEGENDRE',))
    sweeper_params = {'quad_type': quad if len(quad) > 1 else quad[0], 'node_type': ntype if len(ntype) > 1 else ntype[0], 'num_nodes': nodes, 'QI': cfg['QI'], 'initial_guess': cfg['initial_guess'], 'do_coll_update': bool(cfg.get('do_coll_update', False))}
    if cfg['sweeper'] == 'imex':
        sweeper_params['QE'] = 'PIC'
    if sweeper_comm is not None:
        sweeper_params['comm'] = sweeper_comm
    level_params = {'restol': cfg['restol'], 'dt': cfg['dt'], 'residual_type': cfg['residual_type']}
    if L > 1:
        level_params['nsweeps'] = [cfg['nsweeps']] * (L - 1) + [1]
    else:
        level_params['nsweeps'] = cfg['nsweeps']
    desc = {
        'problem_class': pclass,
        'problem_params': pparams,
        'sweeper_class': sclass,
        'sweeper_params': sweeper_params,
        'level_params': level_params,
        'step_params': {'maxiter': cfg['maxiter']},
        'convergence_controllers': {},
    }
    if L > 1:
        if cfg['problem'] == 'heat':
            pparams['nvars'] = [8, 4, 2][:L]
            desc['space_transfer_class'] = mesh_to_mesh
            desc['space_transfer_params'] = {'rorder': 2, 'iorder': 2, 'periodic': True}
        else:
            desc['space_transfer_class'] = IdentityTransfer
        desc['base_transfer_params'] = {'finter': cfg['finter']}
        if sweeper_comm is not None:
            desc['base_transfer_class'] = base_transfer_MPI
    if cfg['adaptive'] is not None:
        level_params['restol'] = -1.0
        # 'real_estimate': the shipped Adaptivity with its own (e.g. linearized) embedded error estimator, nothing scripted
        desc['convergence_controllers'][Adaptivity if cfg.get('real_estimate') else TableAdaptivity] = dict(cfg['adaptive'])
    if cfg['restarting'] is not None:
        from pySDC.implementations.convergence_controller_classes.basic_restarting import BasicRestarting

        # the flavour is chosen by the controller; parameters are given for both
        for useMPI in (False, True):
            desc['convergence_controllers'].setdefault(BasicRestarting.get_implementation(useMPI=useMPI), dict(cfg['restarting']))
    cp = {'logger_level': 90, 'dump_setup': False, 'hook_class': [LogSolution], 'predict_type': cfg['predict'], 'mssdc_jac': cfg['jac'], 'all_to_done': cfg['all_to_done']}
    return cp, desc


def _u0(prob):
    return prob.u_exact(0.0)


def observe(uend, stats):
    """Per-step observations, independent of which rank logged them."""
    obs = {}
    for typ in ('niter', 'restart', 'dt', 'u', 'residual_post_step'):
        rows = []
        for k, v in filter_stats(stats, type=typ).items():
            rows.append((k.time, k.num_restarts if k.num_restarts is not None else 0, k.process, np.asarray(v).copy() if hasattr(v, 'shape') else v))
        rows.sort(key=lambda r: (r[0], r[1]))
        obs[typ] = rows
    return {'uend': None if uend is None else np.asarray(uend).copy(), 'stats': obs}


def run_serial(cfg):
    global EST
    EST = {tuple(k): v for k, v in cfg['script']} if isinstance(cfg['script'], list) else dict(cfg['script'])
    if cfg['kind'] in ('time', 'spacetime'):
        cp, desc = describe(cfg)
        if cfg['restarting'] is not None:
            from pySDC.implementations.convergence_controller_classes.basic_restarting import BasicRestartingMPI

            desc['convergence_controllers'].pop(BasicRestartingMPI, None)
        ctrl = controller_nonMPI(num_procs=cfg['P'], controller_params=cp, description=desc)
    else:
        cp, desc = describe(cfg)
        _drop_mpi_restarting(cfg, desc)
        ctrl = controller_nonMPI(num_procs=1, controller_params=cp, description=desc)
    u0 = _u0(ctrl.MS[0].levels[0].prob)
    try:
        uend, stats = ctrl.run(u0=u0, t0=0.0, Tend=cfg['nsteps'] * cfg['dt'])
    except ConvergenceError:
        return {'error': 'ConvergenceError'}
    return observe(uend, stats)


def _drop_mpi_restarting(cfg, desc):
    """node-parallel sweepers run inside the serial controller: only the serial flavour of the restarting controller"""
    if cfg['restarting'] is not None:
        from pySDC.implementations.convergence_controller_classes.basic_restarting import BasicRestartingMPI

        desc['convergence_controllers'].pop(BasicRestartingMPI, None)


def make_rank_fn(cfg):
    def fn(rank, world):
        if cfg['kind'] == 'time':
            cp, desc = describe(cfg)
            if cfg['restarting'] is not None:
                from pySDC.implementations.convergence_controller_classes.basic_restarting import BasicRestartingNonMPI

                desc['convergence_controllers'].pop(BasicRestartingNonMPI, None)
            ctrl = controller_MPI(controller_params=cp, description=desc, comm=world)
            prob = ctrl.S.levels[0].prob
        elif cfg['kind'] == 'nodes':
            cp, desc = describe(cfg, sweeper_comm=world)
            _drop_mpi_restarting(cfg, desc)
            ctrl = controller_nonMPI(num_procs=1, controller_params=cp, description=desc)
            prob = ctrl.MS[0].levels[0].prob
        else:  # 'spacetime': world = P x M grid, time-major
            M = cfg['M']
            time_comm = world.Split(color=world.rank % M, key=world.rank // M)
            node_comm = world.Split(color=world.rank // M, key=world.rank % M)
            cp, desc = describe(cfg, sweeper_comm=node_comm)
            if cfg['restarting'] is not None:
                from pySDC.implementations.convergence_controller_classes.basic_restarting import BasicRestartingNonMPI

                desc['convergence_controllers'].pop(BasicRestartingNonMPI, None)
            ctrl = controller_MPI(controller_params=cp, description=desc, comm=time_comm)
            prob = ctrl.S.levels[0].prob
        u0 = _u0(prob)
        try:
            uend, stats = ctrl.run(u0=u0, t0=0.0, Tend=cfg['nsteps'] * cfg['dt'])
        except ConvergenceError:
            return {'error': 'ConvergenceError'}
        return observe(uend, stats)

    return fn


def nranks(cfg):
    return {'time': cfg['P'], 'nodes': cfg['M'], 'spacetime': cfg['P'] * cfg['M']}[cfg['kind']]


def _close(a, b, rtol=1e-13):
    a = np.asarray(a)
    b = np.asarray(b)
    if a.shape != b.shape:
        return False
    scale = max(float(np.max(np.abs(a))) if a.size else 0.0, float(np.max(np.abs(b))) if b.size else 0.0, 1e-300)
    return bool(np.max(np.abs(a - b)) <= rtol * scale) if a.size else True


def compare(cfg, serial, ranks):
    """-> list of (kind, detail). ranks: list of per-rank observations (None where the rank produced nothing)."""
    out = []
    if any(isinstance(r, dict) and 'error' in r for r in ranks) or 'error' in serial:
        errs = [r.get('error') if isinstance(r, dict) else None for r in ranks]
        # a rank whose steps all lie beyond Tend has left the run before the error is raised in the last block
        if 'error' in serial and any(e == serial['error'] for e in errs) and all(e in (serial['error'], None) for e in errs) and all(isinstance(r, dict) for r in ranks):
            return out
        out.append(('error_mismatch', {'serial': serial.get('error'), 'ranks': errs}))
        return out
    # merge rank statistics
    merged = {}
    for typ in serial['stats']:
        rows = []
        for r in ranks:
            rows += r['stats'][typ]
        if cfg['kind'] == 'nodes' or cfg['kind'] == 'spacetime':
            # every node rank logs the same step-level records: they must agree, keep one per (time, restarts, process)
            uniq = {}
            for row in rows:
                key = (row[0], row[1], row[2])
                if key in uniq:
                    if typ in ('niter', 'restart') and uniq[key][3] != row[3]:
                        out.append(('node_ranks_disagree', {'type': typ, 'key': key}))
                    elif typ not in ('niter', 'restart') and not _close(uniq[key][3], row[3]):
                        out.append(('node_ranks_disagree', {'type': typ, 'key': key}))
                else:
                    uniq[key] = row
            rows = list(uniq.values())
        rows.sort(key=lambda r: (r[0], r[1]))
        merged[typ] = rows
    # a residual is a difference of quantities of the size of the solution: its rounding error scales with |u|, not with
    # the residual itself (the reductions of the MPI flavour sum in another order than the serial loops)
    uscale = max([float(np.max(np.abs(np.asarray(r[3])))) for r in serial['stats'].get('u', []) if np.size(r[3])] + [1.0])
    for typ, srows in serial['stats'].items():
        mrows = merged[typ]
        if len(srows) != len(mrows):
            out.append(('record_count', {'type': typ, 'serial': len(srows), 'mpi': len(mrows), 'serial_times': [r[0] for r in srows][:12], 'mpi_times': [r[0] for r in mrows][:12]}))
            continue
        for s, m in zip(srows, mrows):
            if abs(s[0] - m[0]) > 8 * np.spacing(max(abs(s[0]), abs(m[0]), 1e-300)):
                out.append(('step_time', {'type': typ, 'serial': s[0], 'mpi': m[0]}))
                break
            if typ in ('niter', 'restart'):
                if s[3] != m[3]:
                    out.append((typ, {'time': s[0], 'serial': s[3], 'mpi': m[3]}))
                    break
            elif typ.startswith('residual') and float(np.max(np.abs(np.asarray(s[3]) - np.asarray(m[3])))) <= 1e-13 * uscale:
                continue
            elif not _close(s[3], m[3]):
                out.append((typ + '_value', {'time': s[0], 'max_diff': float(np.max(np.abs(np.asarray(s[3]) - np.asarray(m[3]))))}))
                break
    # returned value on every rank that takes part in the last block
    if cfg['kind'] == 'nodes':
        active = list(range(len(ranks)))
    else:
        P = cfg['P']
        n_last = cfg['nsteps'] % P or P
        if cfg['adaptive'] is not None:
            active = None  # block structure depends on the step sizes; use the ranks whose value agrees with rank 0's block
        else:
            active = [r for r in range(len(ranks)) if ((r // cfg['M']) if cfg['kind'] == 'spacetime' else r) < n_last]
    if active is None:
        active = [0]
    for r in active:
        if not _close(ranks[r]['uend'], serial['uend']):
            out.append(('returned_value', {'rank': r}))
            break
    return out


class MPIRun:
    """Explorer harness: one schedule of the simulated MPI run + comparison with the (cached) serial counterpart."""

    def __init__(self, cfg):
        self.cfg = cfg
        self.serial = None

    def __call__(self, ctx):
        global EST
        cfg = self.cfg
        if self.serial is None:
            try:
                self.serial = run_serial(cfg)
            except ZeroDivisionError:
                # a relative residual type on a level whose initial value is identically zero (e.g. the sine initial
                # condition sampled on a 2-point coarse grid): the serial reference itself is undefined, nothing to compare
                self.serial = {'skip': 'relative residual with zero initial value'}
        if 'skip' in self.serial:
            ctx.trace  # no choice points
            return Outcome([], [], ('skipped', self.serial['skip']), extra={'points': 0, 'counts': {}, 'unmatched_sends': None, 'unwaited': None})
        EST = {tuple(k): v for k, v in cfg['script']} if isinstance(cfg['script'], list) else dict(cfg['script'])
        n = nranks(cfg)
        sim = simmpi.Sim(n, ctx, eager=cfg['eager'], early_collectives=cfg['early'])
        sim.run(make_rank_fn(cfg))
        sim.final_checks()
        viol = []
        key = {k: cfg[k] for k in sorted(cfg) if k != 'script'}
        key['script'] = sorted([list(k) + [v] for k, v in EST.items()])
        for kind, det in sim.viol:
            viol.append(({'kind': kind, 'cfg': key}, det))
        errs = [e for e in sim.errors if e is not None]
        if errs:
            viol.append(({'kind': 'exception_on_rank', 'cfg': key, 'exc': type(errs[0]).__name__}, {'msg': str(errs[0])[:300]}))
        outcome = ('aborted', sim.abort_reason)
        if not sim.abort and not errs:
            diffs = compare(cfg, self.serial, sim.results)
            for kind, det in diffs:
                viol.append(({'kind': 'differs_from_serial:' + kind, 'cfg': key}, det))
            h = hashlib.sha1()
            for r in sim.results:
                if isinstance(r, dict) and r.get('uend') is not None:
                    h.update(np.asarray(r['uend']).tobytes())
                for typ in ('niter', 'dt'):
                    h.update(repr([(row[0], row[3]) for row in (r or {}).get('stats', {}).get(typ, [])]).encode())
            outcome = ('ok', h.hexdigest())
        extra = {'points': sim.npoints, 'counts': sim.counts, 'unmatched_sends': getattr(sim, 'unmatched_sends', None), 'unwaited': getattr(sim, 'unwaited', None)}
        return Outcome(viol, sim.states, outcome, extra=extra)
