"""C13 part 2 — run level: the caller's u0 and every logged / returned solution stay bitwise intact.

Lattice: sweeper class x problem x controller (controller_nonMPI with 1..3 steps and 1..2 levels where the sweeper
supports it, controller_ParaDiag_nonMPI with the QDiagonalization sweepers) x log hook (LogSolution,
LogSolutionAfterIteration) x poke (a hook that perturbs L.u[0] of the finest level in place at pre_step, like the
fault-injection hooks of pySDC do: level data belongs to the run, the caller's object does not).

Observation uses public plug-in points only: the recorder is a subclass of the log hook; after every callback it looks
for new type-'u' entries in its own stats (taking a byte snapshot of the object that was just logged) and compares
every entry logged so far with its snapshot.
"""

import numpy as np

from pySDC.implementations.controller_classes.controller_nonMPI import controller_nonMPI
from pySDC.implementations.controller_classes.controller_ParaDiag_nonMPI import controller_ParaDiag_nonMPI
from pySDC.implementations.hooks.log_solution import LogSolution, LogSolutionAfterIteration
from pySDC.implementations.problem_classes.TestEquation_0D import testequation0d, test_equation_IMEX
from pySDC.implementations.problem_classes.Van_der_Pol_implicit import vanderpol
from pySDC.implementations.problem_classes.HeatEquation_ND_FD import heatNd_unforced, heatNd_forced
from pySDC.implementations.problem_classes.HarmonicOscillator import harmonic_oscillator
from pySDC.implementations.problem_classes.PenningTrap_3D import penningtrap
from pySDC.implementations.problem_classes.AllenCahn_1D_FD import allencahn_periodic_multiimplicit
from pySDC.implementations.sweeper_classes.generic_implicit import generic_implicit
from pySDC.implementations.sweeper_classes.imex_1st_order import imex_1st_order
from pySDC.implementations.sweeper_classes.explicit import explicit
from pySDC.implementations.sweeper_classes.multi_implicit import multi_implicit
from pySDC.implementations.sweeper_classes.verlet import verlet
from pySDC.implementations.sweeper_classes.boris_2nd_order import boris_2nd_order
from pySDC.implementations.sweeper_classes.ParaDiagSweepers import QDiagonalization, QDiagonalizationIMEX
from pySDC.implementations.sweeper_classes import Runge_Kutta as RKmod
from pySDC.implementations.sweeper_classes import Runge_Kutta_Nystrom as RKNmod
from pySDC.implementations.sweeper_classes import Multistep as MSmod
from pySDC.implementations.transfer_classes.TransferMesh import mesh_to_mesh
from pySDC.implementations.transfer_classes.TransferMesh_NoCoarse import mesh_to_mesh as mesh_identity
from pySDC.implementations.transfer_classes.TransferParticles_NoCoarse import particles_to_particles
from pySDC.implementations.convergence_controller_classes.adaptivity import Adaptivity
from pySDC.implementations.convergence_controller_classes.interpolate_between_restarts import InterpolateBetweenRestarts
from pySDC.projects.DAE.problems.simpleDAE import SimpleDAE
from pySDC.projects.DAE.problems.discontinuousTestDAE import DiscontinuousTestDAE
from pySDC.projects.DAE.sweepers.fullyImplicitDAE import FullyImplicitDAE
from pySDC.projects.DAE.sweepers.semiImplicitDAE import SemiImplicitDAE
from pySDC.projects.DAE.sweepers import rungeKuttaDAE as RKDAEmod

from vf import common

CUR = None
HOOKS = {'LogSolution': LogSolution, 'LogSolutionAfterIteration': LogSolutionAfterIteration}
POKE = 2.0**-10


# ------------------------------------------------------------------------------------------------
# snapshots
# ------------------------------------------------------------------------------------------------
def snap(obj):
    """bitwise deep copy of a solution object (type name, shape, dtype, bytes per array member)"""
    if isinstance(obj, np.ndarray):
        return (type(obj).__name__, obj.shape, str(obj.dtype), np.ascontiguousarray(obj.view(np.ndarray)).tobytes())
    parts = []
    for name in ('pos', 'vel', 'q', 'm', 'elec', 'magn'):
        if hasattr(obj, name):
            parts.append((name,) + snap(getattr(obj, name)))
    if not parts:
        raise TypeError(f'cannot snapshot {type(obj)}')
    return (type(obj).__name__, tuple(parts))


def arrays_of(obj):
    if isinstance(obj, np.ndarray):
        return [obj.view(np.ndarray)]
    return [getattr(obj, n).view(np.ndarray) for n in ('pos', 'vel') if hasattr(obj, n)]


def describe(s):
    if len(s) == 4:
        return {'type': s[0], 'values': np.frombuffer(s[3], dtype=s[2]).reshape(s[1]).tolist()[:8]}
    return {'type': s[0], 'parts': {p[0]: describe(p[1:]) for p in s[1]}}


# ------------------------------------------------------------------------------------------------
# recorder
# ------------------------------------------------------------------------------------------------
class Cur:
    def __init__(self, cfg):
        self.cfg = cfg
        self.entries = {}  # key -> [seq, obj, snapshot, logged_at_event]
        self.order = []
        self.events = 0
        self.corrupt = []  # (seq, key, event name, event index)
        self.flagged = set()
        self.steps_after_first_log = 0
        self.caller = []  # (label, obj, snapshot)
        self.caller_bad = []

    def event(self, hook, name, step):
        self.events += 1
        for key, val in hook.return_stats().items():
            if key.type != 'u':
                continue
            e = self.entries.get(key)
            if e is None or e[1] is not val:
                self.entries[key] = [len(self.order), val, snap(val), f'{name}#{self.events}']
                self.order.append(key)
        if name == 'post_step' and self.order:
            self.steps_after_first_log += 1
        self.check(f'{name}#{self.events}', name)

    def check(self, where, name):
        for key, (seq, obj, s0, at) in self.entries.items():
            if seq in self.flagged:
                continue
            if snap(obj) != s0:
                self.flagged.add(seq)
                self.corrupt.append({'entry': seq, 'time': key.time, 'iter': key.iter, 'process': key.process, 'logged_at': at, 'first_seen_modified_at': where, 'event': name, 'logged': describe(s0), 'now': describe(snap(obj))})
        for label, obj, s0 in self.caller:
            if label not in self.flagged and snap(obj) != s0:
                self.flagged.add(label)
                self.caller_bad.append({'object': label, 'first_seen_modified_at': where, 'event': name, 'before': describe(s0), 'now': describe(snap(obj))})


def _mk(name):
    def cb(self, step, level_number, **kwargs):
        getattr(super(type(self), self), name)(step, level_number, **kwargs)
        cur = CUR
        if cur is None:
            return
        if name == 'pre_step' and cur.cfg.get('poke') and level_number == 0:
            u = step.levels[0].u[0]
            for a in arrays_of(u):
                np.add(a, POKE, out=a)  # in-place write into level data (not into anything the caller owns)
        cur.event(self, name, step)

    cb.__name__ = name
    return cb


CALLBACKS = ['pre_run', 'post_run', 'pre_step', 'post_step', 'pre_iteration', 'post_iteration', 'pre_sweep', 'post_sweep', 'pre_comm', 'post_comm', 'pre_predict', 'post_predict']


class RecLogSolution(LogSolution):
    pass


class RecLogSolutionAfterIteration(LogSolutionAfterIteration):
    pass


for _cls in (RecLogSolution, RecLogSolutionAfterIteration):
    for _n in CALLBACKS:
        setattr(_cls, _n, _mk(_n))
REC = {'LogSolution': RecLogSolution, 'LogSolutionAfterIteration': RecLogSolutionAfterIteration}


# ------------------------------------------------------------------------------------------------
# registry: sweeper families
# ------------------------------------------------------------------------------------------------
def _rk_classes(mod, base, exclude=()):
    out = []
    for n, c in sorted(vars(mod).items()):
        if isinstance(c, type) and issubclass(c, base) and c.__module__ == mod.__name__ and getattr(c, 'matrix', None) is not None and n not in exclude:
            out.append(n)
    return out


PROBLEMS = {
    'dahlquist': (testequation0d, lambda lv: {'lambdas': np.array([-1.0 + 0.5j, -0.25j, -3.0]), 'u0': 1.0}),
    'dahlquist_imex': (test_equation_IMEX, lambda lv: {'lambdas_implicit': np.array([-1.0, -0.5]), 'lambdas_explicit': np.array([0.25j, -0.125]), 'u0': 1.0}),
    'vdp': (vanderpol, lambda lv: {'newton_tol': 1e-10, 'newton_maxiter': 50, 'mu': 1.0, 'u0': np.array([1.0, 0.5]), 'crash_at_maxiter': False}),
    'heat': (heatNd_unforced, lambda lv: {'nvars': [7, 3][:lv] if lv > 1 else 7, 'nu': 0.1, 'freq': 1, 'bc': 'dirichlet-zero'}),
    'heat_forced': (heatNd_forced, lambda lv: {'nvars': [7, 3][:lv] if lv > 1 else 7, 'nu': 0.1, 'freq': 1, 'bc': 'dirichlet-zero'}),
    'allencahn_multi': (allencahn_periodic_multiimplicit, lambda lv: {'nvars': 8, 'dw': -0.04, 'eps': 0.3, 'newton_maxiter': 20, 'newton_tol': 1e-9, 'interval': (-0.5, 0.5), 'radius': 0.25, 'stop_at_nan': False}),
    'harmonic': (harmonic_oscillator, lambda lv: {'k': 1.0, 'mu': 0.1, 'u0': np.array([1.0, 0.5]), 'phase': 0.0, 'amp': 1.0}),
    'penning': (penningtrap, lambda lv: {'omega_E': 4.9, 'omega_B': 25.0, 'u0': np.array([[10, 0, 0], [100, 0, 100], [1], [1]], dtype=object), 'nparts': 1, 'sig': 0.1}),
    'simpleDAE': (SimpleDAE, lambda lv: {'newton_tol': 1e-10}),
    'discDAE': (DiscontinuousTestDAE, lambda lv: {'newton_tol': 1e-10}),
}
TRANSFER = {'dahlquist': mesh_identity, 'dahlquist_imex': mesh_identity, 'vdp': mesh_identity, 'heat': mesh_to_mesh, 'heat_forced': mesh_to_mesh, 'harmonic': particles_to_particles, 'penning': particles_to_particles, 'allencahn_multi': mesh_identity}
T0 = {'discDAE': 1.0}
DT = {'penning': 0.015625, 'allencahn_multi': 0.001}


def sweeper_table():
    """name -> (class, problem key, kind) ; kind in sdc | direct (RK, multistep: one step, one level) | paradiag"""
    t = {}
    t['generic_implicit'] = (generic_implicit, 'dahlquist', 'sdc')
    t['generic_implicit@vdp'] = (generic_implicit, 'vdp', 'sdc')
    t['generic_implicit@heat'] = (generic_implicit, 'heat', 'sdc')
    t['explicit'] = (explicit, 'dahlquist', 'sdc')
    t['imex_1st_order'] = (imex_1st_order, 'dahlquist_imex', 'sdc')
    t['imex_1st_order@heat'] = (imex_1st_order, 'heat_forced', 'sdc')
    t['multi_implicit'] = (multi_implicit, 'allencahn_multi', 'sdc')
    t['verlet'] = (verlet, 'harmonic', 'sdc')
    t['boris_2nd_order'] = (boris_2nd_order, 'penning', 'sdc')
    t['FullyImplicitDAE'] = (FullyImplicitDAE, 'simpleDAE', 'sdc1')
    t['SemiImplicitDAE'] = (SemiImplicitDAE, 'discDAE', 'sdc1')
    for n in _rk_classes(RKmod, RKmod.RungeKutta):
        c = getattr(RKmod, n)
        t[f'RK:{n}'] = (c, 'dahlquist_imex' if issubclass(c, RKmod.RungeKuttaIMEX) else 'dahlquist', 'direct')
    for n in ('BackwardEuler', 'CrankNicolson', 'DIRK43', 'ESDIRK53'):
        t[f'RK:{n}@vdp'] = (getattr(RKmod, n), 'vdp', 'direct')
    for n in ('RKN', 'Velocity_Verlet'):
        t[f'RKN:{n}'] = (getattr(RKNmod, n), 'penning', 'direct')
    for n in ('AdamsBashforthExplicit1Step', 'BackwardEuler', 'AdamsMoultonImplicit1Step', 'AdamsMoultonImplicit2Step'):
        t[f'Multistep:{n}'] = (getattr(MSmod, n), 'dahlquist', 'direct')
    for n in ('BackwardEulerDAE', 'TrapezoidalRuleDAE', 'EDIRK4DAE', 'DIRK43_2DAE'):
        t[f'RKDAE:{n}'] = (getattr(RKDAEmod, n), 'simpleDAE', 'direct')
    t['QDiagonalization'] = (QDiagonalization, 'dahlquist', 'paradiag')
    t['QDiagonalization@vdp'] = (QDiagonalization, 'vdp', 'paradiag')
    t['QDiagonalizationIMEX'] = (QDiagonalizationIMEX, 'dahlquist_imex', 'paradiag')
    return t


SWEEPERS = sweeper_table()


def lattice(tier):
    """list of run configurations (JSON-able dicts)"""
    out = []
    for name, (cls, prob, kind) in SWEEPERS.items():
        for hook in ('LogSolution', 'LogSolutionAfterIteration'):
            for poke in (False, True):
                if kind == 'direct':
                    out.append({'sweeper': name, 'controller': 'nonMPI', 'P': 1, 'L': 1, 'hook': hook, 'poke': poke, 'adapt': False})
                elif kind == 'paradiag':
                    for P in (1, 2, 3) if tier == 'thorough' else (1, 3):
                        out.append({'sweeper': name, 'controller': 'ParaDiag', 'P': P, 'L': 1, 'hook': hook, 'poke': poke, 'adapt': False})
                else:
                    Ls = (1, 2) if kind == 'sdc' and prob in TRANSFER else (1,)
                    for P in (1, 2, 3) if kind == 'sdc' else (1,):
                        for L in Ls:
                            if tier == 'quick' and P == 2 and L == 2:
                                continue
                            out.append({'sweeper': name, 'controller': 'nonMPI', 'P': P, 'L': L, 'hook': hook, 'poke': poke, 'adapt': False})
                    if name in ('generic_implicit@vdp', 'imex_1st_order', 'generic_implicit'):
                        for P in (1, 2):
                            for adapt in ('adaptivity', 'adaptivity+interpolate'):
                                out.append({'sweeper': name, 'controller': 'nonMPI', 'P': P, 'L': 1, 'hook': hook, 'poke': poke, 'adapt': adapt})
    return out


# ------------------------------------------------------------------------------------------------
def build(cfg):
    cls, prob, kind = SWEEPERS[cfg['sweeper']]
    pcls, pparams = PROBLEMS[prob]
    L = cfg['L']
    dt = DT.get(prob, 0.0625)
    sweeper_params = {'num_nodes': ([3, 2][:L] if L > 1 else 3), 'quad_type': 'RADAU-RIGHT'}
    if kind in ('sdc', 'sdc1') and cls not in (verlet, boris_2nd_order):
        sweeper_params['QI'] = 'LU'
    if cls in (verlet,):
        sweeper_params.update({'QI': 'IE', 'QE': 'EE'})
    if cls is multi_implicit:
        sweeper_params.update({'Q1': 'LU', 'Q2': 'LU'})
    if cls is imex_1st_order:
        sweeper_params['QE'] = 'EE'
    if kind == 'direct':
        sweeper_params = {}
        if cfg['sweeper'].startswith('Multistep'):
            sweeper_params = {'num_nodes': 1, 'quad_type': 'RADAU-RIGHT'}
    level_params = {'dt': dt}
    step_params = {'maxiter': 1 if kind == 'direct' else 3}
    if kind != 'direct' and not cfg.get('adapt'):
        level_params['restol'] = 1e-13
    description = {
        'problem_class': pcls,
        'problem_params': pparams(L),
        'sweeper_class': cls,
        'sweeper_params': sweeper_params,
        'level_params': level_params,
        'step_params': step_params,
    }
    if L > 1:
        description['space_transfer_class'] = TRANSFER[prob]
        if TRANSFER[prob] is mesh_to_mesh:
            description['space_transfer_params'] = {'rorder': 2, 'iorder': 2}
    if cfg.get('adapt'):
        description['convergence_controllers'] = {Adaptivity: {'e_tol': 1e-5, 'dt_max': dt}}
        if 'interpolate' in cfg['adapt']:
            description['convergence_controllers'][InterpolateBetweenRestarts] = {}
        description['step_params']['maxiter'] = 3
    controller_params = {'logger_level': 90, 'hook_class': [REC[cfg['hook']]], 'dump_setup': False}
    if cfg.get('adapt'):
        controller_params['mssdc_jac'] = False
    if L > 1 and cfg['P'] > 1:
        controller_params['predict_type'] = 'pfasst_burnin'
    if cfg['controller'] == 'ParaDiag':
        controller_params['alpha'] = 1e-4
        controller_params['mssdc_jac'] = False
        ctrl = controller_ParaDiag_nonMPI(num_procs=cfg['P'], controller_params=controller_params, description=description)
    else:
        ctrl = controller_nonMPI(num_procs=cfg['P'], controller_params=controller_params, description=description)
    return ctrl, dt, T0.get(prob, 0.0)


def run_one(cfg):
    """Returns dict(status, violations=[(signature, detail)], logged, steps, error)"""
    global CUR
    res = {'cfg': cfg, 'violations': [], 'logged': 0, 'steps_after_first_log': 0, 'status': 'ok'}
    try:
        ctrl, dt, t0 = build(cfg)
    except Exception as e:  # noqa: BLE001
        res['status'] = f'build_error {type(e).__name__}: {e}'
        return res
    P = ctrl.MS[0].levels[0].prob
    try:
        u0 = P.u_init() if hasattr(P, 'u_init') and type(P).__name__ in ('harmonic_oscillator', 'penningtrap') else P.u_exact(t0)
    except Exception as e:  # noqa: BLE001
        res['status'] = f'build_error {type(e).__name__}: {e}'
        return res
    cur = Cur(cfg)
    cur.caller.append(('u0', u0, snap(u0)))
    CUR = cur
    try:
        nblocks = 2
        T1 = t0 + nblocks * cfg['P'] * dt
        uend, stats = ctrl.run(u0, t0, T1)
        cur.check('after run 1', 'return')
        first = dict(cur.entries)
        n1 = len(cur.order)
        _final(cur, stats, res, 'run1')
        # second run on the same controller, continuing from the returned solution: uend is now the caller's object
        cur2 = Cur(cfg)
        cur2.caller.append(('u0', u0, snap(u0)))
        cur2.caller.append(('uend_of_run1_passed_as_u0', uend, snap(uend)))
        CUR = cur2
        uend2, stats2 = ctrl.run(uend, T1, T1 + 2 * cfg['P'] * dt)
        cur2.check('after run 2', 'return')
        _final(cur2, stats2, res, 'run2')
        # what the first run logged and returned is still in the caller's hands: the second run (two more blocks on the
        # same controller, state of sweepers and hooks carried over) may not have changed it
        nbad, ncb = len(cur.corrupt), len(cur.caller_bad)
        cur.caller.append(('value_returned_by_run1', uend, cur2.caller[1][2]))
        cur.check('after run 2 (entries logged by run 1)', 'return')
        if len(cur.corrupt) > nbad or len(cur.caller_bad) > ncb:
            late = Cur(cfg)
            late.corrupt, late.caller_bad, late.order = cur.corrupt[nbad:], cur.caller_bad[ncb:], cur.order
            _final(late, {}, res, 'run1, seen after run2')
        res['logged'] = n1 + len(cur2.order)
        res['steps_after_first_log'] = cur.steps_after_first_log + cur2.steps_after_first_log
        res['events'] = cur.events + cur2.events
    except Exception as e:  # noqa: BLE001
        res['status'] = f'run_error {type(e).__name__}: {str(e)[:200]}'
    finally:
        CUR = None
    return res


def sig_cfg(cfg):
    return {k: cfg[k] for k in ('sweeper', 'controller', 'P', 'L', 'hook', 'poke', 'adapt')}


def _final(cur, stats, res, label):
    cfg = cur.cfg
    for key, (seq, obj, s0, at) in cur.entries.items():
        if stats.get(key) is not obj and seq not in cur.flagged:
            # the returned stats hold another object under this key: compare that one, too
            if key in stats and snap(stats[key]) != s0:
                cur.flagged.add(seq)
                cur.corrupt.append({'entry': seq, 'time': key.time, 'iter': key.iter, 'process': key.process, 'logged_at': at, 'first_seen_modified_at': 'returned stats', 'event': 'return', 'logged': describe(s0), 'now': describe(snap(stats[key]))})
    if cur.corrupt:
        c = cur.corrupt[0]
        res['violations'].append(({'part': 'run', 'kind': 'logged_solution_modified', **sig_cfg(cfg)}, {'run': label, 'first': c, 'count': len(cur.corrupt), 'logged_total': len(cur.order)}))
    for b in cur.caller_bad:
        res['violations'].append(({'part': 'run', 'kind': 'caller_object_modified', 'object': b['object'], **sig_cfg(cfg)}, {'run': label, **b}))


def run_level(rep, tier):
    cfgs = lattice(tier)
    r = common.rng('c13runs')
    r.shuffle(cfgs)
    results = common.pmap(run_one, cfgs, chunksize=4)
    status = {}
    nontrivial = 0
    logged = 0
    bysweeper = {}
    viol = {}
    nviol = {}
    for res in results:
        st = res['status'].split(' ')[0]
        status[st] = status.get(st, 0) + 1
        bysweeper.setdefault(res['cfg']['sweeper'], set()).add(st)
        logged += res['logged']
        if res['status'] == 'ok' and (res['logged'] >= 2 or res['steps_after_first_log'] >= 2):
            nontrivial += 1
        for sig, det in res['violations']:
            fam = sig['sweeper'].split(':')[0].split('@')[0]
            key = common.canon([sig['kind'], sig.get('object'), fam])
            rank = (sig['P'], sig['L'], bool(sig['poke']), str(sig['adapt']), sig['hook'], sig['sweeper'])
            nviol[key] = nviol.get(key, 0) + 1
            if key not in viol or rank < viol[key][0]:
                viol[key] = (rank, sig, det, res['cfg'])
    # a cause in shared infrastructure (step, controller, data type) fails for most sweeper families: report it once
    nfam = len({n.split(':')[0].split('@')[0] for n in SWEEPERS})
    bykind = {}
    for key, v in viol.items():
        bykind.setdefault(common.canon([v[1]['kind'], v[1].get('object')]), []).append((key, v))
    for kk, items in sorted(bykind.items()):
        if len(items) > nfam // 2:
            key, (rank, sig, det, cfg) = min(items, key=lambda kv: kv[1][0])
            total = sum(nviol[k] for k, _ in items)
            rep.violation({**sig, 'scope': 'most sweeper families'}, {**det, 'failing_configurations_in_this_group': total, 'sweeper_families_affected': len(items), 'of': nfam}, {'part': 'run', 'cfg': cfg})
        else:
            for key, (rank, sig, det, cfg) in sorted(items):
                rep.violation(sig, {**det, 'failing_configurations_in_this_group': nviol[key]}, {'part': 'run', 'cfg': cfg})
    errors = sorted({f"{res['cfg']['sweeper']}: {res['status']}" for res in results if res['status'] != 'ok'})
    never_ran = sorted(s for s, sts in bysweeper.items() if 'ok' not in sts)
    if never_ran:
        # not a verdict by itself: the evidence says that these sweepers were not covered (exhaustive = False)
        rep.notes.append(f'run level: no configuration of {never_ran} ran: {errors[:5]}')
    ok = [res for res in results if res['status'] == 'ok']
    samples = [{'run_config': res['cfg'], 'logged_solutions': res['logged'], 'hook_events_checked': res.get('events')} for res in sorted(ok, key=lambda x: common.canon(x['cfg']))[:2]]
    return {
        'runs': len(results),
        'nontrivial': nontrivial,
        'capped': bool(never_ran),
        'samples': samples,
        'summary': {
            'configurations': len(cfgs),
            'status': status,
            'sweepers': len(SWEEPERS),
            'logged_solutions_checked': logged,
            'not_judged_errors': errors[:20],
        },
    }


def replay(rep, case):
    res = run_one(case['cfg'])
    for sig, det in res['violations']:
        rep.violation(sig, det, case)
    return res
