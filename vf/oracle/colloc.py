"""Independent reference models for C01 / C10 (collocation solution, FAS / multigrid-in-time algebra).

Nothing in this module imports or calls pySDC sweepers, controllers, transfer classes, problem classes or helpers.
Everything is assembled from scratch with `fractions.Fraction` (quadrature / interpolation / stencil coefficients, exact
in the given float nodes) and dense numpy linear algebra:

* `lagrange_Q(nodes)`            exact integrals of the Lagrange basis through the given nodes: Q[m, j] = int_0^{c_m} l_j,
                                 w[j] = int_0^1 l_j  (nodes are *read* from the collocation object by the callers)
* `interp_matrix(src, dst)`      exact Lagrange interpolation matrix between node sets (time transfer)
* `fd_matrix_1d / fd_matrix`     finite-difference matrices (periodic any centred order / one-sided upwind; homogeneous
                                 Dirichlet with second-order centred differences), `grid_1d`
* `space_interp_1d`              Lagrange mesh interpolation of even order k between nested equidistant 1-d grids
                                 (periodic wrap, or homogeneous-Dirichlet zero padding), restriction = 0.5 * transpose
* `LinearModel`                  u' = (A_I + A_E) u + g(t)  with the dense solve of the collocation system, end value,
                                 amplification and sensitivity norms needed for the C01 bound
* `qdelta_own`                   IE / LU / EE / PIC preconditioner matrices, written out from their definitions
* `MLModel`                      dense multilevel (FAS) iteration of a linear problem as one affine map on (U, F_I, F_E)
* nonlinear right-hand sides transcribed from the documented equations + Newton on the full collocation system
"""

from fractions import Fraction

import numpy as np

EPS = float(np.finfo(float).eps)


# ---------------------------------------------------------------------------------------------------------------------
# exact polynomial helpers (coefficients ascending, Fractions)
# ---------------------------------------------------------------------------------------------------------------------
def _pmul(a, b):
    out = [Fraction(0)] * (len(a) + len(b) - 1)
    for i, x in enumerate(a):
        if x == 0:
            continue
        for j, y in enumerate(b):
            out[i + j] += x * y
    return out


def _peval(p, x):
    acc = Fraction(0)
    for c in reversed(p):
        acc = acc * x + c
    return acc


def _pint(p):
    return [Fraction(0)] + [c / (k + 1) for k, c in enumerate(p)]


def _lagrange_basis(nodes):
    """list of coefficient lists of l_j through the (Fraction) nodes"""
    xs = [Fraction(x) for x in nodes]
    out = []
    for j, xj in enumerate(xs):
        p = [Fraction(1)]
        den = Fraction(1)
        for k, xk in enumerate(xs):
            if k == j:
                continue
            p = _pmul(p, [-xk, Fraction(1)])
            den *= xj - xk
        out.append([c / den for c in p])
    return out


def lagrange_Q(nodes, tleft=0.0, tright=1.0):
    """Q (M x M) with Q[m, j] = int_tleft^{c_m} l_j(s) ds and weights w[j] = int_tleft^tright l_j(s) ds, exact in the
    float nodes, rounded once to double."""
    xs = [Fraction(float(x)) for x in nodes]
    a, b = Fraction(float(tleft)), Fraction(float(tright))
    basis = _lagrange_basis(xs)
    M = len(xs)
    Q = np.zeros((M, M))
    w = np.zeros(M)
    for j, lj in enumerate(basis):
        P = _pint(lj)
        Pa = _peval(P, a)
        for m in range(M):
            Q[m, j] = float(_peval(P, xs[m]) - Pa)
        w[j] = float(_peval(P, b) - Pa)
    return Q, w


def interp_matrix(src, dst):
    """T[i, j] = l_j^{src}(dst_i): values on `src` nodes -> values on `dst` nodes (exact Lagrange interpolation)."""
    xs = [Fraction(float(x)) for x in src]
    basis = _lagrange_basis(xs)
    T = np.zeros((len(dst), len(src)))
    for i, y in enumerate(dst):
        fy = Fraction(float(y))
        for j, lj in enumerate(basis):
            T[i, j] = float(_peval(lj, fy))
    return T


def time_transfer(fine_nodes, coarse_nodes):
    """(Rcoll, Pcoll): fine-node values -> coarse-node values and back by Lagrange interpolation; the identity when the
    two node sets coincide. (Equal node *counts* with different node sets are not enumerated by C10: what the
    implementation does there is C11's subject.)"""
    f, c = np.asarray(fine_nodes, dtype=float), np.asarray(coarse_nodes, dtype=float)
    if len(f) == len(c) and np.allclose(f, c, rtol=0.0, atol=1e-14):
        return np.eye(len(f)), np.eye(len(f))
    return interp_matrix(f, c), interp_matrix(c, f)


# ---------------------------------------------------------------------------------------------------------------------
# finite differences
# ---------------------------------------------------------------------------------------------------------------------
def _solve_frac(Amat, rhs):
    n = len(rhs)
    A = [list(r) + [b] for r, b in zip(Amat, rhs)]
    for c in range(n):
        p = next(r for r in range(c, n) if A[r][c] != 0)
        A[c], A[p] = A[p], A[c]
        piv = A[c][c]
        A[c] = [x / piv for x in A[c]]
        for r in range(n):
            if r != c and A[r][c] != 0:
                fac = A[r][c]
                A[r] = [x - fac * y for x, y in zip(A[r], A[c])]
    return [A[r][n] for r in range(n)]


def fd_stencil(derivative, offsets):
    """weights c_k (Fractions, for unit mesh width) with sum_k c_k f(x + s_k h) = h^d f^(d)(x) + O(h^(n))"""
    s = [Fraction(int(o)) for o in offsets]
    n = len(s)
    fact = 1
    rows, rhs = [], []
    for p in range(n):
        if p > 0:
            fact *= p
        rows.append([x**p for x in s])
        rhs.append(Fraction(fact) if p == derivative else Fraction(0))
    return _solve_frac(rows, rhs)


def fd_offsets(derivative, order, stencil_type):
    if stencil_type == 'center':
        r = (derivative + order - 1) // 2
        return list(range(-r, r + 1))
    if stencil_type == 'upwind_backward':  # one-sided differences against the flow direction, orders 1 and 2
        return list(range(-(derivative + order - 1), 1))
    raise ValueError(stencil_type)


def grid_1d(n, bc):
    if bc == 'periodic':
        dx = 1.0 / n
        return dx, np.array([dx * i for i in range(n)])
    dx = 1.0 / (n + 1)
    return dx, np.array([dx * (i + 1) for i in range(n)])


def fd_matrix_1d(n, derivative, order, stencil_type, bc):
    """dense n x n matrix of d^derivative/dx^derivative on [0, 1]; bc 'periodic' or 'dirichlet-zero' (the latter only
    for the three-point second-order stencil, whose boundary rows simply lose the zero boundary value)."""
    dx, _ = grid_1d(n, bc)
    offs = fd_offsets(derivative, order, stencil_type)
    w = fd_stencil(derivative, offs)
    A = np.zeros((n, n))
    if bc == 'periodic':
        for i in range(n):
            for o, c in zip(offs, w):
                A[i, (i + o) % n] += float(c)
    elif bc == 'dirichlet-zero':
        assert max(abs(o) for o in offs) == 1, 'oracle covers homogeneous Dirichlet for three-point stencils only'
        for i in range(n):
            for o, c in zip(offs, w):
                if 0 <= i + o < n:
                    A[i, i + o] += float(c)
    else:
        raise ValueError(bc)
    return A / dx**derivative


def fd_matrix(nvars, derivative, order, stencil_type, bc):
    """nvars: tuple (1-3 entries, equal). C-order flattening: sum of Kronecker products."""
    n = nvars[0]
    A1 = fd_matrix_1d(n, derivative, order, stencil_type, bc)
    I = np.eye(n)
    if len(nvars) == 1:
        return A1
    if len(nvars) == 2:
        return np.kron(A1, I) + np.kron(I, A1)
    if len(nvars) == 3:
        return np.kron(np.kron(A1, I), I) + np.kron(np.kron(I, A1), I) + np.kron(np.kron(I, I), A1)
    raise ValueError(nvars)


def sine_product(nvars, freq, bc):
    """prod_i sin(pi k_i x_i) on the tensor grid, C-order flattened"""
    _, x = grid_1d(nvars[0], bc)
    out = np.ones(1)
    for k in freq:
        out = np.kron(out, np.sin(np.pi * k * x))
    return out


def heat_forcing(nvars, freq, nu, bc):
    """documented forcing of heatNd_forced: prod sin(pi k_i x_i) * (nu pi^2 sum k_i^2 cos t - sin t)"""
    s = sine_product(nvars, freq, bc)
    k2 = float(sum(k * k for k in freq))

    def g(t):
        return s * (nu * np.pi**2 * k2 * np.cos(t) - np.sin(t))

    return g


def spectral_matrices(n, L):
    """real n x n matrices of d/dx and d^2/dx^2 for trigonometric interpolation on n equidistant points of a period L,
    acting on real data through the half-complex transform (the first derivative of the Nyquist mode is zero)."""
    k = np.fft.fftfreq(n, d=1.0 / n) * 2 * np.pi / L
    F = np.fft.fft(np.eye(n), axis=0)
    k1 = k.copy()
    if n % 2 == 0:
        k1[n // 2] = 0.0
    D1 = np.real(np.fft.ifft((1j * k1)[:, None] * F, axis=0))
    D2 = np.real(np.fft.ifft((-(k**2))[:, None] * F, axis=0))
    return D1, D2


# ---------------------------------------------------------------------------------------------------------------------
# space transfer between nested equidistant grids
# ---------------------------------------------------------------------------------------------------------------------
def space_interp_1d(nf, nc, order, periodic):
    """Lagrange interpolation of even order `order` from the coarse to the fine grid.

    Positions in units of the fine mesh width. periodic: fine i at i, coarse j at 2j (nf = 2 nc). Dirichlet: fine i at
    i+1, coarse j at 2(j+1), boundary points 0 and nf+1 carry the value zero (nf = 2 nc + 1). A fine point that is a
    coarse point is copied; every other fine point uses the `order` consecutive (extended) coarse points centred on it,
    shifted inwards where the window would leave the closed interval (Dirichlet) or wrapped (periodic)."""
    k = int(order)
    P = np.zeros((nf, nc))
    if periodic:
        assert nf == 2 * nc and k <= nc, (nf, nc, k)
        for i in range(nf):
            if i % 2 == 0:
                P[i, i // 2] = 1.0
                continue
            lo = (i - 1) // 2 - k // 2 + 1  # window of k coarse indices centred on i
            idx = [lo + j for j in range(k)]
            pos = [Fraction(2 * jj) for jj in idx]
            basis = _lagrange_basis(pos)
            for jj, lj in zip(idx, basis):
                P[i, jj % nc] += float(_peval(lj, Fraction(i)))
        return P
    assert nf == 2 * nc + 1, (nf, nc)
    ext = nc + 2  # extended coarse points e = 0..nc+1 at positions 2e ; e = 0 and e = nc+1 are the boundary
    assert k <= ext
    for i in range(nf):
        x = i + 1
        if x % 2 == 0:
            P[i, x // 2 - 1] = 1.0
            continue
        lo = (x - 1) // 2 - k // 2 + 1
        lo = min(max(lo, 0), ext - k)
        idx = [lo + j for j in range(k)]
        basis = _lagrange_basis([Fraction(2 * e) for e in idx])
        for e, lj in zip(idx, basis):
            if 1 <= e <= nc:
                P[i, e - 1] += float(_peval(lj, Fraction(x)))
    return P


def space_transfer_mesh(nvars_f, nvars_c, iorder, rorder, periodic):
    """(Rspace, Pspace) dense for tuples nvars (tensor product). Restriction = 0.5 * (interpolation of order rorder)^T per
    dimension (full weighting scaling), identity if the sizes agree."""
    if tuple(nvars_f) == tuple(nvars_c):
        n = int(np.prod(nvars_f))
        return np.eye(n), np.eye(n)
    P1 = space_interp_1d(nvars_f[0], nvars_c[0], iorder, periodic)
    R1 = 0.5 * space_interp_1d(nvars_f[0], nvars_c[0], rorder, periodic).T
    P, R = P1, R1
    for _ in range(1, len(nvars_f)):
        P = np.kron(P, P1)
        R = np.kron(R, R1)
    return R, P


def injection(nf, nc):
    r = nf // nc
    R = np.zeros((nc, nf))
    for j in range(nc):
        R[j, j * r] = 1.0
    return R


# ---------------------------------------------------------------------------------------------------------------------
# preconditioners written out from their definitions (M x M part, no zero-th row / column)
# ---------------------------------------------------------------------------------------------------------------------
def qdelta_own(name, nodes, Q, tleft=0.0):
    M = len(nodes)
    d = np.diff(np.concatenate(([tleft], np.asarray(nodes, dtype=float))))
    if name == 'IE':  # implicit Euler from node to node
        return np.array([[d[j] if j <= m else 0.0 for j in range(M)] for m in range(M)])
    if name == 'EE':  # explicit Euler from node to node (the left end point's column is not part of the M x M block)
        return np.array([[d[j + 1] if j < m else 0.0 for j in range(M)] for m in range(M)])
    if name == 'PIC':
        return np.zeros((M, M))
    if name == 'LU':  # Q^T = L U without pivoting, QD = U^T
        A = np.array(Q, dtype=float).T.copy()
        n = M
        Lm = np.eye(n)
        for c in range(n):
            for r in range(c + 1, n):
                if A[c, c] == 0.0:
                    raise ZeroDivisionError('LU without pivoting breaks down')
                Lm[r, c] = A[r, c] / A[c, c]
                A[r, :] -= Lm[r, c] * A[c, :]
        return np.triu(A).T
    raise KeyError(name)


def lu_pivot_free(Q):
    """True iff Gaussian elimination of Q^T with partial pivoting never permutes (every pivot is the strict column
    maximum), i.e. the pivoted and the unpivoted factorisation coincide"""
    A = np.array(Q, dtype=float).T.copy()
    n = A.shape[0]
    for c in range(n):
        col = np.abs(A[c:, c])
        if col[0] == 0.0 or (len(col) > 1 and col[0] <= np.max(col[1:]) * (1 + 1e-12)):
            return False
        for r in range(c + 1, n):
            A[r, :] -= A[r, c] / A[c, c] * A[c, :]
    return True


# ---------------------------------------------------------------------------------------------------------------------
# linear model problems and the collocation solve
# ---------------------------------------------------------------------------------------------------------------------
class LinearModel:
    """u' = A u + g(t), A = AI + AE dense (N x N, real or complex), g: callable t -> vector or None."""

    def __init__(self, AI, AE=None, g=None, label=''):
        self.AI = np.asarray(AI)
        self.AE = np.zeros_like(self.AI) if AE is None else np.asarray(AE)
        self.A = self.AI + self.AE
        self.N = self.A.shape[0]
        self.g = g
        self.label = label

    def G(self, t0, dt, nodes):
        if self.g is None:
            return np.zeros((len(nodes), self.N), dtype=self.A.dtype)
        return np.array([self.g(t0 + dt * c) for c in nodes])


class CollocationStep:
    """Dense model of one time step of the collocation problem on given nodes for a LinearModel.

    U (M x N) solves  U = 1 (x) u0 + dt (Q (x) A) U + dt (Q (x) I) G.
    End value: 'copy' -> U[M-1]  (right end point is a node and no collocation update),
               'quad' -> u0 + dt sum_m w_m (A U_m + g_m)."""

    def __init__(self, model, nodes, dt, end_mode):
        self.model = model
        self.nodes = np.asarray(nodes, dtype=float)
        self.M = len(nodes)
        self.N = model.N
        self.dt = float(dt)
        self.Q, self.w = lagrange_Q(self.nodes)
        self.end_mode = end_mode
        M, N, A = self.M, self.N, model.A
        self.C = np.eye(M * N, dtype=A.dtype) - self.dt * np.kron(self.Q, A)
        self.Cinv = np.linalg.inv(self.C)
        one = np.kron(np.ones((M, 1)), np.eye(N))  # u0 -> 1 (x) u0
        self.one = one
        if end_mode == 'copy':
            E = np.zeros((N, M * N), dtype=A.dtype)
            E[:, (M - 1) * N :] = np.eye(N)
            self.E_U, self.E_u0 = E, np.zeros((N, N), dtype=A.dtype)
        else:
            self.E_U = self.dt * np.kron(self.w[None, :], A)
            self.E_u0 = np.eye(N, dtype=A.dtype)
        # amplification of the incoming value and sensitivity of the end value / node values w.r.t. a defect
        self.R = self.E_U @ self.Cinv @ one + self.E_u0
        self.amp = max(1.0, float(np.linalg.norm(self.R, np.inf)))
        self.gain_end = float(np.linalg.norm(self.E_U @ self.Cinv, np.inf))
        self.gain_nodes = float(np.linalg.norm(self.Cinv, np.inf))
        self.cond = float(np.linalg.norm(self.C, np.inf) * self.gain_nodes)

    def solve(self, u0, t0):
        M, N = self.M, self.N
        G = self.model.G(t0, self.dt, self.nodes)
        rhs = self.one @ u0 + self.dt * (np.kron(self.Q, np.eye(N)) @ G.reshape(M * N))
        U = (self.Cinv @ rhs).reshape(M, N)
        # one step of iterative refinement with the un-inverted matrix
        res = rhs - self.C @ U.reshape(M * N)
        U = U + (self.Cinv @ res).reshape(M, N)
        return U, self.end_value(u0, U, G)

    def end_value(self, u0, U, G):
        if self.end_mode == 'copy':
            return U[-1].copy()
        F = U @ self.model.A.T + G
        return u0 + self.dt * (self.w @ F)

    def defect(self, u0, U, t0):
        """full collocation defect 1 (x) u0 + dt Q F(U) - U for given node values (M x N)"""
        G = self.model.G(t0, self.dt, self.nodes)
        F = U @ self.model.A.T + G
        return u0[None, :] + self.dt * (self.Q @ F) - U


def sweep_spectral_radius(Q, QI, QE, lam_I, lam_E, dt):
    """max over the given eigenvalue pairs of the spectral radius of the (IMEX) sweep iteration matrix
    (I - dt (lI QI + lE QE))^-1 dt ((lI + lE) Q - lI QI - lE QE); normal matrices with common eigenvectors assumed."""
    M = Q.shape[0]
    rho = 0.0
    for lI, lE in zip(lam_I, lam_E):
        lhs = np.eye(M) - dt * (lI * QI + lE * QE)
        rhs = dt * ((lI + lE) * Q - lI * QI - lE * QE)
        try:
            K = np.linalg.solve(lhs, rhs)
            r = float(np.max(np.abs(np.linalg.eigvals(K))))
        except np.linalg.LinAlgError:
            r = np.inf
        if not np.isfinite(r):
            return np.inf
        rho = max(rho, r)
    return rho


# ---------------------------------------------------------------------------------------------------------------------
# multilevel (FAS) iteration of a linear problem as an affine map, assembled with dense matrices
# ---------------------------------------------------------------------------------------------------------------------
class LevelModel:
    def __init__(self, nodes, AI, AE, QI_name, QE_name, dt, imex, G=None):
        """G: (M x N) values of a solution-independent forcing at the nodes (part of the explicit right-hand side)"""
        self.nodes = np.asarray(nodes, dtype=float)
        self.M = len(nodes)
        self.AI = np.asarray(AI)
        self.AE = np.asarray(AE)
        self.N = self.AI.shape[0]
        self.n = self.M * self.N
        self.dt = float(dt)
        self.Q, self.w = lagrange_Q(self.nodes)
        self.QI = qdelta_own(QI_name, self.nodes, self.Q)
        self.QE = qdelta_own(QE_name, self.nodes, self.Q) if imex else np.zeros_like(self.Q)
        self.imex = imex
        I = np.eye(self.N)
        self.kQ = np.kron(self.Q, I)
        self.kQI = np.kron(self.QI, I)
        self.kQE = np.kron(self.QE, I)
        self.kAI = np.kron(np.eye(self.M), self.AI)
        self.kAE = np.kron(np.eye(self.M), self.AE)
        self.Sinv = np.linalg.inv(np.eye(self.n) - self.dt * np.kron(self.QI, self.AI) - self.dt * np.kron(self.QE, self.AE))
        self.one = np.kron(np.ones((self.M, 1)), I)
        self.G = np.zeros(self.n) if G is None else np.asarray(G).reshape(self.n)


class MLModel:
    """One multilevel iteration (restrict down with FAS corrections and intermediate sweeps, sweep on the coarsest level,
    prolong the corrections up with intermediate sweeps, sweep on the finest level) of a linear problem, assembled as
    matrices acting on x = [U_0 ; FI_0 ; FE_0 ; 1] (finest level node values, right-hand side values, constant).

    Every quantity is carried as a matrix with `dim` columns (its affine dependence on x); stages are matrix products, so
    `iteration()` returns the multigrid-in-time iteration matrix (plus the offset column)."""

    def __init__(self, levels, Rt, Pt, Rs, Ps, u0, nsweeps, finter):
        self.lv = levels
        self.L = len(levels)
        self.Rt, self.Pt, self.Rs, self.Ps = Rt, Pt, Rs, Ps  # lists over level pairs (l, l+1)
        self.R = [np.kron(Rt[i], Rs[i]) for i in range(self.L - 1)]
        self.P = [np.kron(Pt[i], Ps[i]) for i in range(self.L - 1)]
        self.nsweeps = list(nsweeps)
        self.finter = finter
        n0 = levels[0].n
        self.n0 = n0
        self.dim = 3 * n0 + 1
        self.dtype = np.result_type(levels[0].AI.dtype, levels[0].AE.dtype, np.asarray(u0).dtype, float)
        self.trace = []
        Z = np.zeros((n0, self.dim), dtype=self.dtype)
        self.U0 = Z.copy()
        self.U0[:, :n0] = np.eye(n0)
        self.FI0 = Z.copy()
        self.FI0[:, n0 : 2 * n0] = np.eye(n0)
        self.FE0 = Z.copy()
        if levels[0].imex:
            self.FE0[:, 2 * n0 : 3 * n0] = np.eye(n0)
        # initial values per level: u0 on the finest level, restricted in space below
        self.u0 = [np.asarray(u0, dtype=self.dtype)]
        for i in range(self.L - 1):
            self.u0.append(Rs[i] @ self.u0[-1])

    def const(self, vec):
        out = np.zeros((len(vec), self.dim), dtype=self.dtype)
        out[:, -1] = vec
        return out

    def _rec(self, st):
        for k in ('U', 'FI', 'FE', 'tau'):
            if st.get(k) is not None:
                self.trace.append(st[k])
        return st

    def magnitudes(self):
        """per input column (and the constant column): the largest modulus any intermediate quantity of the iteration
        takes for that unit input; used as the rounding scale of a probe"""
        out = np.zeros(self.dim)
        for Y in self.trace:
            out = np.maximum(out, np.max(np.abs(Y), axis=0))
        return out

    def sweep(self, l, st):
        """st = dict(U, FI, FE, tau) -> new dict after one sweep on level l"""
        lv = self.lv[l]
        rhs = self.const(lv.one @ self.u0[l]) + lv.dt * (lv.kQ - lv.kQI) @ st['FI'] + lv.dt * (lv.kQ - lv.kQE) @ st['FE']
        rhs = rhs + self.const(lv.dt * (lv.kQE @ lv.G))  # the new explicit values contain the forcing again
        if st['tau'] is not None:
            rhs = rhs + st['tau']
        U = lv.Sinv @ rhs
        self.trace.append(rhs)
        return self._rec({'U': U, 'FI': lv.kAI @ U, 'FE': lv.kAE @ U + self.const(lv.G), 'tau': st['tau']})

    def defect(self, l, st):
        lv = self.lv[l]
        r = self.const(lv.one @ self.u0[l]) + lv.dt * lv.kQ @ (st['FI'] + st['FE']) - st['U']
        if st['tau'] is not None:
            r = r + st['tau']
        return r

    def restrict(self, l, st):
        """level l -> l+1: restricted values, re-evaluated right-hand side, FAS correction (with inherited part)"""
        f, c = self.lv[l], self.lv[l + 1]
        R = self.R[l]
        U = R @ st['U']
        FI, FE = c.kAI @ U, c.kAE @ U + self.const(c.G)
        tau = R @ (f.dt * f.kQ @ (st['FI'] + st['FE'])) - c.dt * c.kQ @ (FI + FE)
        if st['tau'] is not None:
            tau = tau + R @ st['tau']
        return self._rec({'U': U, 'FI': FI, 'FE': FE, 'tau': tau})

    def prolong(self, l, fine, coarse_new, coarse_old):
        """level l+1 -> l: add the prolonged coarse correction; right-hand side re-evaluated or corrected (finter)"""
        f = self.lv[l]
        P = self.P[l]
        U = fine['U'] + P @ (coarse_new['U'] - coarse_old['U'])
        if self.finter:
            FI = fine['FI'] + P @ (coarse_new['FI'] - coarse_old['FI'])
            FE = fine['FE'] + P @ (coarse_new['FE'] - coarse_old['FE'])
        else:
            FI, FE = f.kAI @ U, f.kAE @ U + self.const(f.G)
        return self._rec({'U': U, 'FI': FI, 'FE': FE, 'tau': fine['tau']})

    def start(self):
        return self._rec({'U': self.U0, 'FI': self.FI0, 'FE': self.FE0, 'tau': None})

    def down_up(self):
        """IT_DOWN, IT_COARSE, IT_UP: returns the list of level states after the up stroke (finest first) and the states
        right after each restriction (for the defect-consistency clause)"""
        cur = [self.start()]
        saved = []  # restricted states (the 'old' coarse values) per level >= 1
        after_restrict = []
        for l in range(self.L - 1):
            if l > 0:
                for _ in range(self.nsweeps[l]):
                    cur[l] = self.sweep(l, cur[l])
            c = self.restrict(l, cur[l])
            after_restrict.append((dict(cur[l]), dict(c)))
            saved.append(c)
            cur.append(dict(c))
        cur[-1] = self.sweep(self.L - 1, cur[-1])
        for l in range(self.L - 2, -1, -1):
            cur[l] = self.prolong(l, cur[l], cur[l + 1], saved[l])
            if l > 0:
                for _ in range(self.nsweeps[l]):
                    cur[l] = self.sweep(l, cur[l])
        return cur, after_restrict

    def iteration(self, with_fine_sweeps=True):
        cur, _ = self.down_up()
        st = cur[0]
        if with_fine_sweeps:
            for _ in range(self.nsweeps[0]):
                st = self.sweep(0, st)
        return st

    def correction_gain(self):
        """inf-norm of the map (fine defect) -> (change of the fine values by one down/up stroke): used as conditioning
        of the fixed-point clause. For two levels P S_c^-1 R; for more levels the product along the hierarchy."""
        g = 1.0
        tot = 0.0
        for l in range(self.L - 1):
            g *= float(np.linalg.norm(self.R[l], np.inf))
            gl = g * float(np.linalg.norm(self.lv[l + 1].Sinv, np.inf))
            for j in range(l, -1, -1):
                gl *= float(np.linalg.norm(self.P[j], np.inf))
            tot += gl
        return tot


# ---------------------------------------------------------------------------------------------------------------------
# nonlinear problems (right-hand sides transcribed from the documented equations) and the full collocation Newton
# ---------------------------------------------------------------------------------------------------------------------
class NonlinearModel:
    """f(u, t) and its Jacobian, both dense numpy"""

    def __init__(self, f, jac, N, label='', lin=None):
        self.f, self.jac, self.N, self.label = f, jac, N, label
        self.lin = lin  # constant linear part (the discrete Laplacian) for the semi-implicit splittings


def lap_dirichlet_inhom(n, dx):
    """three-point Laplacian on n interior points; returns (A, bvec(ul, ur)) with f = A u + bvec"""
    A = np.zeros((n, n))
    for i in range(n):
        A[i, i] = -2.0
        if i > 0:
            A[i, i - 1] = 1.0
        if i < n - 1:
            A[i, i + 1] = 1.0
    A /= dx**2

    def b(ul, ur):
        v = np.zeros(n)
        v[0] = ul / dx**2
        v[-1] = ur / dx**2
        return v

    return A, b


def allencahn_front(nvars, eps, dw, interval=(-0.5, 0.5)):
    """u_t = u_xx - 2/eps^2 u(1-u)(1-2u) - 6 dw u(1-u) on `interval`, boundary values from the travelling front
    0.5 (1 + tanh((x - v t) / (sqrt(2) eps))), v = 3 sqrt(2) eps dw; three-point Laplacian on nvars interior points"""
    dx = (interval[1] - interval[0]) / (nvars + 1)
    A, b = lap_dirichlet_inhom(nvars, dx)
    v = 3.0 * np.sqrt(2.0) * eps * dw

    def bv(x, t):
        return 0.5 * (1.0 + np.tanh((x - v * t) / (np.sqrt(2.0) * eps)))

    def f(u, t):
        return A @ u + b(bv(interval[0], t), bv(interval[1], t)) - 2.0 / eps**2 * u * (1 - u) * (1 - 2 * u) - 6.0 * dw * u * (1 - u)

    def jac(u, t):
        return A + np.diag(-2.0 / eps**2 * (1 - 6 * u + 6 * u**2) - 6.0 * dw * (1 - 2 * u))

    return NonlinearModel(f, jac, nvars, 'allencahn_front', lin=A)


def allencahn_periodic(nvars, eps, dw, interval=(-0.5, 0.5)):
    dx = (interval[1] - interval[0]) / nvars
    A = np.zeros((nvars, nvars))
    for i in range(nvars):
        A[i, i] += -2.0
        A[i, (i - 1) % nvars] += 1.0
        A[i, (i + 1) % nvars] += 1.0
    A /= dx**2

    def f(u, t):
        return A @ u - 2.0 / eps**2 * u * (1 - u) * (1 - 2 * u) - 6.0 * dw * u * (1 - u)

    def jac(u, t):
        return A + np.diag(-2.0 / eps**2 * (1 - 6 * u + 6 * u**2) - 6.0 * dw * (1 - 2 * u))

    return NonlinearModel(f, jac, nvars, 'allencahn_periodic', lin=A)


def generalized_fisher(nvars, nu, lambda0, interval=(-5.0, 5.0)):
    """u_t = u_xx + lambda0^2 u (1 - u^nu); boundary values from the travelling wave
    (1 + (2^(nu/2) - 1) exp(-(nu/2) delta (x + 2 lambda1 t)))^(-2/nu)"""
    dx = (interval[1] - interval[0]) / (nvars + 1)
    A, b = lap_dirichlet_inhom(nvars, dx)
    lam1 = lambda0 / 2.0 * ((nu / 2.0 + 1) ** 0.5 + (nu / 2.0 + 1) ** (-0.5))
    delta = lam1 - np.sqrt(lam1**2 - lambda0**2)

    def bv(x, t):
        return (1 + (2 ** (nu / 2.0) - 1) * np.exp(-nu / 2.0 * delta * (x + 2 * lam1 * t))) ** (-2.0 / nu)

    def f(u, t):
        return A @ u + b(bv(interval[0], t), bv(interval[1], t)) + lambda0**2 * u * (1 - u**nu)

    def jac(u, t):
        return A + np.diag(lambda0**2 * (1 - (nu + 1) * u**nu))

    return NonlinearModel(f, jac, nvars, 'generalized_fisher', lin=A)


def vanderpol(mu):
    """x'' - mu (1 - x^2) x' + x = 0 as first-order system (x, x')"""

    def f(u, t):
        return np.array([u[1], mu * (1 - u[0] ** 2) * u[1] - u[0]])

    def jac(u, t):
        return np.array([[0.0, 1.0], [-2 * mu * u[0] * u[1] - 1.0, mu * (1 - u[0] ** 2)]])

    return NonlinearModel(f, jac, 2, 'vanderpol')


def linear_as_nonlinear(A, g=None):
    A = np.asarray(A)

    def f(u, t):
        return A @ u + (g(t) if g is not None else 0.0)

    def jac(u, t):
        return A

    return NonlinearModel(f, jac, A.shape[0], 'linear')


def newton_collocation(model, nodes, dt, u0, t0, tol=1e-13, maxiter=50):
    """Newton on U - 1 (x) u0 - dt (Q (x) I) F(U) = 0. Returns U (M x N), the scaled final residual and the inf-norm of
    the inverse Jacobian at the solution."""
    nodes = np.asarray(nodes, dtype=float)
    Q, _ = lagrange_Q(nodes)
    M, N = len(nodes), model.N
    ts = t0 + dt * nodes
    U = np.tile(np.asarray(u0), (M, 1)).astype(np.result_type(np.asarray(u0).dtype, float))

    def resid(U):
        F = np.array([model.f(U[m], ts[m]) for m in range(M)])
        return U - np.asarray(u0)[None, :] - dt * (Q @ F), F

    Jinv_norm = None
    for it in range(maxiter):
        r, F = resid(U)
        scale = max(1.0, float(np.max(np.abs(U))) + dt * float(np.linalg.norm(Q, np.inf)) * float(np.max(np.abs(F))))
        J = np.eye(M * N, dtype=U.dtype)
        for m in range(M):
            Jm = model.jac(U[m], ts[m])
            for k in range(M):
                J[k * N : (k + 1) * N, m * N : (m + 1) * N] -= dt * Q[k, m] * Jm
        if float(np.max(np.abs(r))) <= tol * scale and it > 0:
            Jinv_norm = float(np.linalg.norm(np.linalg.inv(J), np.inf))
            break
        U = U - np.linalg.solve(J, r.reshape(M * N)).reshape(M, N)
    else:
        raise RuntimeError('oracle Newton on the collocation system did not converge')
    r, F = resid(U)
    return U, float(np.max(np.abs(r))) / scale, Jinv_norm, scale
