"""Reference model for C20: how a description is distributed to levels, and what must be rejected.

No pySDC import.  The model is the property statement itself:

  * an entry whose value is a python list is distributed to the levels in order, the last entry repeating;
    any other value (scalar, numpy array, class, dict) is shared by all levels;
  * the hierarchy has as many levels as the longest list (one level if there is no list);
  * convergence controllers: one instance per class, called in ascending `control_order`, user-supplied parameters
    override defaults (also when the class was added automatically as a dependency).
"""


def is_list(v):
    return type(v) is list


def n_levels(list_lengths):
    """list_lengths: lengths of all list-valued entries of the description"""
    return max([1] + list(list_lengths))


def level_value(v, level):
    """value of entry `v` on level `level`"""
    if is_list(v):
        return v[min(level, len(v) - 1)]
    return v


def shape_assignments(n_entries, max_lists, max_len=4):
    """all assignments of shapes (0 = scalar, 1..max_len = list of that length) to n_entries entries with at most
    max_lists list-valued entries; generated in a fixed order"""
    import itertools

    out = []
    for k in range(max_lists + 1):
        for which in itertools.combinations(range(n_entries), k):
            for lens in itertools.product(range(1, max_len + 1), repeat=k):
                shp = [0] * n_entries
                for i, n in zip(which, lens):
                    shp[i] = n
                out.append(tuple(shp))
    return out


def order_ok(order, control_orders):
    """`order` must be a permutation of range(n) along which control_orders is non-decreasing"""
    n = len(control_orders)
    if sorted(int(i) for i in order) != list(range(n)):
        return False
    seq = [control_orders[int(i)] for i in order]
    return all(a <= b for a, b in zip(seq, seq[1:]))
