"""Reference model for interpolatory quadrature on a given node set (C05) -- extended precision, never calls pySDC/qmat.

Everything is computed with mpmath at DPS decimal digits from the *float nodes handed in* (binary floats are converted
exactly).  The working variable is s = (t - a) / (b - a); integrals are scaled back by L = b - a.

    exact_rule(nodes, a, b)   ->  w[j]      = int_a^b      l_j(t) dt
                                  Q[m][j]   = int_a^x_m    l_j(t) dt
                                  S[m][j]   = int_x_{m-1}^x_m l_j(t) dt      (x_0 := a)
                                  and the same with |l_j| (wabs, Qabs, Sabs) -- the magnitude of what is summed by any
                                  quadrature of l_j -- and with Lambda(t)|l_j| (wcond, Qcond, Scond), Lambda the
                                  Lebesgue function of the nodes (conditioning of evaluating l_j), used as rounding scale.
    derivatives(...)          ->  |d g / d x_k| for every g above and for the moments of the exact rule, by forward
                                  differencing in extended precision (h = L * 1e-25).

l_j is the Lagrange basis polynomial through the nodes.  Its monomial coefficients in s are obtained by deflating the
master polynomial prod (s - s_k); with DPS = 60 the cancellation in these coefficients (at most ~ 4^M) is irrelevant
for M <= 16 (checked by `selfcheck` against direct Gauss-Legendre integration in mpmath).
"""

import mpmath

DPS = 60
ctx = mpmath.mp.clone()
ctx.dps = DPS
mpf = ctx.mpf
ZERO = mpf(0)
ONE = mpf(1)


def to_s(nodes, a, b):
    a = mpf(a)
    L = mpf(b) - a
    return [(mpf(float(x)) - a) / L for x in nodes], L


def _master(s):
    c = [ONE]
    for sk in s:
        new = [ZERO] * (len(c) + 1)
        for i, ci in enumerate(c):
            new[i + 1] += ci
            new[i] -= sk * ci
        c = new
    return c  # ascending, monic, degree len(s)


def _deflate(c, r):
    n = len(c) - 1
    q = [ZERO] * n
    q[n - 1] = c[n]
    for i in range(n - 1, 0, -1):
        q[i - 1] = c[i] + r * q[i]
    return q  # ascending, degree n-1


def _horner(c, x):
    acc = ZERO
    for ci in reversed(c):
        acc = acc * x + ci
    return acc


def antiderivatives(s):
    """ascending coefficient lists A_j with A_j(0) = 0 and A_j' = l_j (Lagrange basis through the points s)."""
    W = _master(s)
    out = []
    for sj in s:
        q = _deflate(W, sj)
        d = _horner(q, sj)
        out.append([ZERO] + [qi / (d * (i + 1)) for i, qi in enumerate(q)])
    return out


def _F_table(s):
    """F[j][p] = A_j(point p), points = [0] + s + [1]."""
    A = antiderivatives(s)
    pts = [ZERO] + list(s) + [ONE]
    return [[_horner(Aj, p) for p in pts] for Aj in A]


def lebesgue_pieces(s, nsamp=9):
    """max over nsamp equispaced samples (ends included) of the Lebesgue function sum_j |l_j(t)| on each of the M+1
    pieces [0,s_1], [s_1,s_2], ..., [s_M,1].  On a piece every l_j keeps its sign, so the Lebesgue function is one
    polynomial bump there and a 9-point sample is within a few percent of its maximum."""
    M = len(s)
    den = []
    for j in range(M):
        d = ONE
        for k in range(M):
            if k != j:
                d *= s[j] - s[k]
        den.append(d)
    pts = [ZERO] + list(s) + [ONE]
    out = []
    for p in range(M + 1):
        lo, hi = pts[p], pts[p + 1]
        best = ONE
        if hi > lo:
            for q in range(nsamp):
                t = lo + (hi - lo) * q / (nsamp - 1)
                diffs = [t - sk for sk in s]
                if any(d == 0 for d in diffs):
                    continue  # at a node the Lebesgue function is 1
                W = ONE
                for d in diffs:
                    W *= d
                lam = sum(abs(W / (diffs[j] * den[j])) for j in range(M))
                if lam > best:
                    best = lam
        out.append(best)
    return out


def exact_rule(nodes, a, b, with_abs=True):
    s, L = to_s(nodes, a, b)
    M = len(s)
    F = _F_table(s)
    w = [L * (F[j][M + 1] - F[j][0]) for j in range(M)]
    Q = [[L * (F[j][m + 1] - F[j][0]) for j in range(M)] for m in range(M)]
    S = [[L * (F[j][m + 1] - F[j][m]) for j in range(M)] for m in range(M)]
    out = {'w': w, 'Q': Q, 'S': S, 's': s, 'L': L}
    if with_abs:
        # l_j changes sign only at nodes, and the nodes are increasing inside [a, b] (validated by the caller), so
        # int |l_j| over [p, p'] between consecutive break points is |F(p') - F(p)|
        piece = [[abs(F[j][p + 1] - F[j][p]) for p in range(M + 1)] for j in range(M)]
        out['wabs'] = [L * sum(piece[j]) for j in range(M)]
        out['Qabs'] = [[L * sum(piece[j][: m + 1]) for j in range(M)] for m in range(M)]
        out['Sabs'] = [[L * piece[j][m] for j in range(M)] for m in range(M)]
        # the same integrals weighted with the (piecewise maximal) Lebesgue function: int Lambda(t) |l_j(t)| dt is the
        # rounding scale of l_j evaluated through the node values / barycentric weights (conditioning of
        # interpolation on these nodes); Lambda >= 1, so these dominate the plain |l_j| integrals
        lam = lebesgue_pieces(s)
        out['lebesgue_pieces'] = lam
        out['wcond'] = [L * sum(lam[p] * piece[j][p] for p in range(M + 1)) for j in range(M)]
        out['Qcond'] = [[L * sum(lam[p] * piece[j][p] for p in range(m + 1)) for j in range(M)] for m in range(M)]
        out['Scond'] = [[L * lam[m] * piece[j][m] for j in range(M)] for m in range(M)]
    return out


def moments(w, s, L, jmax):
    """sum_i w_i s_i^j for j < jmax (mpf), the exact value L/(j+1), and sum_i |w_i| |s_i|^j."""
    val, ref, mag = [], [], []
    pw = [ONE] * len(s)
    for j in range(jmax):
        val.append(sum(wi * p for wi, p in zip(w, pw)))
        mag.append(sum(abs(wi) * abs(p) for wi, p in zip(w, pw)))
        ref.append(L / (j + 1))
        pw = [p * si for p, si in zip(pw, s)]
    return val, ref, mag


def derivatives(nodes, a, b, jmax, base=None):
    """|dg/dx_k| as float arrays for g in w (k,j), Q (k,m,j), S (k,m,j) and for the moments of the *exact* rule
    through the nodes (k,jj); forward differences with step h = L * 1e-25 in DPS-digit arithmetic (the upper limits
    of Q and S move with the nodes, the interval ends do not)."""
    import numpy as np

    base = base or exact_rule(nodes, a, b, with_abs=False)
    M = len(nodes)
    L = base['L']
    h = L * mpf(10) ** (-25)
    xs = [mpf(float(x)) for x in nodes]
    am = mpf(a)
    m0, _, _ = moments(base['w'], base['s'], L, jmax)
    Dw = np.zeros((M, M))
    DQ = np.zeros((M, M, M))
    DS = np.zeros((M, M, M))
    Dm = np.zeros((M, jmax))
    for k in range(M):
        xp = list(xs)
        xp[k] = xs[k] + h
        sp = [(x - am) / L for x in xp]
        F = _F_table(sp)
        wp = [L * (F[j][M + 1] - F[j][0]) for j in range(M)]
        for j in range(M):
            Dw[k, j] = float(abs(wp[j] - base['w'][j]) / h)
            for m in range(M):
                DQ[k, m, j] = float(abs(L * (F[j][m + 1] - F[j][0]) - base['Q'][m][j]) / h)
                DS[k, m, j] = float(abs(L * (F[j][m + 1] - F[j][m]) - base['S'][m][j]) / h)
        mp_, _, _ = moments(wp, sp, L, jmax)
        for j in range(jmax):
            Dm[k, j] = float(abs(mp_[j] - m0[j]) / h)
    return {'w': Dw, 'Q': DQ, 'S': DS, 'moment': Dm}


def selfcheck(nodes, a, b):
    """independent cross-check of exact_rule: integrate the product form of l_j with mpmath's own quadrature."""
    r = exact_rule(nodes, a, b)
    s, L = r['s'], r['L']
    worst = ZERO
    for j in range(len(s)):
        def lj(t, j=j):
            v = ONE
            for k, sk in enumerate(s):
                if k != j:
                    v *= (t - sk) / (s[j] - sk)
            return v
        brk = sorted(set([ZERO, ONE] + [x for x in s if 0 < x < 1]))
        ref = L * ctx.quad(lj, brk)
        worst = max(worst, abs(ref - r['w'][j]))
        refa = L * ctx.quad(lambda t: abs(lj(t)), brk)
        worst = max(worst, abs(refa - r['wabs'][j]))
    return worst
